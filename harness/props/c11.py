"""C11 -- aliases, NewTypes, qualifiers and string references are transparent (DESIGN 7/C11).

Theorems: Props/C11.v (the reference semantics and the routing relation depend on an annotation only through
its normal form: wrappers peeled and references evaluated, at the root and at every member position).
Tie: core + mechanism correspondence on annotations with wrapper chains (<= 3) at root / collection argument /
mapping value / tuple member / union member / class field, string and ForwardRef references from the defining
module (incl. nested call depth) and with a module-qualified name.
Oracle: routine(W(T)) vs routine(T) on the input pool, on the implementation.
Round 3 (helpers c11_fields.py, c11_modules.py; all three are correspondence streams AND oracle streams):
  * class fields: shape (first visit / revisit on another path / revisit closing a cycle) x position x wrapper chain,
    class with W(T) on the member vs its twin with T;
  * ForwardRef(module=a module that merely imports the name) at the root and at every nested position; string /
    ForwardRef members and foreign-module wrappers in a class of the importing module (oracle only);
  * histories: compound / bare / dotted string references issued from 3 synthesised modules within one process, no
    cache cleared in between, from call depth 0-3, a closure and an importing module; with names unique per module
    and with the same names bound in every module.
Round 4: bare / dotted names also through a shared helper module between issuer and typelib; wrapper chains whose links
are defined in different modules (c11_modules.cross_groups: correspondence + oracle; class fields: oracle).
"""
from __future__ import annotations

import itertools
import json
import random
import warnings

import c11_fields
import c11_modules
import coregen
import coremodel
import coreprop
import impl
import lib
import refstie
import universe

COQ_TARGETS = ["theories/Props/C11.vo", "theories/Model/BuildTables.vo", "theories/Model/CoreTables.vo"]
COQ_TARGETS = COQ_TARGETS + [t for t in refstie.COQ_TARGETS if t not in COQ_TARGETS]
THEOREMS = ["C11_root_transparent_unm", "C11_root_transparent_mar", "C11_nested_transparent_unm",
            "C11_nested_transparent_mar", "C11_routes_transparent"]


def prove(run: lib.Run):
    run.check_props("Props/C11.v", THEOREMS)
    run.assumptions += [
        "C11: module discovery of bare string references (frames.extract / getcaller) is interpreter behaviour: "
        "modelled as 'the reference evaluates to the named object', exercised by the tie from the defining module, "
        "at nested call depths, from a closure, from a module that imports the names, with module-qualified names, "
        "and in interleaved histories over several modules without cache clearing (distinct and clashing names)",
        "C11: wrappers never wrap None directly (NewType('N', None) cannot be built; an alias of None is not treated "
        "as optional by typing)",
    ]


def wrap_chain(rng, t, wid, allow_final, allow_classvar, n=None):
    n = n if n is not None else rng.randint(1, 3)
    for i in range(n):
        outer = i == n - 1
        opts = ["newtype", "alias"]
        if outer and allow_final:
            opts.append("final")
        if outer and allow_classvar:
            opts.append("classvar")
        w = rng.choice(opts)
        if w in ("newtype", "alias"):
            t = (w, next(wid), t)
        else:
            t = (w, t)
    return t


def variants(rng, env, base, wid, classes):
    """(tag, wrapped description) with the same meaning as base"""
    out = [("root-chain", wrap_chain(rng, base, wid, True, True))]
    inner = base
    out.append(("seq-arg", ("seq", "KList", "list[{}]", wrap_chain(rng, inner, wid, False, False))))
    out.append(("map-value", ("map", "KDict", "dict[{}, {}]", ("leaf", "str"), wrap_chain(rng, inner, wid, False, False))))
    out.append(("tuple-member", ("tuple", "tuple[{}]", [("leaf", "int"), wrap_chain(rng, inner, wid, False, False)])))
    if inner[0] != "union":
        out.append(("union-member", ("union", "Union", [wrap_chain(rng, inner, wid, False, False), ("none",)])))
    # a reference (ForwardRef with module / bare string is only resolvable at root) whose TARGET is itself a
    # wrapper, at a nested position
    w = wrap_chain(rng, inner, wid, False, False, n=rng.randint(1, 2))
    if w[0] in ("newtype", "alias"):
        out.append(("seq-arg-wrapref", ("seq", "KList", "list[{}]", ("wrapref", w, "fwd"))))
        out.append(("map-value-wrapref", ("map", "KDict", "dict[{}, {}]", ("leaf", "str"), ("wrapref", w, "fwd"))))
        out.append(("tuple-member-wrapref", ("tuple", "tuple[{}]", [("leaf", "int"), ("wrapref", w, "fwd")])))
    return out


def plain_of(tag, base):
    return {"root-chain": base,
            "seq-arg": ("seq", "KList", "list[{}]", base),
            "map-value": ("map", "KDict", "dict[{}, {}]", ("leaf", "str"), base),
            "tuple-member": ("tuple", "tuple[{}]", [("leaf", "int"), base]),
            "union-member": ("union", "Union", [base, ("none",)]),
            "seq-arg-wrapref": ("seq", "KList", "list[{}]", base),
            "map-value-wrapref": ("map", "KDict", "dict[{}, {}]", ("leaf", "str"), base),
            "tuple-member-wrapref": ("tuple", "tuple[{}]", [("leaf", "int"), base])}[tag]


def build_groups(run):
    rng = random.Random(run.seed * 11 + 1)
    n_groups = run.budget(16, 150)
    groups, pairs = [], []
    for gi in range(n_groups):
        env = coregen.gen_env(rng, ncls=rng.randint(1, 3), cyclic=(gi % 4 == 3), depth=2)
        classes = [n for n, d in env["defs"].items() if d[0] == "class"]
        wid = env.setdefault("wid", itertools.count(1))
        roots, meta = [], []
        if gi == 0:
            # deterministic sweep: every qualifier over every short wrapper chain, at the root, for one base of each
            # kind of leaf / composite (a Literal and an enum included: predicates that look THROUGH a qualifier
            # decide differently for them)
            env["defs"].setdefault("EnA", ("enum", [("RED", "1"), ("BLUE", "2")]))
            env["defs"].setdefault("Lit", ("literal", ["1", "'a'", "'b'"]))
            bases = [("leaf", "int"), ("leaf", "Lit"), ("leaf", "EnA"), ("leaf", "date"),
                     ("union", "Optional", [("leaf", "int"), ("none",)]), ("seq", "KList", "list[{}]", ("leaf", "Lit")),
                     ("name", classes[0])]
            for base in bases:
                for q in ("final", "classvar"):
                    for chain in ((), ("newtype",), ("alias",), ("newtype", "alias"), ("alias", "newtype")):
                        w = base
                        for k in chain:
                            w = (k, next(wid), w)
                        roots.append(base); meta.append(("root-qualifier", "plain", len(roots)))
                        roots.append((q, w)); meta.append(("root-qualifier", "wrapped", len(roots) - 2))
            # TWO qualifiers, separated by a NewType / a value alias (Python only rejects a qualifier directly inside a
            # qualifier): Final[NewType('N', Final[T])], ClassVar[alias(Final[T])], Final[NewType(alias(ClassVar[T]))] ...
            # (seeded change C11-r7m2: unwrap() peeled at most one qualifier)
            for base in bases:
                for q1 in ("final", "classvar"):
                    for q2 in ("final", "classvar"):
                        for chain in (("newtype",), ("alias",), ("newtype", "alias"), ("alias", "newtype")):
                            w = (q2, base)
                            for k in chain:
                                w = (k, next(wid), w)
                            roots.append(base); meta.append(("root-two-qualifiers", "plain", len(roots)))
                            roots.append((q1, w)); meta.append(("root-two-qualifiers", "wrapped", len(roots) - 2))
        for _ in range(3):
            base = coregen.gen_ty(rng, env, 2, wrap=0, classes=classes)
            for tag, w in variants(rng, env, base, wid, classes):
                roots.append(plain_of(tag, base)); meta.append((tag, "plain", len(roots)))
                roots.append(w); meta.append((tag, "wrapped", len(roots) - 2))
        # references to classes: bare string from the defining module, ForwardRef with module, string alias
        for n in classes[:2]:
            roots.append(("name", n)); meta.append(("ref", "plain", len(roots)))
            roots.append(("ref", n, "str")); meta.append(("ref-str", "wrapped", len(roots) - 2))
            roots.append(("name", n)); meta.append(("ref", "plain", len(roots)))
            roots.append(("ref", n, "fwd")); meta.append(("ref-fwd", "wrapped", len(roots) - 2))
            roots.append(("name", n)); meta.append(("ref", "plain", len(roots)))
            roots.append(("aliasstr", next(wid), n)); meta.append(("alias-str", "wrapped", len(roots) - 2))
        # round 3: ForwardRef('N', module=M) where M is not the module that defines N but one that imports it,
        # at the root and at every nested position (the reference object is evaluated in the importing module below)
        foreign = []
        for n in classes[:1]:
            for pos, tag in FOREIGN_POSITIONS:
                roots.append(foreign_at(pos, ("name", n))); meta.append((tag, "plain", len(roots)))
                roots.append(foreign_at(pos, ("ref", n, "fwd"))); meta.append((tag, "wrapped", len(roots) - 2))
                foreign.append(len(roots) - 1)
        try:
            g = coremodel.Group(env, roots, coreprop.suppressed())
            c11_modules.attach_importer(g, foreign)
        except Exception as e:
            run.notes.append(f"group materialisation failed: {e!r}")
            continue
        g.ref_depth = gi % 3
        # bare-string roots: the python 'type' is the string itself
        for ri, r in enumerate(roots):
            if r[0] == "ref" and r[2] == "str":
                g.pytys[ri] = universe.cname(r[1])
        g.meta = meta
        for ri in range(0, len(roots), 2):
            plain, wrapped = ri, ri + 1
            for _ in range(2):
                try:
                    v = coregen.gen_value(rng, roots[plain], env, g.mod, depth=2)
                except RecursionError:
                    continue
                wire = g.add("m", plain, v)
                wire_w = g.add("m", wrapped, v)
                inputs = coregen.input_pool(rng, v, wire[1] if wire[0] == "ok" else None)
                obs = [(tag, x, g.add("u", plain, x), g.add("u", wrapped, x)) for tag, x in inputs]
                pairs.append({"group": g, "plain": plain, "wrapped": wrapped, "tag": meta[wrapped][0], "value": v,
                              "m": (wire, wire_w), "u": obs})
        groups.append(g)
    # round 3: wrapper chains on class fields whose target is a first visit / a revisit / closes a cycle
    fg, fp = c11_fields.build(run.seed, run.tier == "thorough", coreprop.suppressed(), run.notes)
    # round 3: compound string references from several modules within one process, no cache cleared in between
    hg, hist = c11_modules.build(run.seed, run.tier == "thorough", coreprop.suppressed(), run.notes)
    run._c11_hist = hist
    # round 4: wrapper chains whose links are defined in different modules
    xg, xp = c11_modules.cross_groups(run.seed, run.tier == "thorough", coreprop.suppressed(), run.notes)
    run._c11_oracle_only = [g for g in xg if getattr(g, "oracle_only", False)]
    return groups + fg + hg + [g for g in xg if not getattr(g, "oracle_only", False)], pairs + fp + xp


FOREIGN_POSITIONS = [("root", "foreign-ref-root"), ("list", "foreign-ref-seq-arg"), ("dict", "foreign-ref-map-value"),
                     ("tuple", "foreign-ref-tuple-member"), ("opt", "foreign-ref-union-member")]


def foreign_at(pos, t):
    return t if pos == "root" else c11_fields.at(pos, t)


def correspond(run: lib.Run):
    groups, pairs = build_groups(run)
    run._c11 = (groups, pairs)
    problems = []
    for g in groups:
        for t in getattr(g, "order_types", g.pytys):
            g.collect_orders(t)
        problems += g.order_problems
    run.oblige("tie:every observed graph node has a model annotation", not problems, "; ".join(problems[:3]))
    bs, bm, ba = coremodel.evaluate_groups_mech(run, groups, "c11", per_file=5)
    ncases = sum(len(g.cases) for g in groups)
    distinct = len({(g.env["module"], c[0], c[1], c[2]) for g in groups for c in g.cases})
    tags = {}
    for p in pairs:
        tags[p["tag"]] = tags.get(p["tag"], 0) + 1
    dist = {"groups": len(groups), "positions": tags,
            "observed_raise": sum(1 for g in groups for c in g.cases if "Raise" in c[3])}
    run.record_corr("reference-semantics-vs-implementation", ncases, [g.cases[i][4] for g, i in bs], distinct, dist)
    run.record_corr("mechanism-on-observed-order-vs-implementation", ncases, [g.cases[i][4] for g, i in bm], distinct, dist)
    run.record_corr("mechanism-vs-reference-semantics", ncases, [g.cases[i][4] for g, i in ba], distinct, dist)
    if groups and groups[0].cases:
        run.samples.append(groups[0].cases[1][4])
    # reference resolution (frames, module discovery, string-keyed caches): model + histories (Props/C11Refs.v)
    lib.run_tie(run, refstie)


def same_outcome(a, b):
    if a[0] != b[0]:
        return False
    if a[0] == "raise":
        return a[1] == b[1]
    return coreprop.same(a[1], b[1]) or repr(a[1]) == repr(b[1])


def qualified_refs(fails, stats):
    """a reference issued from another module with a module-qualified name, at nested call depth"""
    from typelib import marshals, unmarshals
    a = impl.new_module("verif_c11_qa", "import dataclasses\n@dataclasses.dataclass\nclass Item:\n    val: int\n    tags: list['Item']\n")
    b = impl.new_module("verif_c11_qb", "import typing\nfrom typelib import unmarshals, marshals\n"
                        "def um(x, depth=0):\n    if depth:\n        return um(x, depth - 1)\n"
                        "    return unmarshals.unmarshal('verif_c11_qa.Item', x)\n"
                        "def um_fwd(x):\n    return unmarshals.unmarshal(typing.ForwardRef('Item', module='verif_c11_qa'), x)\n"
                        "def m(v):\n    return marshals.marshal(v, t='verif_c11_qa.Item')\n")
    x = {"val": "3", "tags": [{"val": "4", "tags": []}]}
    try:
        impl.clear_caches()
        direct = unmarshals.unmarshal(a.Item, x)
        for name, f in (("qualified-string depth 0", lambda: b.um(x)), ("qualified-string depth 3", lambda: b.um(x, 3)),
                        ("ForwardRef(module=)", lambda: b.um_fwd(x))):
            impl.clear_caches()
            stats["evaluations"] += 1
            try:
                r = f()
                stats["nontrivial"] += 1
                if not coreprop.same(r, direct):
                    fails.append({"symptom": f"reference form '{name}' converts differently from the class itself",
                                  "got": repr(r), "expected": repr(direct), "key": f"C11-qref-{name}"})
            except BaseException as e:
                fails.append({"symptom": f"reference form '{name}' raised", "got": repr(e), "key": f"C11-qref-raise-{name}"})
        impl.clear_caches()
        w1, w2 = marshals.marshal(direct, t=a.Item), b.m(direct)
        if w1 != w2:
            fails.append({"symptom": "marshal through a qualified string differs", "got": repr(w2), "expected": repr(w1),
                          "key": "C11-qref-marshal"})
    finally:
        impl.drop_module("verif_c11_qa"); impl.drop_module("verif_c11_qb")


CODEC_BASES = [("bytes", "bytes", "b'\\x00abc'"), ("bytearray", "bytearray", "bytearray(b'ab')"), ("str", "str", "'s'"),
               ("int", "int", "5"), ("dec", "decimal.Decimal", "decimal.Decimal('1.5')"),
               ("date", "datetime.date", "datetime.date(2020, 2, 3)"), ("cls", "P", "P(1, datetime.date(2020, 2, 3))"),
               ("lst", "list[int]", "[1, 2]"), ("opt", "typing.Optional[bytes]", "b'xy'")]


def codec_chains(fails, stats):
    """codecs (and the function-level encode / decode) of every alternating NewType / alias chain of length <= 3
    behave like those of the base type: same payload, same decoded value, same exception kind"""
    import itertools as it
    import typelib
    lines = ["import typing, dataclasses, datetime, decimal", "from typelib.py.compat import TypeAliasType",
             "@dataclasses.dataclass", "class P:", "    x: int", "    y: datetime.date"]
    chains = []
    for bname, bsrc, vsrc in CODEC_BASES:
        lines.append(f"B_{bname} = {bsrc}")
        lines.append(f"V_{bname} = {vsrc}")
        for n in (1, 2, 3):
            for kinds in it.product(("NT", "AL"), repeat=n):
                prev = f"B_{bname}"
                for i, k in enumerate(kinds):          # innermost first
                    name = f"W_{bname}_{''.join(kinds)}_{i}"
                    lines.append(f"{name} = typing.NewType('{name}', {prev})" if k == "NT"
                                 else f"{name} = TypeAliasType('{name}', {prev})")
                    prev = name
                chains.append((bname, kinds, prev))
    mod = impl.new_module("verif_c11_codec", "\n".join(lines) + "\n")

    def outcome(f):
        try:
            r = f()
            return ("ok", type(r).__name__, repr(r))
        except Exception as e:
            return ("raise", impl.exc_kind(e))
    try:
        for bname, kinds, wname in chains:
            T, W, v = getattr(mod, f"B_{bname}"), getattr(mod, wname), getattr(mod, f"V_{bname}")
            impl.clear_caches()
            ref_payload = outcome(lambda: typelib.codec(T).encode(v))
            payload = typelib.codec(T).encode(v) if ref_payload[0] == "ok" else b"null"
            clauses = [
                ("codec(W).encode(v)", ref_payload, lambda: typelib.codec(W).encode(v)),
                ("typelib.encode(v, t=W)", outcome(lambda: typelib.encode(v, t=T)), lambda: typelib.encode(v, t=W)),
                ("codec(W).decode(payload)", outcome(lambda: typelib.codec(T).decode(payload)),
                 lambda: typelib.codec(W).decode(payload)),
                ("typelib.decode(W, payload)", outcome(lambda: typelib.decode(T, payload)),
                 lambda: typelib.decode(W, payload)),
            ]
            for what, exp, f in clauses:
                stats["evaluations"] += 1
                stats["nontrivial"] += exp[0] == "ok"
                impl.clear_caches()
                got = outcome(f)
                if got != exp:
                    fails.append({"symptom": "codec of the wrapped annotation behaves differently", "tag": "codec-chain",
                                  "plain_type": repr(T), "wrapped_type": f"{'('.join(kinds)}({bname}" + ")" * len(kinds),
                                  "call": what, "input": repr(v), "got": repr(got)[:300], "expected": repr(exp)[:300],
                                  "module_source": "\n".join(lines),
                                  "key": json.dumps(["C11-codec", bname, list(kinds), what])})
    finally:
        impl.drop_module("verif_c11_codec")


def search(run: lib.Run, broken):
    groups, pairs = getattr(run, "_c11", (None, None))
    if groups is None:
        groups, pairs = build_groups(run)
    fails, stats = [], {"evaluations": 0, "nontrivial": 0}
    kinds = {}
    for p in pairs:
        g = p["group"]
        kinds[p["tag"]] = kinds.get(p["tag"], 0) + 1
        if "field" in p:
            f = p["field"]
            base = {"tag": p["tag"], "field": f, "plain_type": f"class {f['root']} of shape {f['shape']} with the plain member",
                    "wrapped_type": f"class {f['root']} of shape {f['shape']}: member {f['chain_label']} at position "
                                    f"{f['pos']} ({f['flavour']}, {f['visit']})"}
        else:
            base = {"tag": p["tag"], "plain_type": repr(g.pytys[p["plain"]]), "wrapped_type": repr(g.pytys[p["wrapped"]]),
                    "module_source": g.src, "ref_depth": getattr(g, "ref_depth", 0),
                    "env": {"module": g.env["module"], "defs": {str(k): v for k, v in g.env["defs"].items()}},
                    "plain_desc": g.roots[p["plain"]], "wrapped_desc": g.roots[p["wrapped"]],
                    "foreign": p["wrapped"] in getattr(g, "foreign", ()),
                    "shop": getattr(g, "shop_specs", {}).get(p["wrapped"]), "cross": p.get("cross")}
        stats["evaluations"] += 1
        if not same_outcome(*p["m"]):
            fails.append(dict(base, symptom="marshaller of the wrapped annotation behaves differently", input_spec=["valid"],
                              input=repr(p["value"])[:3000], got=repr(p["m"][1])[:300], expected=repr(p["m"][0])[:300],
                              key=json.dumps(["C11-m", p["tag"], base["wrapped_type"][:120]])))
        for tag, x, a, b in p["u"]:
            stats["evaluations"] += 1
            stats["nontrivial"] += a[0] == "ok"
            if not same_outcome(a, b):
                xr = (repr(p["value"]) if x[0] == "valid" else x[2]) if "field" in p else repr(x)
                fails.append(dict(base, symptom="unmarshaller of the wrapped annotation behaves differently",
                                  input=xr[:3000], got=repr(b[1])[:300], expected=repr(a[1])[:300],
                                  input_spec=list(x[:2]) if "field" in p else None,
                                  key=json.dumps(["C11-u", p["tag"], base["wrapped_type"][:120], xr[:80]])))
    # histories: every step must behave like the routine of the annotation the text evaluates to
    hist = getattr(run, "_c11_hist", [])
    callers = {}
    first = {}
    for si, (hi, g, ri, caller, direction, x, obs, exp) in enumerate(hist):
        stats["evaluations"] += 1
        stats["nontrivial"] += exp[0] == "ok"
        callers[caller] = callers.get(caller, 0) + 1
        first.setdefault(hi, si)
        if not same_outcome(exp, obs):
            fails.append({"symptom": "a string reference issued after other modules' references behaves differently from "
                                     "the annotation it evaluates to in the issuing module", "tag": "history",
                          "history": hi, "step": si - first[hi], "seed": run.seed, "wrapped_type": repr(g.pytys[ri]),
                          "plain_type": repr(g.order_types[ri]), "caller": caller, "direction": direction,
                          "input": repr(x)[:3000], "got": repr(obs[1])[:300], "expected": repr(exp[1])[:300],
                          "issued_before": [[h[1].env["module"], h[1].pytys[h[2]], h[3], h[4]]
                                            for h in hist[first[hi]:si]][:40],
                          "key": json.dumps(["C11-history", hi, si - first[hi]])})
    qualified_refs(fails, stats)
    codec_chains(fails, stats)
    c11_modules.foreign_members(fails, stats)
    run.search_stats["oracle"] = {
        "evaluations": stats["evaluations"], "distinct_nontrivial": stats["nontrivial"], "pairs": len(pairs),
        "pairs_by_tag": kinds, "history_steps": len(hist), "history_callers": callers,
        "failures": len(fails),
        "rule": "for each base annotation T and each wrapped variant W(T) (chains <= 3 of NewType / TypeAliasType / "
                "Final / ClassVar at root, collection argument, mapping value, tuple member, union member; string, "
                "ForwardRef and string-alias references to classes from the defining module at call depth 0-2; "
                "module-qualified strings from another module; ForwardRef(module=an importing module) at the root and "
                "nested) marshal and unmarshal outcomes (value with classes, "
                "or exception kind) are compared on valid values, wire forms, JSON/literal text, corrupted wires and "
                "unrelated objects; non-trivial = the plain routine returned a value.  Class fields: every shape "
                "(first visit / revisit on another path / cycle) x position x chain, class with W(T) on the member vs "
                "the twin class with T, modulo the identity of the enclosing classes.  Histories: compound / bare / "
                "dotted string references from 3 modules with distinct names, interleaved, no cache cleared, issued at "
                "depth 0-3, from a closure and from an importing module, bare / dotted names also through a shared helper "
                "module that binds none of them, vs the routine of the evaluated annotation.  Cross-module chains: "
                "string-valued alias in module A, outer NewType / alias links in module B (B binds the text's names "
                "not at all / to other classes / identically) at the root, nested, as alias of a generic and on class "
                "fields, vs the plain annotation",
    }
    best = {}
    for f in fails:
        k = (f["symptom"], f.get("tag"))
        size = len(f.get("input", "")) + len(f.get("wrapped_type", "")) + 1000 * f.get("step", 0)
        if k not in best or size < best[k][0]:
            best[k] = (size, f)
    coreprop.close(groups)
    coreprop.close(getattr(run, "_c11_oracle_only", []))
    out = [v[1] for v in best.values()]
    try:
        for f in refstie.search(run):
            f.setdefault("key", "refs|" + str(f.get("kind")) + "|" + str(f.get("cause")))
            out.append(f)
    except Exception as ex:      # the oracle of the tie must not take the property's own oracle down
        run.notes.append(f"refstie.search failed: {ex!r}")
        run.oblige("tie:refstie.search ran to completion", False, repr(ex)[:400])
    return out


def _tup(x):
    if isinstance(x, list):
        return tuple(_tup(y) for y in x) if (x and isinstance(x[0], str)) else [_tup(y) for y in x]
    return x


def replay(payload):
    if str(payload.get("kind", "")).startswith("refs-"):
        return refstie.replay(payload)
    """rebuild the module, then compare the routines of the plain and of the wrapped annotation on the input"""
    if payload.get("tag") == "codec-chain":
        fails, stats = [], {"evaluations": 0, "nontrivial": 0}
        codec_chains(fails, stats)
        return {"fails": bool(fails), "failures": [{k: v for k, v in f.items() if k != "module_source"} for f in fails[:5]]}
    if payload.get("tag") == "history":
        obs, exp, text, caller = c11_modules.replay_history(payload["seed"], payload["history"], payload["step"],
                                                            coreprop.suppressed())
        return {"fails": not same_outcome(exp, obs), "reference": text, "caller": caller,
                "observed": repr(obs)[:300], "expected": repr(exp)[:300]}
    if payload.get("tag") == "foreign-member":
        fails, stats = [], {"evaluations": 0, "nontrivial": 0}
        c11_modules.foreign_members(fails, stats, only=payload["member"])
        return {"fails": bool(fails), "failures": fails[:3]}
    if "field" in payload:
        which = "m" if "marshaller" in payload.get("symptom", "") else "u"
        return c11_fields.replay_field(payload["field"], which, payload.get("input_spec") or ["valid"], coreprop.suppressed())
    if "env" not in payload or "plain_desc" not in payload:
        return {"fails": False, "note": "replay needs env + plain_desc + wrapped_desc (see module_source for a manual replay)"}
    env = {"module": payload["env"]["module"] + "_replay",
           "defs": {(int(k) if k.isdigit() else k): _tup(v) for k, v in payload["env"]["defs"].items()}}
    roots = [_tup(payload["plain_desc"]), _tup(payload["wrapped_desc"])]
    g = coremodel.Group(env, roots, coreprop.suppressed())
    g.ref_depth = payload.get("ref_depth", 0)
    if roots[1][0] == "ref" and roots[1][2] == "str":
        g.pytys[1] = universe.cname(roots[1][1])
    if payload.get("foreign"):
        c11_modules.attach_importer(g, [1])
    if payload.get("shop"):
        c11_modules.attach_shop(g, [(1, payload["shop"][0], payload["shop"][1])])
    try:
        import re
        src = re.sub(r"<(\w+)\.(\w+): [^>]*>", r"\1.\2", payload["input"])
        ns = dict(g.mod.__dict__)
        exec("from decimal import Decimal\nfrom fractions import Fraction\nfrom uuid import UUID\nimport datetime\n"
             "from pathlib import *\nfrom collections import *", ns)
        try:
            x = eval(src, ns)
        except Exception as e:
            return {"fails": False, "note": f"input cannot be rebuilt from its repr: {e!r}"}
        which = "m" if "marshaller" in payload.get("symptom", "") else "u"
        a, b = g.observe(which, 0, x), g.observe(which, 1, x)
        return {"fails": not same_outcome(a, b), "plain": repr(a)[:300], "wrapped": repr(b)[:300]}
    finally:
        g.close()


def reproduces(entry):
    if str(entry.get("replay", {}).get("kind", "")).startswith("refs-"):
        return refstie.reproduces(entry)
    return replay(entry["replay"])["fails"]


def matches(entry, failure):
    if str(failure.get("kind", "")).startswith("refs-") or str(entry.get("replay", {}).get("kind", "")).startswith("refs-"):
        return str(failure.get("kind", "")).startswith("refs-") and refstie.matches(entry, failure)
    m = entry.get("matches", {})
    return all(str(m[k]) in str(failure.get(k, "")) for k in m)
