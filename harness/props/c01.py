"""C01 -- unmarshalling a marshalled value restores the value (DESIGN 7/C01).

Theorems (Props/C01.v, on the core value model Model/Core.v + Model/CoreC01.v): for every runtime that
satisfies the leaf laws (RoundLaws), every class environment, annotation and value, with no bound on depth
or size: valid + c01_guard + union_unamb + mar = Ok w  ->  unm w = Ok v; the weak fixpoint form for
ambiguous unions; refutation of the literal reading of "unambiguous".

prove       compile Props/C01.v (Print Assumptions closed).
correspond  (a) core correspondence unm/mar vs typelib on (T, valid v) marshal cases and (T, marshal(v) + pool)
                unmarshal cases drawn from generators restricted to C01's universe;
            (b) the hypotheses of the theorem evaluated in Coq on the same (T, v): every generated valid value
                must satisfy `valid`; where valid/guard/unamb all hold the implementation must round-trip
                (theorem instance), where the model says "ambiguous" the oracle's reading must not say
                "violation" unless a listed finding explains it;
            (c) the leaf laws sampled on the implementation's own leaf routines (every drawn (leaf, value)
                plus boundary pools).
search      the statement on the implementation, independent of the model.
"""
from __future__ import annotations

import collections
import dataclasses
import datetime as D
import decimal
import enum
import fractions
import itertools
import json
import os
import pathlib
import random
import re
import typing
import uuid
import warnings

import coregen
import coremodel
import coreprop
import impl
import lib
import dispatchtie
import routasttie
import leaftie
import capstonetie
import universe
from lib import coq_bool, coq_list, coq_nat, coq_pair

COQ_TARGETS = ["theories/Props/C01.vo", "theories/Model/CoreTables.vo"]
COQ_TARGETS = COQ_TARGETS + [t for t in dispatchtie.COQ_TARGETS if t not in COQ_TARGETS]
COQ_TARGETS = COQ_TARGETS + [t for t in leaftie.COQ_TARGETS if t not in COQ_TARGETS]
COQ_TARGETS = COQ_TARGETS + [t for t in capstonetie.COQ_TARGETS if t not in COQ_TARGETS]
COQ_TARGETS = COQ_TARGETS + [t for t in routasttie.COQ_TARGETS if t not in COQ_TARGETS]
THEOREMS = ["C01_roundtrip", "C01_union_fixpoint", "C01_keys_of_leaf_law", "C01_fuel_unm", "C01_fuel_mar",
            "C01_refuted_full", "C01_refuted_union_foreign_marshaller", "C01_refuted_fixpoint_noncanonical"]
UTC = D.timezone.utc
TD = D.timedelta
NoneType = type(None)

# leaves of the core universe that belong to C01's quantifier (no Any / bare containers / bytes)
C01_LEAVES = ["int", "bool", "float", "str", "Decimal", "Fraction", "UUID", "Path", "date", "datetime", "time",
              "timedelta"]
C01_HASHABLE = ["int", "str", "Decimal", "Fraction", "UUID", "date", "bool", "float", "Path", "timedelta"]


# ----------------------------------------------------------------------------------
# findings: read findings.d/C01.json directly (known_findings.json is merged by the lead)
# ----------------------------------------------------------------------------------

def _own_findings():
    p = os.path.join(lib.VERIF, "findings.d", "C01.json")
    return json.load(open(p)).get("open", []) if os.path.exists(p) else []


def _patch_findings(run):
    base = run.findings

    def findings():
        seen = {e["id"] for e in base()}
        return base() + [e for e in _own_findings() if e["id"] not in seen]
    run.findings = findings


def prove(run: lib.Run):
    _patch_findings(run)
    run.check_props("Props/C01.v", THEOREMS)
    run.assumptions += [
        "C01: theorems are about Model/Core.v unm/mar (hand-written mirror of the composite routines, tied by the "
        "core correspondence on every run) for ALL runtimes satisfying RoundLaws: the scalar round trip "
        "leaf_u(leaf_m v) = v for valid leaf values (C04 owns the scalar text laws) and NoneTypeUnmarshaller(None) = None; "
        "C01_keys_of_leaf_law additionally assumes leaf_m_inj (marshalling a leaf is injective up to Python ==); "
        "all three are sampled on the implementation's leaf routines on every run",
        "C01: structural equality of pv is the comparison (runtime class at every position; UTC offsets are part of "
        "the atom identity because the harness identifies atoms by (class, repr)); sets are lists in the harness' "
        "canonical order and the model does not reorder them, the tie compares sets order-insensitively (pv_sim)",
        "C01: mapping keys: c01_guard asks that marshalled keys stay pairwise distinct (true for scalar key types by "
        "leaf_m_inj); non-scalar key types are outside U",
    ]


# ----------------------------------------------------------------------------------
# generation restricted to C01's universe
# ----------------------------------------------------------------------------------

def _restrict(d, rng, env, hashable=False):
    """replace leaves outside C01's universe inside a description"""
    k = d[0]
    if k == "leaf":
        if d[1] in ("Any", "list", "dict", "bytes"):
            return ("leaf", rng.choice(C01_HASHABLE if hashable else C01_LEAVES))
        return d
    if k == "seq":
        return (k, d[1], d[2], _restrict(d[3], rng, env, hashable or d[1] in ("KSet", "KFrozenset")))
    if k == "map":
        return (k, d[1], d[2], _restrict(d[3], rng, env, True), _restrict(d[4], rng, env, hashable))
    if k in ("tuple", "union"):
        ms = []
        for t in d[2]:
            t2 = _restrict(t, rng, env, hashable)
            if k == "union" and t2 in ms:
                continue
            ms.append(t2)
        if k == "union" and len(ms) < 2:
            return ms[0]
        if k == "union" and d[1] == "Optional" and not (len(ms) == 2 and ms[1] == ("none",)):
            return (k, "Union", ms)
        return (k, d[1], ms)
    if k in ("newtype", "alias"):
        return (k, d[1], _restrict(d[2], rng, env, hashable))
    if k in ("final", "classvar"):
        return (k, _restrict(d[1], rng, env, hashable))
    return d


def env_fn(rng, gi):
    env = coregen.gen_env(rng, ncls=rng.randint(1, 4), cyclic=(gi % 3 == 2), depth=2)
    for n, d in list(env["defs"].items()):
        if d[0] == "class":
            fields = []
            for fn, t, default in d[3]:
                t2 = _restrict(t, rng, env)
                if t2 != t and default is not None:
                    default = "None"
                fields.append((fn, t2, default))
            env["defs"][n] = (d[0], d[1], d[2], fields)
        elif d[0] == "alias" and not isinstance(d[1], str):
            env["defs"][n] = ("alias", _restrict(d[1], rng, env))
    return env


def roots_fn(rng, env, classes):
    roots = [("name", n) for n in classes]
    for _ in range(4):
        roots.append(_restrict(coregen.gen_ty(rng, env, 3), rng, env))
    # shapes the statement names explicitly
    leaf = lambda h=False: ("leaf", rng.choice(C01_HASHABLE if h else C01_LEAVES))
    roots.append(("map", "KDict", "dict[{}, {}]", leaf(True), leaf()))
    roots.append(("seq", rng.choice(["KSet", "KFrozenset"]), None, leaf(True)))
    roots[-1] = ("seq", roots[-1][1], universe.SEQ_KINDS[roots[-1][1]][0][0], roots[-1][3])
    roots.append(("tuple", "tuple[{}]", [leaf() for _ in range(rng.randint(1, 4))]))
    roots.append(("union", "Union", [leaf(), ("none",), leaf()]) if rng.random() < 0.5 else
                 ("union", "|", [("none",), leaf()]))
    if roots[-1][0] == "union" and roots[-1][2][0] == roots[-1][2][-1]:
        roots[-1] = ("union", "Optional", [roots[-1][2][0], ("none",)])
    if classes:
        c = ("name", rng.choice(classes))
        shared = ("seq", "KTuple", "tuple[{}, ...]", c)
        roots.append(("tuple", "tuple[{}]", [("seq", "KList", "list[{}]", shared),
                                             ("map", "KDict", "dict[{}, {}]", ("leaf", "str"), shared), shared]))
        roots.append(("final", c))
        roots.append(("newtype", 900, c))
        roots.append(("alias", 901, ("seq", "KList", "list[{}]", ("newtype", 902, c))))
    return roots


# ----------------------------------------------------------------------------------
# the hypotheses of the theorem, evaluated in Coq on the generated (T, v)
# ----------------------------------------------------------------------------------

def leaf_instance(reg, s, obj) -> bool:
    """lv s v: obj is an instance of leaf type s exactly as the generator draws them"""
    t = reg.leaf_py[s]
    name = next(k for k, i in reg.leaves.items() if i == s)
    if name in universe.LEAVES:
        if name in ("Any", "list", "dict"):
            return False
        return type(obj) is t
    d = reg.env["defs"][name]
    if d[0] == "enum":
        return type(obj) is t
    if d[0] == "literal":
        return any(type(obj) is type(a) and obj == a for a in typing.get_args(t))
    return False


def emit_lv(reg) -> str:
    pairs, kpairs = [], []
    for s in sorted(reg.leaf_py):
        for i, o in enumerate(reg.atom_objs):
            try:
                if leaf_instance(reg, s, o):
                    pairs.append(coq_pair(coq_nat(s), coq_nat(i)))
            except Exception:
                pass
        for name, f in reg.fields.items():
            try:
                if leaf_instance(reg, s, name):
                    kpairs.append(coq_pair(coq_nat(s), coq_nat(f)))
            except Exception:
                pass
    return ("(fun (s : nat) (v : pv) => match v with "
            f"PAtom a => existsb (fun p => Nat.eqb s (fst p) && Nat.eqb a (snd p)) {coq_list(pairs, '(nat * nat)')} "
            f"| PKey f => existsb (fun p => Nat.eqb s (fst p) && Nat.eqb f (snd p)) {coq_list(kpairs, '(nat * nat)')} "
            "| _ => false end)")


NORM = ("Fixpoint norm_pv (c : nat -> nat) (v : pv) : pv := match v with PAtom a => PAtom (c a) | PKey f => PKey f\n"
        "  | PSeq k l => PSeq k (map (norm_pv c) l)\n"
        "  | PDict k l => PDict k (map (fun kv => (norm_pv c (fst kv), norm_pv c (snd kv))) l)\n"
        "  | PObj cc l => PObj cc (map (fun fv => (fst fv, norm_pv c (snd fv))) l)\n"
        "  | PNamed cc l => PNamed cc (map (norm_pv c) l) end.\n")


def atom_classes(reg) -> str:
    """atoms the statement does not distinguish (same class, ==, same utcoffset; e.g. tzinfo objects of different
    libraries): each atom is mapped to the first atom of its class"""
    arms = []
    objs = reg.atom_objs
    for i, o in enumerate(objs):
        if not isinstance(o, (D.datetime, D.time)):
            continue
        for j in range(i):
            p = objs[j]
            try:
                if type(p) is type(o) and p == o and p.utcoffset() == o.utcoffset() and getattr(p, "fold", 0) == getattr(o, "fold", 0):
                    arms.append(f"| {i} => {j}")
                    break
            except Exception:
                pass
    return "(fun a : nat => match a with " + " ".join(arms) + " | _ => a end)"


def hypotheses_in_coq(run, groups, records, tag="hyp", per_file=12):
    """-> {id(record): code}, code = valid*4 + guard*2 + unamb, +8 when the model round trip holds,
    +16 fix_ok, +32 when the model's weak fixpoint holds, +64 mar = Ok"""
    files, order = {}, []
    by_group = {}
    for rec in records:
        by_group.setdefault(id(rec.group), []).append(rec)
    for fi in range(0, len(groups), per_file):
        chunk = groups[fi:fi + per_file]
        text = coremodel.HEADER + "Require Import TL.Model.CoreC01.\nFrom Coq Require Import Arith Bool.\n" + NORM
        names = []
        for gi, g in enumerate(chunk):
            nm = f"G{fi + gi}"
            recs = by_group.get(id(g), [])
            base = g.emit(nm)
            inputs = coq_list([coq_pair(g.reg.emit_ty(g.roots[r.ri]), g.reg.enc(r.value)) for r in recs], "(ty * pv)")
            # enc may have registered new atoms: emit lv after the inputs
            extra = (f"Definition lv := {emit_lv(g.reg)}.\n"
                     f"Definition acls := {atom_classes(g.reg)}.\n"
                     f"Definition inputs : list (ty * pv) :=\n  {inputs}.\n"
                     f"Definition code (tv : ty * pv) : nat :=\n"
                     f"  let t := fst tv in let v := snd tv in\n"
                     f"  (if valid rt lv E {coremodel.FUEL} t v then 4 else 0) + (if c01_guard rt E {coremodel.FUEL} t v then 2 else 0)\n"
                     f"  + (if union_unamb rt lv E {coremodel.FUEL} t v then 1 else 0)\n"
                     f"  + match mar rt E {coremodel.FUEL} t v with\n"
                     f"    | Ok w => match unm rt E {coremodel.FUEL} t w with Ok v' => if pv_sim (norm_pv acls v') (norm_pv acls v) then 8 else 0 | _ => 0 end\n"
                     f"    | _ => 0 end\n"
                     f"  + (if fix_ok rt lv E {coremodel.FUEL} t v then 16 else 0)\n"
                     f"  + match mar rt E {coremodel.FUEL} t v with\n"
                     f"    | Ok w => match unm rt E {coremodel.FUEL} t w with\n"
                     f"              | Ok v' => match mar rt E {coremodel.FUEL} t (norm_pv acls v') with Ok w' => if pv_eqb w' w then 32 else 0 | _ => 0 end\n"
                     f"              | _ => 0 end\n"
                     f"    | _ => 0 end\n"
                     f"  + match mar rt E {coremodel.FUEL} t v with Ok _ => 64 | _ => 0 end.\n"
                     f"Definition codes := map code inputs.\n")
            text += base.replace(f"End {nm}.\n", extra + f"End {nm}.\n")
            names.append(nm)
        for nm in names:
            text += f"Eval vm_compute in {nm}.codes.\n"
        fname = f"cases_{tag}_{fi // per_file}.v"
        files[fname] = text
        order.append((fname, chunk))
    results = run.coq_eval_many(files, timeout=900)
    out = {}
    for fname, chunk in order:
        res = results[fname]
        if res is None or len(res) != len(chunk):
            run.oblige(f"evaluate:{fname}", False, "hypothesis evaluation did not compile")
            continue
        for g, r in zip(chunk, res):
            codes = lib.parse_nat_list(r)
            for rec, c in zip(by_group.get(id(g), []), codes):
                out[id(rec)] = c
    return out


# ----------------------------------------------------------------------------------
# specs: the oracle's own view of an annotation (independent of the model and of the mirror)
# ----------------------------------------------------------------------------------
# ("leaf", ann) ("none",) ("seq", ann, origin, a) ("map", ann, origin, k, v) ("tuple", ann, [ts])
# ("union", ann, [ts]) ("class", ann, flavour, {field: spec}) ("wrap", ann, inner) ("lazy", ann, thunk)

class Lazy:
    def __init__(self, fn):
        self.fn, self.val = fn, None

    def get(self):
        if self.val is None:
            self.val = self.fn()
        return self.val


def spec_of_desc(d, env, mod, memo=None):
    memo = {} if memo is None else memo
    ann = eval(universe.src_ty(d, env), mod.__dict__) if d[0] != "none" else NoneType
    k = d[0]
    if k == "leaf":
        return ("leaf", ann)
    if k == "none":
        return ("none",)
    if k == "seq":
        return ("seq", ann, universe.SEQ_PY[d[1]], spec_of_desc(d[3], env, mod, memo))
    if k == "map":
        return ("map", ann, universe.MAP_PY[d[1]], spec_of_desc(d[3], env, mod, memo), spec_of_desc(d[4], env, mod, memo))
    if k == "tuple":
        return ("tuple", ann, [spec_of_desc(t, env, mod, memo) for t in d[2]])
    if k == "union":
        return ("union", ann, [spec_of_desc(t, env, mod, memo) for t in d[2]])
    if k in ("name", "ref", "aliasstr"):
        n = d[1] if k != "aliasstr" else d[2]
        df = env["defs"][n]
        if df[0] == "alias":
            inner = df[2] if isinstance(df[1], str) else df[1]
            return ("lazy", ann, Lazy(lambda: spec_of_desc(inner, env, mod, memo)))
        if n not in memo:
            fields = {}
            memo[n] = ("class", getattr(mod, universe.cname(n)), df[1], fields)
            for fn, ft, _ in df[3]:
                fields[fn] = ("lazy", None, Lazy(lambda ft=ft: spec_of_desc(ft, env, mod, memo)))
        c = memo[n]
        return ("class", ann, c[2], c[3], c[1])
    if k in ("newtype", "alias"):
        return ("wrap", ann, spec_of_desc(d[2], env, mod, memo))
    if k in ("final", "classvar"):
        return ("wrap", ann, spec_of_desc(d[1], env, mod, memo))
    raise ValueError(d)


def ann_of(spec):
    return NoneType if spec[0] == "none" else spec[1]


def force(spec):
    while spec[0] == "lazy":
        spec = spec[2].get()
    return spec


def strip_wrap(spec):
    spec = force(spec)
    while spec[0] == "wrap":
        spec = force(spec[2])
    return spec


def is_literal(ann):
    return typing.get_origin(ann) is typing.Literal


def is_valid(spec, v, depth=0) -> bool:
    """v is a valid instance of the annotation, made of exactly the annotated classes"""
    if depth > 60:
        return True
    spec = strip_wrap(spec)
    k = spec[0]
    if k == "none":
        return v is None
    if k == "leaf":
        ann = spec[1]
        if is_literal(ann):
            return any(type(v) is type(a) and v == a for a in typing.get_args(ann))
        return type(v) is ann
    if k == "seq":
        return type(v) is spec[2] and all(is_valid(spec[3], x, depth + 1) for x in v)
    if k == "map":
        return type(v) is spec[2] and all(is_valid(spec[3], a, depth + 1) and is_valid(spec[4], b, depth + 1)
                                          for a, b in v.items())
    if k == "tuple":
        return type(v) is tuple and len(v) == len(spec[2]) and all(is_valid(t, x, depth + 1) for t, x in zip(spec[2], v))
    if k == "union":
        return any(is_valid(m, v, depth + 1) for m in spec[2])
    if k == "class":
        cls, flavour, fields = spec[4], spec[2], spec[3]
        if flavour == "typeddict":
            return type(v) is dict and all(f in fields and is_valid(fields[f], x, depth + 1) for f, x in v.items())
        if type(v) is not cls:
            return False
        return all(hasattr(v, f) and is_valid(ft, getattr(v, f), depth + 1) for f, ft in fields.items())
    raise ValueError(spec)


_CLEAR = [True]      # False inside history checks: consecutive calls share typelib's caches, as in a real process


def call(fn, *a, **kw):
    if _CLEAR[0]:
        impl.clear_caches()
    try:
        with warnings.catch_warnings():
            warnings.simplefilter("ignore")
            return ("ok", fn(*a, **kw))
    except RecursionError:
        return ("raise", "RecursionError")
    except Exception as e:
        return ("raise", type(e).__name__ + ": " + str(e)[:120])


def t_marshal(ann, v):
    import typelib
    return call(typelib.marshal, v, t=ann)


def t_unmarshal(ann, x):
    import typelib
    return call(typelib.unmarshal, ann, x)


def union_positions(spec, v, out, depth=0):
    """every (union spec, value at that position) reachable along the valid structure of v"""
    if depth > 40:
        return
    spec = strip_wrap(spec)
    k = spec[0]
    if k == "seq" and isinstance(v, (list, tuple, set, frozenset, collections.deque)):
        for x in v:
            union_positions(spec[3], x, out, depth + 1)
    elif k == "map" and isinstance(v, dict):
        for a, b in v.items():
            union_positions(spec[3], a, out, depth + 1)
            union_positions(spec[4], b, out, depth + 1)
    elif k == "tuple" and isinstance(v, tuple):
        for t, x in zip(spec[2], v):
            union_positions(t, x, out, depth + 1)
    elif k == "union":
        out.append((spec, v))
        own = [m for m in spec[2] if is_valid(m, v)]
        if own:
            union_positions(own[0], v, out, depth + 1)
    elif k == "class":
        fields = spec[3]
        if spec[2] == "typeddict":
            if isinstance(v, dict):
                for f, x in v.items():
                    if f in fields:
                        union_positions(fields[f], x, out, depth + 1)
        else:
            for f, ft in fields.items():
                if hasattr(v, f):
                    union_positions(ft, getattr(v, f), out, depth + 1)


def unmarshal_order(members):
    nones = [m for m in members if strip_wrap(m)[0] == "none"]
    if nones:
        return nones + [m for m in members if strip_wrap(m)[0] != "none"]
    return list(members)


def diagnose_union(uspec, u):
    """-> dict(ambiguous=..., foreign=..., noncanon=...) for one union position, decided on the implementation
    exactly as the statement words it: an earlier member's unmarshaller accepts the wire form a later
    member (one the value is a valid instance of) produces for this value."""
    members = uspec[2]
    optional = any(strip_wrap(m)[0] == "none" for m in members)
    res = {"ambiguous": False, "foreign": False, "noncanon": False, "none_accepts": False, "detail": ""}
    if optional and u is None:
        return res
    own = [m for m in members if is_valid(m, u)]
    order = unmarshal_order(members)
    for m in own:
        w = t_marshal(ann_of(m), u)
        if w[0] != "ok":
            continue
        for e in order:
            if e is m:
                break
            r = t_unmarshal(ann_of(e), w[1])
            if r[0] == "ok" and strip_wrap(e)[0] == "none" and w[1] is not None:
                # the None member must accept None only (C08); never part of the ambiguity clause or of a listed finding
                res["none_accepts"] = True
                res["detail"] += f"; the NoneType member accepts {w[1]!r}"
                continue
            if r[0] == "ok":
                res["ambiguous"] = True
                res["detail"] = f"member {ann_of(e)!r} accepts the wire form {w[1]!r} written by member {ann_of(m)!r}"
                back = t_marshal(ann_of(e), r[1])
                if not (back[0] == "ok" and type(back[1]) is type(w[1]) and back[1] == w[1]):
                    res["noncanon"] = True
                    res["detail"] += f"; and re-marshals it as {back[1]!r}"
    # which member's marshaller answers first (declared order)?
    for e in members:
        r = t_marshal(ann_of(e), u)
        if r[0] == "ok":
            if not any(e is m for m in own):
                res["foreign"] = True
                res["detail"] += f"; marshaller of member {ann_of(e)!r} answers first for {u!r} (wire {r[1]!r})"
            break
    return res


def check_value(ann, spec, v, stats, ctx):
    """the statement on one (T, v); returns a failure dict or None"""
    if not is_valid(spec, v):
        stats["skipped_not_a_valid_instance"] += 1
        return None
    stats["evaluations"] += 1
    m = t_marshal(ann, v)
    if m[0] != "ok":
        return _fail("marshal-raises", ann, v, m[1], "a wire form", ctx)
    r = t_unmarshal(ann, m[1])
    if r[0] == "ok" and coreprop.same(r[1], v) and same_temporal_deep(r[1], v):
        stats["roundtrip_ok"] += 1
        return None
    # not restored: is some union on the way ambiguous (statement sense)?
    pos = []
    union_positions(spec, v, pos)
    diags = [diagnose_union(us, u) for us, u in pos[:12]]
    ambiguous = any(d["ambiguous"] for d in diags)
    foreign = any(d["foreign"] for d in diags)
    noncanon = any(d["noncanon"] for d in diags)
    if any(d["none_accepts"] for d in diags):
        return _fail("none-member-accepts-non-none", ann, v, repr(r[1])[:300] if r[0] == "ok" else r[1], repr(v), ctx,
                     wire=m[1], detail="; ".join(d["detail"] for d in diags if d["detail"])[:600], unions=len(pos))
    detail = "; ".join(d["detail"] for d in diags if d["detail"])[:600]
    if foreign and not (r[0] == "ok" and ambiguous):
        # root cause: the member whose marshaller answers first is not a member the value is an instance of
        return _fail("union-foreign-marshaller", ann, v, repr(r[1])[:300] if r[0] == "ok" else r[1], repr(v), ctx,
                     wire=m[1], detail=detail, unions=len(pos), ambiguous=ambiguous)
    if r[0] != "ok":
        cls = "ambiguous-unmarshal-raises" if ambiguous else "unmarshal-raises"
        return _fail(cls, ann, v, r[1], repr(v), ctx, wire=m[1], detail=detail, unions=len(pos))
    if not ambiguous:
        return _fail("roundtrip", ann, v, repr(r[1]), repr(v), ctx, wire=m[1], detail=detail, unions=len(pos))
    stats["ambiguous"] += 1
    m2 = t_marshal(ann, r[1])
    if m2[0] == "ok" and m2[1] == m[1]:          # the statement says `==` (1 == 1.0 == True)
        stats["fixpoint_ok"] += 1
        return None
    cls = ("union-foreign-marshaller" if foreign else
           "fixpoint-noncanonical-member-text" if noncanon else "fixpoint")
    return _fail(cls, ann, v, repr(m2[1]) if m2[0] == "ok" else m2[1], repr(m[1]), ctx, wire=m[1], detail=detail,
                 unions=len(pos), unmarshalled=repr(r[1])[:300], ambiguous=True)


def wire_equal(a, b) -> bool:
    if type(a) is not type(b):
        return False
    if isinstance(a, dict):
        return list(a.keys()) == list(b.keys()) and all(wire_equal(a[k], b[k]) for k in a)
    if isinstance(a, list):
        return len(a) == len(b) and all(wire_equal(x, y) for x, y in zip(a, b))
    return a == b


def same_temporal_deep(a, b) -> bool:
    """coreprop.same compares dataclass fields etc.; this adds fold/utcoffset on bare temporals in tuples/lists"""
    if isinstance(a, (D.datetime, D.time)) and type(a) is type(b):
        return a.utcoffset() == b.utcoffset() and a == b
    return True


def value_expr(v) -> str:
    """a Python expression that rebuilds v (in the namespace of eval_case / of the generated module)"""
    if isinstance(v, enum.Enum):
        return f"{type(v).__name__}.{v.name}"
    t = type(v)
    if t is list:
        return "[" + ", ".join(value_expr(x) for x in v) + "]"
    if t is tuple:
        return "(" + "".join(value_expr(x) + ", " for x in v) + ")"
    if isinstance(v, tuple) and hasattr(v, "_fields"):
        return f"{t.__name__}(" + ", ".join(value_expr(x) for x in v) + ")"
    if t is set:
        return "{" + ", ".join(value_expr(x) for x in v) + "}" if v else "set()"
    if t is frozenset:
        return "frozenset([" + ", ".join(value_expr(x) for x in v) + "])"
    if t is collections.deque:
        return "collections.deque([" + ", ".join(value_expr(x) for x in v) + "])"
    if t is dict:
        return "{" + ", ".join(f"{value_expr(a)}: {value_expr(b)}" for a, b in v.items()) + "}"
    if t is collections.OrderedDict:
        return "collections.OrderedDict([" + ", ".join(f"({value_expr(a)}, {value_expr(b)})" for a, b in v.items()) + "])"
    if t is collections.defaultdict:
        return "collections.defaultdict(None, {" + ", ".join(f"{value_expr(a)}: {value_expr(b)}" for a, b in v.items()) + "})"
    if dataclasses.is_dataclass(v):
        return f"{t.__name__}(" + ", ".join(f"{f.name}={value_expr(getattr(v, f.name))}" for f in dataclasses.fields(v)) + ")"
    if t.__module__.startswith("verif_"):
        names = list(getattr(t, "__slots__", ())) or list(vars(v))
        return f"{t.__name__}(" + ", ".join(f"{n}={value_expr(getattr(v, n))}" for n in names if hasattr(v, n)) + ")"
    if t in (decimal.Decimal, fractions.Fraction, uuid.UUID):
        return {decimal.Decimal: "decimal.", fractions.Fraction: "fractions.", uuid.UUID: "uuid."}[t] + repr(v)
    if isinstance(v, pathlib.PurePath):
        return "pathlib." + repr(v)
    return repr(v)


def ann_expr(ann) -> str:
    s = repr(ann)
    s = re.sub(r"<(?:class|enum) '([\w.]+)'>", r"\1", s)
    for pre in ("props.c01.", "verif_c01_adv."):
        s = s.replace(pre, "")
    s = re.sub(r"verif_core_\w+?_\d+\.", "", s)
    return s.replace("NoneType", "type(None)")


def make_replay(ann, v):
    try:
        c = {"type": ann_expr(ann), "value": value_expr(v)}
        a2, _, v2 = eval_case(c)
        if repr(a2) == repr(ann) and coreprop.same(v2, v):
            return c
    except Exception:
        pass
    return None


def _fail(cls, ann, v, got, expected, ctx, **kw):
    f = {"class": cls, "type": repr(ann)[:300], "value": repr(v)[:400], "got": str(got)[:400],
         "expected": str(expected)[:400], "key": json.dumps(["C01", cls, repr(ann)[:200], repr(v)[:200]])}
    f.update(kw)
    f.update(ctx)
    if "tdesc" in f:
        f["value"] = value_expr(v)[:4000]
    elif "replay" not in f:
        rp = make_replay(ann, v)
        if rp is not None:
            f["replay"] = rp
        else:
            f["replay_note"] = "annotation uses objects created at run time (NewType / alias): re-run the check with the same seed"
    return f


# ----------------------------------------------------------------------------------
# adversarial pools (Python level, beyond the core universe's leaves)
# ----------------------------------------------------------------------------------

class EInt(enum.Enum):
    one = 1
    two = 2


class EStr(enum.Enum):
    one = "one"
    num = "1"
    nul = "null"
    lst = "[1]"


class ESMix(str, enum.Enum):
    a = "a"
    five = "5"
    js = "[1]"


class EIntEnum(enum.IntEnum):
    x = 7
    y = -3


class EColl(enum.Enum):
    """members whose values collide once a text value is read as JSON / a Python literal: the value 1 and the text "1" ...
    (the unmarshaller must look the raw value up before the loaded one: seeded change C01-r3m1 reversed that order)"""
    one = 1
    text_one = "1"
    half = 1.5
    text_half = "1.5"
    nul = "null"
    lst = "[1]"
    text_true = "true"


class ECross(enum.Enum):
    """members whose VALUE is text that spells the NAME of another member (or of an Enum attribute): a by-name lookup
    tried before the by-value lookup answers another member (seeded change C01-r6m1)"""
    NORTH = "SOUTH"
    SOUTH = "NORTH"
    A = "B"
    B = "C"
    C = "name"
    own = "own"
    value = "NORTH "


def gen_td(rng):
    days = rng.choice([0, 0, 1, 6, 7, 8, 14, 21, 365, 999999999, -1, -7, -8, -999999999, rng.randint(-1000, 1000),
                       7 * rng.randint(-10 ** 8, 10 ** 8)])
    secs = rng.choice([0, 0, 1, 59, 60, 61, 3599, 3600, 3661, 86399, rng.randint(0, 86399)])
    us = rng.choice([0, 0, 1, 10, 999999, 500000, 999990, rng.randint(0, 999999)])
    return TD(days=days, seconds=secs, microseconds=us)


def gen_off(rng):
    return D.timezone(TD(minutes=rng.choice([0, 0, 330, -330, 60, -60, 1439, -1439, 845, rng.randint(-1439, 1439)])))


def gen_date(rng):
    return rng.choice([D.date.min, D.date.max, D.date(1970, 1, 1), D.date(1969, 12, 31), D.date(2024, 2, 29),
                       D.date.fromordinal(rng.randint(1, D.date.max.toordinal()))])


def gen_time(rng):
    return D.time(rng.choice([0, 23, rng.randint(0, 23)]), rng.choice([0, 59, rng.randint(0, 59)]),
                  rng.choice([0, 59, rng.randint(0, 59)]), rng.choice([0, 0, 1, 999999, 500000, rng.randint(0, 999999)]),
                  tzinfo=gen_off(rng), fold=rng.choice([0, 0, 1]))


def gen_datetime(rng):
    d, t = gen_date(rng), gen_time(rng)
    if d.year in (1, 9999):
        d = d.replace(year=rng.randint(2, 9998))
    return D.datetime.combine(d, t)


STR_POOL = ["", "a", "ab", "null", "None", "true", "True", "1", "1.5", "1e5", "[1]", '{"a": 1}', "(1, 2)", '"q"',
            "2020-01-01", "2020-01-01T00:00:00", "12:30:00+00:00", "P1D", "PT", "-P1D", "h\u00e9llo", "x y", " 5",
            "12345678123456781234567812345678", "a/b", "\x00", "nan", "0x10", "1_000"]

SCALARS = {
    int: lambda rng: rng.choice([0, 1, -1, 7, 10, 2 ** 63, -2 ** 64, 10 ** 30, rng.randint(-10 ** 6, 10 ** 6)]),
    bool: lambda rng: rng.choice([True, False]),
    float: lambda rng: rng.choice([0.0, -0.0, 1.0, 0.1, -2.5, 1e22, 1e-7, 5e-324, 1.7976931348623157e308, 1 / 3,
                                   1e300, rng.uniform(-1e6, 1e6)]),
    str: lambda rng: rng.choice(STR_POOL),
    decimal.Decimal: lambda rng: rng.choice([decimal.Decimal("0"), decimal.Decimal("-0"), decimal.Decimal("1.0"),
                                             decimal.Decimal("1.00"), decimal.Decimal("1E+30"), decimal.Decimal("-1.5E-400"),
                                             decimal.Decimal(rng.randint(-10 ** 12, 10 ** 12)).scaleb(rng.randint(-50, 50))]),
    fractions.Fraction: lambda rng: rng.choice([fractions.Fraction(0), fractions.Fraction(1, 2), fractions.Fraction(-7, 3),
                                                fractions.Fraction(rng.randint(-10 ** 9, 10 ** 9), rng.randint(1, 10 ** 9))]),
    uuid.UUID: lambda rng: rng.choice([uuid.UUID(int=0), uuid.UUID(int=2 ** 128 - 1), uuid.UUID(int=rng.getrandbits(128)),
                                       uuid.UUID("00000000-0000-0000-0000-000000001e10")]),
    pathlib.PurePosixPath: lambda rng: pathlib.PurePosixPath(rng.choice(
        ["/my/path", "rel/a.txt", ".", "/", "1", "1.5", "null", "true", "[1]", '"q"', "None", "(1, 2)", "a b", "{}"])),
    pathlib.PureWindowsPath: lambda rng: pathlib.PureWindowsPath(rng.choice(["C:/x/y", "rel\\a.txt", "1", "[1]", "null"])),
    pathlib.Path: lambda rng: pathlib.Path(rng.choice(["/my/path", "rel/a.txt", "1", "null", "[1]"])),
    re.Pattern: lambda rng: re.compile(rng.choice(["", "a+", "[1]", "1", "null", r"\d{2}-\w+", "(?P<x>a)|b", "{}"])),
    D.date: gen_date, D.datetime: gen_datetime, D.time: gen_time, D.timedelta: gen_td,
    EInt: lambda rng: rng.choice(list(EInt)), EStr: lambda rng: rng.choice(list(EStr)),
    ESMix: lambda rng: rng.choice(list(ESMix)), EIntEnum: lambda rng: rng.choice(list(EIntEnum)),
    EColl: lambda rng: rng.choice(list(EColl)),
    ECross: lambda rng: rng.choice(list(ECross)),
}
LIT1 = typing.Literal[1, "a", "b"]
LIT2 = typing.Literal["1", "null", None, True]
LITS = {LIT1: [1, "a", "b"], LIT2: ["1", "null", None, True]}
HASHABLE_SCALARS = [int, bool, float, str, decimal.Decimal, fractions.Fraction, uuid.UUID, pathlib.PurePosixPath, D.date,
                    D.datetime, D.timedelta, EInt, EStr, ESMix, EIntEnum, EColl, ECross]

ADV_SRC = '''
import typing, collections, dataclasses, datetime, decimal, enum, fractions, pathlib, uuid
from typelib.py.compat import TypeAliasType

@dataclasses.dataclass
class Plain:
    a: int
    b: str = "x"
    c: typing.Optional[decimal.Decimal] = None

@dataclasses.dataclass(slots=True)
class Slots:
    a: datetime.date
    b: tuple[int, str]

@dataclasses.dataclass(kw_only=True)
class KwOnly:
    a: float
    b: list[str] = dataclasses.field(default_factory=list)

@dataclasses.dataclass(frozen=True)
class Frozen:
    a: int
    b: frozenset[int] = frozenset()

class NT(typing.NamedTuple):
    first: tuple[int, int]
    second: str = "s"

class NT2(typing.NamedTuple):
    first: str
    second: int

class TDTotal(typing.TypedDict):
    a: int
    b: list[datetime.timedelta]

class TDPartial(typing.TypedDict, total=False):
    a: int
    b: str

class TDNotReq(typing.TypedDict):
    a: int
    b: typing.NotRequired[uuid.UUID]

class Annotated_:
    a: int
    b: dict[str, float]
    def __init__(self, a: int, b: dict[str, float]):
        self.a, self.b = a, b
    def __eq__(self, o):
        return type(o) is type(self) and vars(o) == vars(self)
    __hash__ = None
    def __repr__(self):
        return f"Annotated_({self.a!r}, {self.b!r})"

class Slotted_:
    __slots__ = ("a", "b")
    a: str
    b: typing.Optional[int]
    def __init__(self, a: str, b: typing.Optional[int] = None):
        self.a, self.b = a, b
    def __eq__(self, o):
        return type(o) is type(self) and (o.a, o.b) == (self.a, self.b)
    __hash__ = None
    def __repr__(self):
        return f"Slotted_({self.a!r}, {self.b!r})"

@dataclasses.dataclass
class Defaults:
    name: str
    retries: typing.Optional[int] = 3
    ratio: typing.Optional[float] = 0.5
    tags: typing.Optional[list[str]] = dataclasses.field(default_factory=lambda: ["t"])
    flag: typing.Optional[bool] = True

@dataclasses.dataclass(slots=True, frozen=True)
class DefaultsSF:
    name: str = "n"
    when: typing.Optional[datetime.date] = datetime.date(2020, 1, 2)
    amount: "decimal.Decimal | None" = decimal.Decimal("1.50")

class NTDefaults(typing.NamedTuple):
    a: int
    b: typing.Optional[str] = "s"
    c: typing.Optional[tuple[int, int]] = (1, 2)

class PlainDefaults:
    a: int
    b: typing.Optional[int]
    c: typing.Optional[str]
    def __init__(self, a: int, b: typing.Optional[int] = 7, c: typing.Optional[str] = "c"):
        self.a, self.b, self.c = a, b, c
    def __eq__(self, o):
        return type(o) is type(self) and vars(o) == vars(self)
    __hash__ = None
    def __repr__(self):
        return f"PlainDefaults({self.a!r}, {self.b!r}, {self.c!r})"

@dataclasses.dataclass
class Node:
    val: int
    kids: list["Node"] = dataclasses.field(default_factory=list)
    nxt: typing.Optional["Node"] = None

@dataclasses.dataclass
class Ping:
    n: int
    pong: "typing.Optional[Pong]" = None

@dataclasses.dataclass
class Pong:
    s: str
    ping: typing.Optional[Ping] = None
    many: dict[str, Ping] = dataclasses.field(default_factory=dict)

@dataclasses.dataclass
class Comment:
    author: str
    text: typing.Optional[str] = None
    attachment: typing.Optional[pathlib.PurePosixPath] = None

@dataclasses.dataclass(frozen=True)
class Shift:
    name: str
    starts: datetime.time
    ends: datetime.time

class ShiftNT(typing.NamedTuple):
    starts: datetime.time
    ends: datetime.time
    handover: typing.Optional[datetime.time] = None

Tree = TypeAliasType("Tree", "dict[str, Tree] | int")
UserId = typing.NewType("UserId", int)
Name = typing.NewType("Name", str)
Ids = TypeAliasType("Ids", list[UserId])

@dataclasses.dataclass
class Diamond:
    left: tuple[Plain, ...]
    right: list[tuple[Plain, ...]]
    both: dict[str, tuple[Plain, ...]]
    fin: typing.Final[Ids] = dataclasses.field(default_factory=list)
'''


class EKw(enum.Enum):
    null = "null"
    none = "None"
    true = "true"
    one = "1"
    lst = "[]"


KEYWORD_TEXT = ["null", "None", "true", "True", "false", "1", "1.5", "[]", "{}", '""', "nan", "(1, 2)"]
LITKW = typing.Literal["null", "None", "true", "1", "[]"]


def _patterns():
    out = []
    for t in KEYWORD_TEXT:
        try:
            out.append(re.compile(t))
        except re.error:
            pass
    return out


def keyword_text_cases():
    """every str-wired leaf under Optional / Union-with-None, at the root and at every kind of member position,
    with values whose wire text spells a JSON / Python keyword, number or empty container"""
    m = adv_module()
    L = leaf_spec
    leaves = [
        (L(str), list(KEYWORD_TEXT)),
        (L(pathlib.PurePosixPath), [pathlib.PurePosixPath(t) for t in KEYWORD_TEXT]),
        (L(pathlib.PureWindowsPath), [pathlib.PureWindowsPath(t) for t in KEYWORD_TEXT[:6]]),
        (L(pathlib.Path), [pathlib.Path(t) for t in KEYWORD_TEXT[:6]]),
        (L(re.Pattern), _patterns()),
        (L(LITKW), list(typing.get_args(LITKW))),
        (L(EKw), list(EKw)),
        (L(EStr), list(EStr)),
        (L(ESMix), list(ESMix)),
        (L(EColl), list(EColl)),
        (L(ECross), list(ECross)),
    ]
    out = []
    for leaf, values in leaves:
        a = ann_of(leaf)
        unions = [("union", typing.Optional[a], [leaf, ("none",)]),
                  ("union", typing.Union[None, a], [("none",), leaf])]
        try:
            unions.append(("union", a | None, [leaf, ("none",)]))
        except TypeError:
            pass
        for u in unions:
            ua = ann_of(u)
            for v in values:
                out.append((u, v))
            vs = list(values)
            out.append((("seq", list[ua], list, u), [vs[0], None] + vs[1:]))
            out.append((("map", dict[str, ua], dict, L(str), u), {f"k{i}": x for i, x in enumerate(vs + [None])}))
            out.append((("tuple", tuple[ua, int], [u, L(int)]), (vs[1 % len(vs)], 1)))
    text_f = ("union", typing.Optional[str], [L(str), ("none",)])
    att_f = ("union", typing.Optional[pathlib.PurePosixPath], [L(pathlib.PurePosixPath), ("none",)])
    comment = ("class", m.Comment, "dataclass", {"author": L(str), "text": text_f, "attachment": att_f}, m.Comment)
    for t in KEYWORD_TEXT:
        out.append((comment, m.Comment("bot", t, pathlib.PurePosixPath(t))))
        out.append((comment, m.Comment(t, None, None)))
    return [(ann_of(s), s, v) for s, v in out]


def _tz(minutes):
    return D.timezone(TD(minutes=minutes))


def same_instant_cases():
    """aware times / datetimes that compare (and hash) equal but carry different UTC offsets, in one value"""
    m = adv_module()
    L = leaf_spec
    groups = [
        [D.time(12, 0, tzinfo=UTC), D.time(14, 0, tzinfo=_tz(120)), D.time(7, 0, tzinfo=_tz(-300)),
         D.time(17, 30, tzinfo=_tz(330))],
        [D.time(14, 0, tzinfo=_tz(120)), D.time(12, 0, tzinfo=UTC)],
        [D.time(1, 2, 3, 4, tzinfo=_tz(60)), D.time(0, 2, 3, 4, tzinfo=UTC), D.time(3, 47, 3, 4, tzinfo=_tz(165))],
    ]
    dgroups = [
        [D.datetime(2020, 1, 2, 12, 0, tzinfo=UTC), D.datetime(2020, 1, 2, 14, 0, tzinfo=_tz(120)),
         D.datetime(2020, 1, 2, 7, 0, tzinfo=_tz(-300)), D.datetime(2020, 1, 3, 1, 0, tzinfo=_tz(780))],
        [D.datetime(1999, 12, 31, 23, 59, 59, 5, tzinfo=_tz(330)), D.datetime(1999, 12, 31, 18, 29, 59, 5, tzinfo=UTC)],
    ]
    out = []
    for leaf_t, gs in ((D.time, groups), (D.datetime, dgroups)):
        leaf = L(leaf_t)
        opt = ("union", typing.Optional[leaf_t], [leaf, ("none",)])
        for g in gs:
            out.append((("seq", list[leaf_t], list, leaf), list(g)))
            out.append((("seq", tuple[leaf_t, ...], tuple, leaf), tuple(reversed(g))))
            out.append((("seq", collections.deque[leaf_t], collections.deque, leaf), collections.deque(g)))
            out.append((("tuple", tuple[leaf_t, leaf_t], [leaf, leaf]), (g[0], g[1])))
            out.append((("map", dict[str, leaf_t], dict, L(str), leaf), {f"k{i}": x for i, x in enumerate(g)}))
            out.append((("seq", list[typing.Optional[leaf_t]], list, opt), [g[1], None, g[0]]))
    shift = ("class", m.Shift, "dataclass", {"name": L(str), "starts": L(D.time), "ends": L(D.time)}, m.Shift)
    snt = ("class", m.ShiftNT, "namedtuple",
           {"starts": L(D.time), "ends": L(D.time),
            "handover": ("union", typing.Optional[D.time], [L(D.time), ("none",)])}, m.ShiftNT)
    for g in groups:
        out.append((shift, m.Shift("s", g[0], g[1])))
        out.append((shift, m.Shift("s", g[1], g[0])))
        out.append((snt, m.ShiftNT(g[0], g[1], g[-1])))
        out.append((("seq", list[m.Shift], list, shift), [m.Shift("a", g[0], g[0]), m.Shift("b", g[1], g[1])]))
    singles = [(L(D.time), x) for g in groups for x in g] + [(L(D.datetime), x) for g in dgroups for x in g]
    singles += [(L(D.time), x) for g in groups for x in reversed(g)]
    return [(ann_of(s), s, v) for s, v in out], [(ann_of(s), s, v) for s, v in singles]


def typeddict_shape_cases(rng, full: bool):
    """Valid values that OMIT non-required members.  TypedDict shapes of harness/c03_typeddicts.py (per-key Required /
    NotRequired, total=True/False, inheritance; real / __future__ / quoted annotations; typing / typing_extensions
    qualifiers), every subset of the optional keys present or absent, at the root and nested in list / dict / Optional /
    fixed tuple / dataclass (default omitted) / TypedDict / NamedTuple holders.  Which keys are required is read off
    the shape description here, not from the class objects.  Yields (module name, ann, spec, value, replay)."""
    import c03_typeddicts as T
    sample = {"int": [1, 0], "str": ["s", "null"], "float": [1.5, -0.0]}
    n = 0
    for shape in T.SHAPES:
        by = {nm: (base, total, fs) for nm, base, total, fs in T.SHAPES[shape]}

        def keys_of(nm):
            base, total, fs = by[nm]
            inherited = keys_of(base) if base else []
            tot = True if total is None else total
            return inherited + [(k, t, (q == "Required") or (q is None and tot)) for k, q, t in fs]
        for style in T.STYLES:
            for qual in T.QUALS:
                for name in by:
                    n += 1
                    src = T.module_source(shape, style, qual, name)
                    modname = f"verif_c01_td_{n}"
                    mod = impl.new_module(modname, src)
                    try:
                        keys = keys_of(name)
                        optional = [k for k, _, r in keys if not r]
                        subsets = [[]]
                        for k in optional:
                            subsets += [x + [k] for x in subsets]
                        full_v = lambda i=0: {k: sample[t][i] for k, t, _ in keys}
                        for present in subsets:
                            v = {k: x for k, x in full_v(rng.randrange(2)).items()
                                 if k in present or k not in optional}
                            vfull = full_v()
                            places = [
                                (name, v),
                                (f"list[{name}]", [vfull, v]),
                                (f"dict[str, {name}]", {"k": v}),
                                (f"typing.Optional[{name}]", v),
                                (f"tuple[{name}, int]", (v, 3)),
                                ("HolderDC", ("HolderDC", {"t": v})),
                                ("HolderTD", {"inner": v, "many": [vfull, v]}),
                                ("HolderNT", ("HolderNT", {"t": v})),
                            ]
                            if not full:
                                places = places[:1] + rng.sample(places[1:], 3)
                            for ann_src, val in places:
                                ann = eval(ann_src, mod.__dict__)
                                if isinstance(val, tuple) and len(val) == 2 and isinstance(val[0], str) and val[0].startswith("Holder"):
                                    val = getattr(mod, val[0])(**val[1])
                                spec = spec_of_ann(ann)
                                yield (modname, ann, spec, val,
                                       {"module_source": src, "type": ann_src, "value": value_expr(val)})
                    finally:
                        impl.drop_module(modname)


def adv_module():
    name = "verif_c01_adv"
    import sys
    if name in sys.modules:
        return sys.modules[name]
    return impl.new_module(name, ADV_SRC)


def leaf_spec(t):
    return ("leaf", t)


def gen_scalar_spec(rng, hashable=False):
    if not hashable and rng.random() < 0.12:
        return leaf_spec(rng.choice([LIT1, LIT2]))
    pool = HASHABLE_SCALARS if hashable else list(SCALARS)
    return leaf_spec(rng.choice(pool))


def gen_spec(rng, depth, hashable=False, allow_union=True):
    """random annotation spec built directly from Python objects"""
    if depth <= 0 or rng.random() < 0.3:
        return gen_scalar_spec(rng, hashable)
    r = rng.random()
    sub = lambda h=False, u=True: gen_spec(rng, depth - 1, h, u)
    if hashable:
        if r < 0.4:
            a = sub(True)
            return ("seq", tuple[ann_of(a), ...], tuple, a)
        if r < 0.7:
            a = sub(True)
            return ("seq", frozenset[ann_of(a)], frozenset, a)
        ts = [sub(True) for _ in range(rng.randint(1, 3))]
        return ("tuple", tuple[tuple(ann_of(t) for t in ts)], ts)
    if r < 0.3:
        origin, mk = rng.choice([(list, lambda a: list[a]), (list, lambda a: typing.List[a]),
                                 (list, lambda a: typing.Sequence[a]), (list, lambda a: collections.abc.Collection[a]),
                                 (list, lambda a: typing.Iterable[a]), (list, lambda a: typing.MutableSequence[a]),
                                 (tuple, lambda a: tuple[a, ...]), (tuple, lambda a: typing.Tuple[a, ...]),
                                 (set, lambda a: set[a]), (set, lambda a: typing.AbstractSet[a]),
                                 (set, lambda a: typing.MutableSet[a]),
                                 (frozenset, lambda a: frozenset[a]), (frozenset, lambda a: typing.FrozenSet[a]),
                                 (collections.deque, lambda a: collections.deque[a]),
                                 (collections.deque, lambda a: typing.Deque[a])])
        a = sub(origin in (set, frozenset))
        return ("seq", mk(ann_of(a)), origin, a)
    if r < 0.5:
        origin, mk = rng.choice([(dict, lambda k, v: dict[k, v]), (dict, lambda k, v: typing.Dict[k, v]),
                                 (dict, lambda k, v: typing.Mapping[k, v]), (dict, lambda k, v: typing.MutableMapping[k, v]),
                                 (dict, lambda k, v: collections.abc.Mapping[k, v]),
                                 (collections.OrderedDict, lambda k, v: collections.OrderedDict[k, v]),
                                 (collections.OrderedDict, lambda k, v: typing.OrderedDict[k, v])])
        k = leaf_spec(str) if rng.random() < 0.5 else gen_scalar_spec(rng, True)
        v = sub()
        return ("map", mk(ann_of(k), ann_of(v)), origin, k, v)
    if r < 0.65:
        ts = [sub() for _ in range(rng.randint(1, 5))]
        return ("tuple", tuple[tuple(ann_of(t) for t in ts)], ts)
    if r < 0.85 and allow_union:
        n = rng.randint(1, 3)
        ms = []
        for _ in range(n):
            m = sub(False, False)
            if all(ann_of(m) != ann_of(x) for x in ms):
                ms.append(m)
        if rng.random() < 0.6 or len(ms) < 2:
            ms.insert(rng.randint(0, len(ms)), ("none",))
        anns = tuple(ann_of(m) for m in ms)
        try:
            ann = typing.Union[anns]
        except TypeError:
            return ms[0]
        # typing may reorder nothing but it dedups / flattens: rebuild the member list from the real args
        args = typing.get_args(ann)
        if len(args) != len(ms):
            return ms[0] if ms[0][0] != "none" else gen_scalar_spec(rng)
        return ("union", ann, ms)
    if r < 0.93:
        inner = sub()
        w = rng.choice(["newtype", "alias"])
        i = next(_WID)
        from typelib.py import compat
        if w == "newtype":
            ann = typing.NewType(f"NTc01_{i}", ann_of(inner))
            ann.__module__ = "verif_c01_adv"
        else:
            ann = compat.TypeAliasType(f"ALc01_{i}", ann_of(inner))
        return ("wrap", ann, inner)
    return gen_scalar_spec(rng, hashable)


_WID = itertools.count()


def gen_spec_value(rng, spec, depth=3, size=3):
    spec = force(spec)
    k = spec[0]
    if k == "none":
        return None
    if k == "leaf":
        ann = spec[1]
        if ann in LITS:
            return rng.choice(LITS[ann])
        return SCALARS[ann](rng)
    if k == "wrap":
        return gen_spec_value(rng, spec[2], depth, size)
    if k == "seq":
        n = rng.choice([0, 1, 2, size, size, 12 if rng.random() < 0.1 else 2]) if depth > 0 else 0
        vals = [gen_spec_value(rng, spec[3], depth - 1, size) for _ in range(n)]
        if spec[2] in (set, frozenset):
            vals = coregen._dedupe_eq(vals)
        return spec[2](vals)
    if k == "map":
        n = rng.randint(0, size) if depth > 0 else 0
        pairs = []
        for _ in range(n):
            kk = gen_spec_value(rng, spec[3], depth - 1, size)
            if any(kk == p[0] for p in pairs):
                continue
            pairs.append((kk, gen_spec_value(rng, spec[4], depth - 1, size)))
        return spec[2](pairs)
    if k == "tuple":
        return tuple(gen_spec_value(rng, t, depth - 1, size) for t in spec[2])
    if k == "union":
        return gen_spec_value(rng, rng.choice(spec[2]), depth - 1, size)
    raise ValueError(spec)


def adv_class_cases(rng, n_each):
    """(ann, spec, value) for all structured flavours, recursion (depth <= 6), diamond sharing, wrappers"""
    m = adv_module()
    L = leaf_spec
    opt = lambda s: ("union", typing.Optional[ann_of(s)], [s, ("none",)])
    lst = lambda s: ("seq", list[ann_of(s)], list, s)
    out = []

    def cls(c, flavour, fields):
        return ("class", c, flavour, fields, c)

    plain = cls(m.Plain, "dataclass", {"a": L(int), "b": L(str), "c": opt(L(decimal.Decimal))})
    slots = cls(m.Slots, "dataclass", {"a": L(D.date), "b": ("tuple", tuple[int, str], [L(int), L(str)])})
    kwonly = cls(m.KwOnly, "dataclass", {"a": L(float), "b": lst(L(str))})
    frozen = cls(m.Frozen, "dataclass", {"a": L(int), "b": ("seq", frozenset[int], frozenset, L(int))})
    nt = cls(m.NT, "namedtuple", {"first": ("tuple", tuple[int, int], [L(int), L(int)]), "second": L(str)})
    nt2 = cls(m.NT2, "namedtuple", {"first": L(str), "second": L(int)})
    tdt = cls(m.TDTotal, "typeddict", {"a": L(int), "b": lst(L(D.timedelta))})
    tdp = cls(m.TDPartial, "typeddict", {"a": L(int), "b": L(str)})
    tdn = cls(m.TDNotReq, "typeddict", {"a": L(int), "b": L(uuid.UUID)})
    ann_ = cls(m.Annotated_, "plain", {"a": L(int), "b": ("map", dict[str, float], dict, L(str), L(float))})
    slt = cls(m.Slotted_, "plain", {"a": L(str), "b": opt(L(int))})
    S = SCALARS
    # fields whose declared default is NOT None, holding None / falsy values / the default itself (seeded change C01-r6m2:
    #  an explicit null for a defaulted field read as "not given")
    dflt = cls(m.Defaults, "dataclass", {"name": L(str), "retries": opt(L(int)), "ratio": opt(L(float)),
                                         "tags": opt(lst(L(str))), "flag": opt(L(bool))})
    dsf = cls(m.DefaultsSF, "dataclass", {"name": L(str), "when": opt(L(D.date)), "amount": opt(L(decimal.Decimal))})
    ntd = cls(m.NTDefaults, "namedtuple", {"a": L(int), "b": opt(L(str)), "c": opt(("tuple", tuple[int, int], [L(int), L(int)]))})
    pld = cls(m.PlainDefaults, "plain", {"a": L(int), "b": opt(L(int)), "c": opt(L(str))})
    pick = lambda *xs: rng.choice(xs)
    for _ in range(max(2, n_each)):
        out.append((dflt, m.Defaults(S[str](rng), pick(None, 0, 3, S[int](rng)), pick(None, 0.0, 0.5), pick(None, [], ["t"], ["u", "v"]),
                                     pick(None, False, True))))
        out.append((dflt, m.Defaults("n", None, None, None, None)))
        out.append((dsf, m.DefaultsSF(pick("", "n", "x"), pick(None, gen_date(rng)), pick(None, decimal.Decimal("0"), S[decimal.Decimal](rng)))))
        out.append((dsf, m.DefaultsSF("n", None, None)))
        out.append((ntd, m.NTDefaults(S[int](rng), pick(None, "", "s", "null"), pick(None, (0, 0), (1, 2)))))
        out.append((ntd, m.NTDefaults(0, None, None)))
        out.append((pld, m.PlainDefaults(S[int](rng), pick(None, 0, 7), pick(None, "", "c", "None"))))
        out.append((pld, m.PlainDefaults(1, None, None)))
        out.append((lst(dflt), [m.Defaults("a", None, 0.0, [], False), m.Defaults("b", 1, None, None, None)]))
    for _ in range(n_each):
        out.append((plain, m.Plain(S[int](rng), S[str](rng), rng.choice([None, S[decimal.Decimal](rng)]))))
        out.append((slots, m.Slots(gen_date(rng), (S[int](rng), S[str](rng)))))
        out.append((kwonly, m.KwOnly(a=S[float](rng), b=[S[str](rng) for _ in range(rng.randint(0, 3))])))
        out.append((frozen, m.Frozen(S[int](rng), frozenset(S[int](rng) for _ in range(rng.randint(0, 3))))))
        out.append((nt, m.NT((S[int](rng), S[int](rng)), S[str](rng))))
        out.append((nt2, m.NT2(rng.choice(["ab", "a", "[1]", "xy"]), S[int](rng))))
        out.append((tdt, {"a": S[int](rng), "b": [gen_td(rng) for _ in range(rng.randint(0, 2))]}))
        out.append((tdt, {"b": [], "a": S[int](rng)}))
        out.append((tdp, rng.choice([{}, {"a": 1}, {"b": S[str](rng)}, {"b": "x", "a": 2}])))
        out.append((tdn, rng.choice([{"a": 1}, {"a": 2, "b": S[uuid.UUID](rng)}])))
        out.append((ann_, m.Annotated_(S[int](rng), {S[str](rng): S[float](rng) for _ in range(rng.randint(0, 3))})))
        out.append((slt, m.Slotted_(S[str](rng), rng.choice([None, S[int](rng)]))))
    # recursion
    node_fields = {}
    node = cls(m.Node, "dataclass", node_fields)
    node_fields.update({"val": L(int), "kids": lst(node), "nxt": ("union", typing.Optional[m.Node], [node, ("none",)])})

    def mk_node(d):
        return m.Node(S[int](rng), [mk_node(d - 1) for _ in range(rng.randint(0, 2))] if d > 0 else [],
                      mk_node(d - 1) if d > 0 and rng.random() < 0.6 else None)
    ping_f, pong_f = {}, {}
    ping = cls(m.Ping, "dataclass", ping_f)
    pong = cls(m.Pong, "dataclass", pong_f)
    ping_f.update({"n": L(int), "pong": ("union", typing.Optional[m.Pong], [pong, ("none",)])})
    pong_f.update({"s": L(str), "ping": ("union", typing.Optional[m.Ping], [ping, ("none",)]),
                   "many": ("map", dict[str, m.Ping], dict, L(str), ping)})

    def mk_ping(d):
        return m.Ping(S[int](rng), mk_pong(d - 1) if d > 0 else None)

    def mk_pong(d):
        return m.Pong(S[str](rng), mk_ping(d - 1) if d > 0 and rng.random() < 0.7 else None,
                      {f"k{i}": mk_ping(d - 1) for i in range(rng.randint(0, 2))} if d > 0 else {})
    tree_members = []
    tree = ("wrap", m.Tree, ("union", typing.Union[dict[str, m.Tree], int], tree_members))
    tree_members += [("map", dict[str, m.Tree], dict, L(str), tree), L(int)]

    def mk_tree(d):
        if d <= 0 or rng.random() < 0.3:
            return S[int](rng)
        return {f"n{i}": mk_tree(d - 1) for i in range(rng.randint(0, 3))}
    for d in range(0, 7):
        out.append((node, mk_node(d)))
        out.append((ping, mk_ping(d)))
        out.append((pong, mk_pong(d)))
        out.append((("seq", list[m.Node], list, node), [mk_node(max(d - 1, 0)) for _ in range(2)]))
        out.append((("map", dict[str, m.Pong], dict, L(str), pong), {"p": mk_pong(d)}))
    for d in range(0, 5):
        out.append((tree, mk_tree(d)))
    # wrappers and diamond sharing
    uid = ("wrap", m.UserId, L(int))
    ids = ("wrap", m.Ids, lst(uid))
    ptuple = ("seq", tuple[m.Plain, ...], tuple, plain)
    diamond = cls(m.Diamond, "dataclass", {"left": ptuple, "right": lst(ptuple),
                                           "both": ("map", dict[str, tuple[m.Plain, ...]], dict, L(str), ptuple),
                                           "fin": ("wrap", typing.Final[m.Ids], ids)})
    mkp = lambda: m.Plain(S[int](rng), S[str](rng), None)
    for _ in range(n_each):
        out.append((uid, S[int](rng)))
        out.append((ids, [S[int](rng) for _ in range(rng.randint(0, 3))]))
        out.append((("wrap", m.Name, L(str)), S[str](rng)))
        out.append((("wrap", typing.Final[int], L(int)), S[int](rng)))
        out.append((("wrap", typing.Final[list[m.Plain]], lst(plain)), [mkp()]))
        out.append((diamond, m.Diamond((mkp(), mkp()), [(mkp(),), ()], {"k": (mkp(),)}, [S[int](rng)])))
    return [(ann_of(s), s, v) for s, v in out]


# ----------------------------------------------------------------------------------
# laws
# ----------------------------------------------------------------------------------

def sample_laws(run, records):
    """RoundLaws + leaf_m_inj on the implementation's leaf routines"""
    bad = []
    n_round = n_inj = 0
    seen = set()
    pairs = []          # (leaf annotation, value)
    for rec in records:
        g = rec.group
        _collect_leaves(rec.tdesc, rec.value, g, pairs, 0)
    rng = random.Random(run.seed + 17)
    for t, gen in SCALARS.items():
        for _ in range(run.budget(12, 60)):
            pairs.append((t, gen(rng)))
    for ann, vals in LITS.items():
        pairs += [(ann, v) for v in vals]
    by_leaf = {}
    for ann, v in pairs:
        key = (repr(ann), type(v).__name__, repr(v))
        if key in seen:
            continue
        seen.add(key)
        n_round += 1
        m = t_marshal(ann, v)
        r = t_unmarshal(ann, m[1]) if m[0] == "ok" else ("raise", "marshal: " + m[1])
        ok = r[0] == "ok" and coreprop.same(r[1], v) and same_temporal_deep(r[1], v)
        if not ok:
            bad.append({"law": "leaf_round", "leaf": repr(ann), "value": repr(v), "wire": repr(m[1]) if m[0] == "ok" else m[1],
                        "got": repr(r[1])[:200]})
        elif _hashable(v) and _hashable(m[1]):
            by_leaf.setdefault(repr(ann), []).append((v, m[1]))
    for leaf, vs in by_leaf.items():
        for (v1, w1), (v2, w2) in itertools.combinations(vs[:60], 2):
            n_inj += 1
            if w1 == w2 and hash(w1) == hash(w2) and not (v1 == v2 and hash(v1) == hash(v2)):
                bad.append({"law": "leaf_m_inj", "leaf": leaf, "value": repr((v1, v2)), "wire": repr((w1, w2)), "got": ""})
    n_none = 1
    r = t_unmarshal(NoneType, None)
    if not (r[0] == "ok" and r[1] is None):
        bad.append({"law": "none_round", "leaf": "NoneType", "value": "None", "wire": "None", "got": repr(r[1])})
    run.laws["C01.leaf_round (unmarshal(S, marshal(v, t=S)) is v for valid scalar v)"] = n_round
    run.laws["C01.leaf_m_inj (distinct keys keep distinct wire forms)"] = n_inj
    run.laws["C01.none_round"] = n_none
    run.record_corr("leaf-laws", n_round + n_inj + n_none, bad, n_round,
                    {"leaf_round": n_round, "leaf_m_inj_pairs": n_inj, "leaf_kinds": len(by_leaf)})
    return bad


def _hashable(x):
    try:
        hash(x)
        return True
    except TypeError:
        return False


def _collect_leaves(d, v, g, out, depth):
    if depth > 30:
        return
    k = d[0]
    try:
        if k == "leaf":
            ann = g.reg.leaf_py[g.reg.leaves[d[1]]]
            if d[1] not in ("Any", "list", "dict", "bytes") and is_valid(("leaf", ann), v):
                out.append((ann, v))
        elif k == "seq":
            for x in v:
                _collect_leaves(d[3], x, g, out, depth + 1)
        elif k == "map":
            for a, b in v.items():
                _collect_leaves(d[3], a, g, out, depth + 1)
                _collect_leaves(d[4], b, g, out, depth + 1)
        elif k == "tuple":
            for t, x in zip(d[2], v):
                _collect_leaves(t, x, g, out, depth + 1)
        elif k == "union":
            for m in d[2]:
                if m[0] == "leaf":
                    _collect_leaves(m, v, g, out, depth + 1)
        elif k in ("newtype", "alias"):
            _collect_leaves(d[2], v, g, out, depth)
        elif k in ("final", "classvar"):
            _collect_leaves(d[1], v, g, out, depth)
        elif k in ("name", "ref", "aliasstr"):
            n = d[1] if k != "aliasstr" else d[2]
            df = g.env["defs"][n]
            if df[0] == "alias":
                _collect_leaves(df[2] if isinstance(df[1], str) else df[1], v, g, out, depth + 1)
            else:
                for fn, ft, _ in df[3]:
                    if isinstance(v, dict):
                        if fn in v:
                            _collect_leaves(ft, v[fn], g, out, depth + 1)
                    elif hasattr(v, fn):
                        _collect_leaves(ft, getattr(v, fn), g, out, depth + 1)
    except Exception:
        pass


# ----------------------------------------------------------------------------------
# correspond
# ----------------------------------------------------------------------------------

def correspond(run: lib.Run):
    n = run.budget(16, 150)
    groups, records = coreprop.generate(run, n, seed_offset=1, env_fn=env_fn, roots_fn=roots_fn,
                                        values_per_root=run.budget(2, 3), value_depth=3)
    run._c01 = (groups, records)
    bad = coreprop.correspond_core(run, groups, "c01")
    # marshaller and unmarshaller classes chosen for every head pair up (Dispatch_pairs, on the live _HANDLERS tables)
    lib.run_tie(run, dispatchtie, streams=False, core=True, groups=groups[:run.budget(40, 80)], tag="c01")      # the extended class lattice is decided by vm_compute: bounded
    # the leaf laws (RoundLaws ...) are theorems of the scalar model under interpreter-level laws (Props/LeafBridge.v);
    # every scalar leaf call recorded on this run is re-evaluated on that scalar model
    lib.run_tie(run, leaftie, groups=groups, tag="c01", streams=False)
    lib.run_tie(run, routasttie, props=False)      # the __call__ bodies of the composite routine classes, parsed and translated on this run, ARE Core's steps (Props/RoutineAst.v)
    lib.run_tie(run, capstonetie)      # the bridges compose: end-to-end statements on one runtime (Props/Capstone.v) + example replayed on /repo
    run._c01_bad = bad
    # hypotheses of the theorem on the generated (T, v)
    codes = hypotheses_in_coq(run, groups, records)
    run._c01_codes = codes
    hist = collections.Counter(c & 15 for c in codes.values())
    fx = collections.Counter(("fix_ok" if c & 16 else "not_fix_ok") + ("+model_fixpoint" if c & 32 else "") +
                             ("+ambiguous" if (c & 4) and not (c & 1) else "") for c in codes.values())
    not_valid, instance_broken, in_scope = [], [], 0
    for rec in records:
        c = codes.get(id(rec))
        if c is None:
            continue
        desc = {"type": repr(rec.pytype)[:200], "value": repr(rec.value)[:300], "code": c}
        leaves_ok = not _has_foreign_leaf(rec.tdesc)
        try:
            py_valid = leaves_ok and is_valid(spec_of_desc(rec.tdesc, rec.group.env, rec.group.mod), rec.value)
        except Exception:
            py_valid = None
        if py_valid is not None and bool(c & 4) != bool(py_valid) and leaves_ok:
            desc["python_is_valid"] = py_valid
            not_valid.append(desc)
        if (c & 7) == 7:
            in_scope += 1
            if not (c & 8):
                desc["theorem_instance_broken"] = True
                instance_broken.append(desc)
        if (c & 16) and (c & 64) and not (c & 32):
            desc["fixpoint_theorem_instance_broken"] = True
            instance_broken.append(desc)
    run.record_corr("theorem-hypotheses-on-generated-values", len(codes), instance_broken + not_valid, in_scope,
                    {"code_histogram(valid*4+guard*2+unamb*1,+8=model round trip)": {str(k): v for k, v in sorted(hist.items())},
                     "inside_all_hypotheses": in_scope, "fixpoint_form": dict(fx),
                     "model_valid_disagrees_with_oracle_is_valid": len(not_valid),
                     "hypotheses_hold_but_model_round_trip_fails": len(instance_broken)})
    sample_laws(run, records)


def _has_foreign_leaf(d) -> bool:
    k = d[0]
    if k == "leaf":
        return d[1] in ("Any", "list", "dict", "bytes")
    if k == "seq":
        return _has_foreign_leaf(d[3])
    if k == "map":
        return _has_foreign_leaf(d[3]) or _has_foreign_leaf(d[4])
    if k in ("tuple", "union"):
        return any(_has_foreign_leaf(t) for t in d[2])
    if k in ("newtype", "alias"):
        return _has_foreign_leaf(d[2])
    if k in ("final", "classvar"):
        return _has_foreign_leaf(d[1])
    return False


# ----------------------------------------------------------------------------------
# search
# ----------------------------------------------------------------------------------

def corpus_cases():
    """minimised regression inputs: python expressions evaluated in the adversarial module's namespace"""
    d = os.path.join(lib.VERIF, "corpus", "C01")
    out = []
    if os.path.isdir(d):
        for f in sorted(os.listdir(d)):
            if f.endswith(".json"):
                for c in json.load(open(os.path.join(d, f))):
                    out.append(c)
    return out


def eval_case(c):
    m = adv_module()
    ns = dict(m.__dict__)
    ns.update({"re": re, "D": D, "EInt": EInt, "EStr": EStr, "ESMix": ESMix, "EIntEnum": EIntEnum, "LIT1": LIT1, "LIT2": LIT2,
               "EKw": EKw, "LITKW": LITKW, "EColl": EColl, "ECross": ECross})
    ann = eval(c["type"], ns)
    v = eval(c["value"], ns)
    return ann, spec_of_ann(ann), v


def spec_of_ann(ann, memo=None, depth=0):
    """a spec for a Python annotation written by hand (corpus / replays): the oracle's own reading"""
    from typelib.py import compat
    memo = {} if memo is None else memo
    if ann is None or ann is NoneType:
        return ("none",)
    if isinstance(ann, str):
        ann = eval(ann, adv_module().__dict__)
    if isinstance(ann, typing.ForwardRef):
        ann = eval(ann.__forward_arg__, adv_module().__dict__)
    if isinstance(ann, compat.TypeAliasType):
        val = ann.__value__
        key = ("alias", id(ann))
        if key in memo:
            return ("lazy", ann, memo[key])
        lz = Lazy(lambda: spec_of_ann(val, memo, depth + 1))
        memo[key] = lz
        return ("wrap", ann, ("lazy", ann, lz))
    if hasattr(ann, "__supertype__"):
        return ("wrap", ann, spec_of_ann(ann.__supertype__, memo, depth + 1))
    o = typing.get_origin(ann)
    args = typing.get_args(ann)
    if o in (typing.Final, typing.ClassVar):
        return ("wrap", ann, spec_of_ann(args[0], memo, depth + 1))
    if o is typing.Literal:
        return ("leaf", ann)
    import types as _types
    if o is typing.Union or o is _types.UnionType:
        return ("union", ann, [spec_of_ann(a, memo, depth + 1) for a in args])
    if o is tuple:
        if len(args) == 2 and args[1] is Ellipsis:
            return ("seq", ann, tuple, spec_of_ann(args[0], memo, depth + 1))
        return ("tuple", ann, [spec_of_ann(a, memo, depth + 1) for a in args])
    import collections.abc as cabc
    seqs = {list: list, set: set, frozenset: frozenset, collections.deque: collections.deque, cabc.Sequence: list,
            cabc.MutableSequence: list, cabc.Collection: list, cabc.Iterable: list, cabc.Set: set, cabc.MutableSet: set}
    maps = {dict: dict, cabc.Mapping: dict, cabc.MutableMapping: dict, collections.OrderedDict: collections.OrderedDict,
            collections.defaultdict: collections.defaultdict}
    if o in seqs:
        return ("seq", ann, seqs[o], spec_of_ann(args[0], memo, depth + 1))
    if o in maps:
        return ("map", ann, maps[o], spec_of_ann(args[0], memo, depth + 1), spec_of_ann(args[1], memo, depth + 1))
    if isinstance(ann, type) and (dataclasses.is_dataclass(ann) or hasattr(ann, "__annotations__")) \
            and ann.__module__ not in ("builtins", "datetime", "decimal", "fractions", "uuid", "pathlib", "re", "enum") \
            and not issubclass(ann, enum.Enum):
        if ann in memo:
            return memo[ann]
        fields = {}
        flavour = ("typeddict" if typing.is_typeddict(ann) else "namedtuple" if hasattr(ann, "_fields")
                   else "dataclass" if dataclasses.is_dataclass(ann) else "plain")
        spec = ("class", ann, flavour, fields, ann)
        memo[ann] = spec
        hints = typing.get_type_hints(ann, localns=dict(adv_module().__dict__))
        for f, h in hints.items():
            if typing.get_origin(h) in (typing.NotRequired, typing.Required):
                h = typing.get_args(h)[0]
            fields[f] = ("lazy", None, Lazy(lambda h=h: spec_of_ann(h, memo, depth + 1)))
        return spec
    return ("leaf", ann)


def search(run: lib.Run, broken):
    groups, records = getattr(run, "_c01", (None, None))
    if groups is None:
        groups, records = coreprop.generate(run, run.budget(16, 150), seed_offset=1, env_fn=env_fn, roots_fn=roots_fn,
                                            values_per_root=run.budget(2, 3))
    stats = collections.Counter()
    fails = []
    rng = random.Random(run.seed * 7 + 3)
    hard = bool(broken) or run.tier == "thorough"

    def push(f):
        if f is not None:
            fails.append(f)

    # corpus first
    for c in corpus_cases():
        try:
            ann, spec, v = eval_case(c)
        except Exception as e:
            run.notes.append(f"corpus case {c.get('id')} could not be evaluated: {e!r}")
            continue
        push(check_value(ann, spec, v, stats, {"source": "corpus", "corpus_id": c.get("id"),
                                               "replay": {"type": c["type"], "value": c["value"]}}))
    # generated records (the very cases of the correspondence)
    limit = len(records) if hard else min(len(records), 400)
    for rec in records[:limit]:
        if _has_foreign_leaf(rec.tdesc):
            continue
        g = rec.group
        try:
            spec = spec_of_desc(rec.tdesc, g.env, g.mod)
        except Exception as e:
            run.notes.append(f"spec_of_desc failed: {e!r}")
            continue
        push(check_value(rec.pytype, spec, rec.value, stats,
                         {"source": "core-generator", "module_source": g.src, "tdesc": rec.tdesc,
                          "env": {"module": g.env["module"], "defs": {str(k): v for k, v in g.env["defs"].items()}}}))
    # model says hypotheses hold -> the implementation must round-trip (theorem instance on the real code)
    codes = getattr(run, "_c01_codes", {})
    for rec in records:
        c = codes.get(id(rec))
        if c is not None and (c & 7) == 7:
            stats["theorem_instances_checked"] += 1
    # text that spells a keyword under Optional / Union-with-None, at every kind of position
    for ann, spec, v in keyword_text_cases():
        push(check_value(ann, spec, v, stats, {"source": "keyword-text-under-optional"}))
    # equal instants at different offsets: in one value, then in consecutive calls that share typelib's caches
    together, singles = same_instant_cases()
    for ann, spec, v in together:
        push(check_value(ann, spec, v, stats, {"source": "same-instant-in-one-value"}))
    impl.clear_caches()
    _CLEAR[0] = False
    try:
        history = []
        for ann, spec, v in singles:
            history.append(value_expr(v))
            f = check_value(ann, spec, v, stats, {"source": "same-instant-consecutive-calls"})
            if f is not None:
                f["class"] = "roundtrip-after-history"
                f["history"] = history[-6:]
                f["replay"] = {"sequence": [{"type": ann_expr(a2), "value": value_expr(v2)}
                                            for a2, _, v2 in singles[: len(history)]]}
                f["key"] = json.dumps(["C01", "history", f["type"], f["value"]])
                push(f)
                break
    finally:
        _CLEAR[0] = True
        impl.clear_caches()
    # valid values that omit non-required members (TypedDict shapes x annotation styles x positions)
    for modname, ann, spec, v, rp in typeddict_shape_cases(rng, hard):
        push(check_value(ann, spec, v, stats, {"source": "typeddict-optional-keys-omitted", "replay": rp}))
    # adversarial pools
    for ann, spec, v in adv_class_cases(rng, run.budget(4, 25)):
        push(check_value(ann, spec, v, stats, {"source": "structured-flavours"}))
    n_rand = run.budget(500, 12000) if not broken else run.budget(1500, 12000)
    for i in range(n_rand):
        spec = gen_spec(rng, rng.choice([0, 1, 2, 2, 3, 4 if hard else 3]))
        try:
            v = gen_spec_value(rng, spec, depth=3)
        except Exception as e:
            run.notes.append(f"gen_spec_value failed: {e!r}")
            continue
        push(check_value(ann_of(spec), spec, v, stats, {"source": "python-level-generator"}))
    # every scalar x every string that reads like another scalar, in two-member unions (both orders)
    scal = [int, float, str, decimal.Decimal, fractions.Fraction, uuid.UUID, pathlib.PurePosixPath, D.date, D.datetime,
            D.time, D.timedelta, bool, EInt, EStr, ESMix, EIntEnum, EColl, ECross, re.Pattern]
    pairs = [(a, b) for a in scal for b in scal if a is not b]
    rng.shuffle(pairs)
    for a, b in pairs[: run.budget(60, len(pairs))]:
        for src in (a, b):
            for _ in range(run.budget(2, 6)):
                spec = ("union", typing.Union[a, b], [leaf_spec(a), leaf_spec(b)])
                push(check_value(ann_of(spec), spec, SCALARS[src](rng), stats, {"source": "scalar-unions"}))
    # defaultdict spellings (listed under the dict spellings of U)
    for ann in (typing.DefaultDict[str, int], collections.defaultdict[str, int]):
        spec = ("map", ann, collections.defaultdict, leaf_spec(str), leaf_spec(int))
        push(check_value(ann, spec, collections.defaultdict(int, a=1), stats, {"source": "defaultdict"}))
    best = {}
    for f in fails:
        k = f["class"] + "|" + _shape(f)
        size = len(f.get("value", "")) + len(f.get("type", ""))
        if k not in best or size < best[k][0]:
            best[k] = (size, f)
    # failures whose replay file can be re-run on its own come first
    out = [v[1] for v in sorted(best.values(), key=lambda x: ("replay_note" in x[1], x[0]))]
    run.search_stats["oracle"] = {
        "evaluations": stats["evaluations"], "distinct_nontrivial": stats["roundtrip_ok"] + stats["fixpoint_ok"],
        "roundtrip_ok": stats["roundtrip_ok"], "ambiguous_unions": stats["ambiguous"], "fixpoint_ok": stats["fixpoint_ok"],
        "failures_before_known_findings": len(fails), "failure_classes": dict(collections.Counter(f["class"] for f in fails)),
        "rule": "unmarshal(T, marshal(v, t=T)) deep-equals v with type(a) is type(b) at every position and equal utcoffset(); "
                "if not, every union position on the way is examined on the implementation: ambiguous = an earlier member's "
                "unmarshaller (None first) accepts the wire form written by a member the value is a valid instance of; "
                "ambiguous -> marshal(unmarshal(T, m), t=T) == m is required instead; over core-generator records, all "
                "structured flavours, recursive classes to depth 6, diamond sharing, wrappers, a Python-level generator "
                "over every scalar kind incl. Pattern / Windows / concrete paths / enums / Literal, all two-member scalar "
                "unions in both orders; non-trivial = the value (or the fixpoint) was actually restored",
    }
    coreprop.close(groups)
    return out[:40]


def _shape(f):
    return re.sub(r"[0-9]+", "N", f.get("type", ""))[:80]


# ----------------------------------------------------------------------------------
# replay / findings
# ----------------------------------------------------------------------------------

def replay(payload):
    rp = payload.get("replay") or payload
    if "sequence" in rp:
        stats = collections.Counter()
        impl.clear_caches()
        _CLEAR[0] = False
        try:
            for c in rp["sequence"]:
                ann, spec, v = eval_case(c)
                f = check_value(ann, spec, v, stats, {"source": "replay-sequence"})
                if f is not None:
                    return {"fails": True, "failure": f}
        finally:
            _CLEAR[0] = True
            impl.clear_caches()
        return {"fails": False}
    if "module_source" in rp and "type" in rp:
        mod = impl.new_module("verif_c01_replay_mod", rp["module_source"])
        try:
            ann = eval(rp["type"], mod.__dict__)
            v = eval(rp["value"], mod.__dict__)
            f = check_value(ann, spec_of_ann(ann), v, collections.Counter(), {"source": "replay"})
        finally:
            impl.drop_module("verif_c01_replay_mod")
        return {"fails": f is not None, "failure": f}
    if "type" in rp and "value" in rp and "tdesc" not in payload:
        try:
            ann, spec, v = eval_case(rp)
        except Exception as e:
            return {"fails": False, "note": f"cannot evaluate replay: {e!r}"}
        stats = collections.Counter()
        f = check_value(ann, spec, v, stats, {"source": "replay"})
        return {"fails": f is not None, "failure": f}
    if "tdesc" in payload and "env" in payload:
        env = {"module": payload["env"]["module"] + "_replay",
               "defs": {(int(k) if k.isdigit() else k): _tup(v) for k, v in payload["env"]["defs"].items()}}
        tdesc = _tup(payload["tdesc"])
        g = coremodel.Group(env, [tdesc], coreprop.suppressed())
        try:
            v = eval(payload["value"], dict(g.mod.__dict__))
            spec = spec_of_desc(tdesc, env, g.mod)
            stats = collections.Counter()
            f = check_value(g.pytys[0], spec, v, stats, {"source": "replay"})
        finally:
            g.close()
        return {"fails": f is not None, "failure": f}
    return {"fails": False, "note": "replay needs {type, value} (python expressions) or {tdesc, env, value}"}


def _tup(x):
    if isinstance(x, list):
        return tuple(_tup(y) for y in x) if (x and isinstance(x[0], str)) else [_tup(y) for y in x]
    return x


def reproduces(entry):
    r = replay(entry["replay"])
    if not r["fails"]:
        return False
    want = entry.get("matches", {}).get("class")
    return want is None or r["failure"]["class"] == want


def matches(entry, failure):
    m = entry.get("matches", {})
    if m.get("class") != failure.get("class"):
        return False
    for k, v in m.items():
        if k == "class":
            continue
        if k == "detail_contains":
            if not all(s in failure.get("detail", "") for s in ([v] if isinstance(v, str) else v)):
                return False
        elif k == "type_contains":
            if not any(s in failure.get("type", "") for s in ([v] if isinstance(v, str) else v)):
                return False
        elif str(v) not in str(failure.get(k, "")):
            return False
    return True
