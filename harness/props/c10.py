"""C10 -- bound callables get every argument converted per its own parameter (DESIGN 7/C10)."""
from __future__ import annotations

import decimal
import fractions
import inspect
import itertools
import json
import os
import random

import bindtie      # WP-D: translator tie of the binder classes, the wrap/bind shell (notes/bindshell.md)
import impl
import lib
from lib import coq_bool, coq_list, coq_nat, coq_opt, coq_pair

KINDS = ["PO", "PK", "VP", "KO", "VK"]
PYKIND = {"PO": inspect.Parameter.POSITIONAL_ONLY, "PK": inspect.Parameter.POSITIONAL_OR_KEYWORD,
          "VP": inspect.Parameter.VAR_POSITIONAL, "KO": inspect.Parameter.KEYWORD_ONLY,
          "VK": inspect.Parameter.VAR_KEYWORD}
BCLS = ["AnyParamKindBinding", "PosArgsKwargsBinding", "PosKwdKwargsBinding", "PosKwdArgsBinding",
        "PosKwargsBinding", "PosKwdBinding", "PosArgsBinding", "PosBinding", "KwdArgsKwargsBinding",
        "KwdArgsBinding", "KwdKwargsBinding", "KwdBinding", "ArgsKwargsBinding", "KwargsBinding",
        "ArgsBinding", "PosOrKwdBinding"]
ANN = ["int", "str", "float", "decimal.Decimal", "fractions.Fraction"]
COQ_TARGETS = sorted({"theories/Proofs/BindingLemmas.vo", "theories/Model/BindingEq.vo"} | set(bindtie.COQ_TARGETS))


# ----------------------------------------------------------------------------------
# reflect: the dispatch matrix of the live module -> Coq
# ----------------------------------------------------------------------------------

def reflect_matrix() -> tuple[str, list[str]]:
    from typelib import binding
    problems = []
    rows = []
    for truth, cls in binding._BINDING_CLS_MATRIX.items():
        name = cls.__name__
        if name not in BCLS:
            problems.append(f"matrix names unknown binder class {name}")
            continue
        rows.append("({| t_po := %s; t_ko := %s; t_vp := %s; t_vk := %s; t_pk := %s |}, %s)" % (
            coq_bool(truth.has_pos_only), coq_bool(truth.has_kwd_only), coq_bool(truth.has_args),
            coq_bool(truth.has_kwargs), coq_bool(truth.has_pos_or_kwd), name))
    concrete = sorted(c.__name__ for c in binding.AbstractBinding.__subclasses__())
    if concrete != sorted(BCLS):
        problems.append(f"binder classes differ from the 16 modelled: {sorted(set(concrete) ^ set(BCLS))}")
    text = ("(* generated from typelib.binding._BINDING_CLS_MATRIX on this run *)\n"
            "From Coq Require Import List. Import ListNotations.\nRequire Import TL.Model.Binding.\n"
            "Definition rows : list row :=\n  [ " + ";\n    ".join(rows) + " ].\n")
    return text, problems


def prove(run: lib.Run):
    text, problems = reflect_matrix()
    run.oblige("reflect:binding matrix uses only the 16 modelled binder classes", not problems, "; ".join(problems))
    ok = run.compile_dyn("GenBindingMatrix.v", text=text)
    if ok:
        run.compile_dyn("C10.v", src=os.path.join(lib.DYN, "C10", "C10.v"),
                        theorems=["C10_matrix_ok", "C10_converts", "C10_rejected_or_shape"])
    bindtie.prove(run)      # GenBinderModes.v + C10Modes.v (source tie), Props/C10Shell.v, C10Shell.v
    run.assumptions += [
        "C10: CPython's binding rule is the specification (expected_pos/expected_kw; py_bind for defaults, *args, **kwargs); "
        "it is compared with the interpreter and inspect.Signature.bind on every generated call by the oracle and with the "
        "interpreter on every bind-shell case",
        "C10: posmode_of/kwmode_of (the reading of the 16 __call__ bodies) is tied twice: by the translator (ast of binding.py "
        "-> idiom pairs, C10_modes_tied) and by the binder-class correspondence",
        "C10: functools.wraps and the call of f are modelled (Model/BindingShell.v: wraps, call_fn) and tied by the "
        "bind-shell / wrap-meta correspondence",
    ]


# ----------------------------------------------------------------------------------
# signatures
# ----------------------------------------------------------------------------------

def sig_shapes(maxn: int):
    """all (npo, npk, vp, nko, vk) with total <= maxn"""
    for npo in range(3):
        for npk in range(3):
            for vp in (0, 1):
                for nko in range(3):
                    for vk in (0, 1):
                        if npo + npk + vp + nko + vk <= maxn:
                            yield npo, npk, vp, nko, vk


def make_sig(shape, rng: random.Random, all_annotated=False, bare_var=False):
    npo, npk, vp, nko, vk = shape
    kinds = ["PO"] * npo + ["PK"] * npk + ["VP"] * vp + ["KO"] * nko + ["VK"] * vk
    npos = npo + npk
    firstd = rng.randint(0, npos)     # defaults must be a suffix among positional parameters
    anns = list(range(len(ANN)))
    rng.shuffle(anns)
    sig = []
    for i, k in enumerate(kinds):
        if k in ("PO", "PK"):
            d = i >= firstd
        elif k == "KO":
            d = rng.random() < 0.5
        else:
            d = False
        ann = anns[i % len(anns)] if (all_annotated or rng.random() < 0.8) else None
        if bare_var and k in ("VP", "VK"):
            ann = None              # a bare *args / **kwargs: extras must arrive untouched
        sig.append({"name": f"p{i}", "kind": k, "default": d, "ann": ann})
    return sig


def sig_source(sig, fname="f", self_first=False) -> str:
    parts = []
    if self_first:
        parts.append("self")
    prev = None
    for p in sig:
        k = p["kind"]
        if prev == "PO" and k != "PO":
            parts.append("/")
        if k == "KO" and prev not in ("KO", "VP"):
            parts.append("*")
        s = {"VP": "*", "VK": "**"}.get(k, "") + p["name"]
        if p["ann"] is not None:
            s += f": {ANN[p['ann']]}"
        if p["default"]:
            s += " = None" if p["ann"] is None else " = b'0'"
        parts.append(s)
        prev = k
    if prev == "PO":
        parts.append("/")
    names = ", ".join(f"'{p['name']}': {p['name']}" for p in sig)
    return f"def {fname}({', '.join(parts)}):\n    return {{{names}}}\n"


def build_forms(sig):
    """the callable in its four forms; each returns/records the dict of received values"""
    src = "import decimal, fractions\n" + sig_source(sig, "f")
    src += "class M:\n" + "".join("    " + l + "\n" for l in sig_source(sig, "meth", True).split("\n") if l)
    src += "class CI:\n" + "".join("    " + l + "\n" for l in sig_source(sig, "__call__", True).split("\n") if l)
    init = sig_source(sig, "__init__", True).replace("    return {", "    self.got = {")
    src += "class K:\n" + "".join("    " + l + "\n" for l in init.split("\n") if l)
    src += "class K2:\n" + "".join("    " + l + "\n" for l in init.split("\n") if l)
    ns = impl.new_module("verif_c10_mod", src).__dict__
    return ns, src


# the interpreter's binding rule (validated against the interpreter and inspect on every call)
def py_bind(sig, nargs, kwnames):
    pos = [i for i, p in enumerate(sig) if p["kind"] in ("PO", "PK")]
    vp = next((i for i, p in enumerate(sig) if p["kind"] == "VP"), None)
    vk = next((i for i, p in enumerate(sig) if p["kind"] == "VK"), None)
    assigned, pa = set(), []
    for j in range(nargs):
        if j < len(pos):
            pa.append(pos[j]); assigned.add(pos[j])
        elif vp is not None:
            pa.append(vp)
        else:
            return None
    byname = {p["name"]: i for i, p in enumerate(sig) if p["kind"] in ("PK", "KO")}
    ka = []
    for n in kwnames:
        if n in byname:
            i = byname[n]
            if i in assigned:
                return None
            assigned.add(i); ka.append(i)
        elif vk is not None:
            ka.append(vk)
        else:
            return None
    for i, p in enumerate(sig):
        if p["kind"] in ("PO", "PK", "KO") and not p["default"] and i not in assigned:
            return None
    return pa, ka


def call_shapes(sig, rng: random.Random | None, limit: int | None):
    """(nargs, kwnames) shapes: accepted ones systematically, plus rejected ones."""
    npos = sum(p["kind"] in ("PO", "PK") for p in sig)
    has_vp = any(p["kind"] == "VP" for p in sig)
    named = [p["name"] for p in sig if p["kind"] in ("PK", "KO")]
    others = [p["name"] for p in sig if p["kind"] in ("PO", "VP", "VK")]
    extra_pool = ["zz", "yy"] + others
    shapes = []
    for nargs in range(0, npos + 3):
        for r in range(len(named) + 1):
            for sub in itertools.combinations(named, r):
                for ne in range(0, 3):
                    for ex in itertools.combinations(extra_pool, ne):
                        shapes.append((nargs, list(sub) + list(ex)))
    if limit is not None and len(shapes) > limit:
        shapes = rng.sample(shapes, limit)
    return shapes


# ----------------------------------------------------------------------------------
# correspondence
# ----------------------------------------------------------------------------------

def emit_bstate(names, idxs, startpos, varpos, varkwd):
    return "{| names := %s; idxs := %s; startpos := %s; varpos := %s; varkwd := %s |}" % (
        coq_list([coq_pair(coq_nat(a), coq_nat(b)) for a, b in names], "(nat * nat)"),
        coq_list([coq_nat(i) for i in idxs], "nat"),
        coq_opt(None if startpos is None else coq_nat(startpos), "nat"),
        coq_opt(None if varpos is None else coq_nat(varpos), "nat"),
        coq_opt(None if varkwd is None else coq_nat(varkwd), "nat"))


class Stub:
    """tagging unmarshaller: records which parameter converted the value"""
    def __init__(self, p):
        self.p = p

    def __call__(self, v):
        return ("C", self.p, v)


def emit_cv(x) -> str:
    if isinstance(x, tuple) and len(x) == 3 and x[0] == "C":
        return f"(Conv {coq_nat(x[1])} {coq_nat(x[2])})"
    if isinstance(x, int):
        return f"(Raw {coq_nat(x)})"
    if isinstance(x, str) and x.startswith("n"):
        return f"(KeyAs {coq_nat(int(x[1:]))})"
    raise ValueError(f"unencodable observation {x!r}")


def emit_out(obs) -> str:
    if obs == "RaiseType":
        return "(@RaiseType (list (cv nat) * list (nat * cv nat)))"
    ua, uk = obs
    return "(Ok (%s, %s))" % (coq_list([emit_cv(x) for x in ua], "(cv nat)"),
                              coq_list([coq_pair(coq_nat(int(k[1:])), emit_cv(v)) for k, v in uk], "(nat * cv nat)"))


def binder_cases(rng: random.Random, n: int):
    """(i) each binder class instantiated directly on random binding states"""
    from typelib import binding
    cases, coq, dist = [], [], {}
    for idx in range(n):
        cls_name = BCLS[idx % len(BCLS)]
        cls = getattr(binding, cls_name)
        npar = rng.randint(0, 5)
        idxs = sorted(rng.sample(range(5), rng.randint(0, 4)))
        name_ids = rng.sample(range(6), rng.randint(0, 4))
        names = [(nid, rng.randint(0, 4)) for nid in name_ids]
        startpos = rng.choice([None, 0, 1, 2, 3])
        varpos = rng.choice([None, rng.randint(0, 4)])
        varkwd = rng.choice([None, rng.randint(0, 4)])
        args = [100 + j for j in range(rng.randint(0, 4))]
        kwn = rng.sample(range(6), rng.randint(0, 3))
        kwargs = {f"n{k}": 200 + j for j, k in enumerate(kwn)}
        bdict = {}
        for nid, p in names:
            bdict[f"n{nid}"] = Stub(p)
        for i in idxs:
            bdict[i] = Stub(i)
        b = cls(signature=None, binding=bdict, varkwd=None if varkwd is None else Stub(varkwd),
                varpos=None if varpos is None else Stub(varpos), startpos=startpos)
        try:
            ua, uk = b(tuple(args), dict(kwargs))
            obs = (list(ua), list(uk.items()))
            err = None
        except TypeError:
            obs, err = "RaiseType", None
        except Exception as e:  # any other exception kind cannot be produced by the model
            obs, err = None, repr(e)
        desc = {"layer": "binder-class", "cls": cls_name, "names": names, "idxs": idxs, "startpos": startpos,
                "varpos": varpos, "varkwd": varkwd, "args": args, "kwargs": kwargs, "observed": repr(obs), "error": err}
        cases.append(desc)
        dist[cls_name] = dist.get(cls_name, 0) + 1
        if obs is None:
            coq.append(None)
            continue
        try:
            o = emit_out(obs)
        except ValueError as e:
            desc["error"] = str(e)
            coq.append(None)
            continue
        coq.append("(%s, %s, %s, %s, %s)" % (
            cls_name, emit_bstate(names, idxs, startpos, varpos, varkwd),
            coq_list([coq_nat(a) for a in args], "nat"),
            coq_list([coq_pair(coq_nat(int(k[1:])), coq_nat(v)) for k, v in kwargs.items()], "(nat * nat)"), o))
    return cases, coq, dist


def emit_sig(sig) -> str:
    return coq_list(["{| pname := %s; pkind := %s; pann := %s |}" % (coq_nat(int(p["name"][1:])), p["kind"],
                                                                     coq_bool(p["ann"] is not None)) for p in sig], "param")


def getb_cases(rng: random.Random, n: int):
    """(ii) _get_binding on generated signatures"""
    from typelib import binding
    shapes = list(sig_shapes(5))
    cases, coq, dist = [], [], {}
    for idx in range(n):
        shape = shapes[idx % len(shapes)] if idx < len(shapes) * 2 else rng.choice(shapes)
        sig = make_sig(shape, rng, all_annotated=True)
        # distinct annotation per parameter so binding values identify their parameter
        ns: dict = {}
        src = "import typing\n" + "".join(f"class T{i}(int): pass\n" for i in range(len(sig)))
        for i, p in enumerate(sig):
            p["ann_src"] = f"T{i}"
        s2 = sig_source(sig, "f")
        for i, p in enumerate(sig):
            s2 = s2.replace(f"{p['name']}: {ANN[p['ann']]}", f"{p['name']}: T{i}")
        ns = impl.new_module("verif_c10_sig", src + s2).__dict__
        f = ns["f"]
        impl.clear_caches()
        try:
            b = binding._get_binding(f)
            cname = type(b).__name__
            def pidx(u):
                return int(u.t.__name__[1:])
            names = [(int(k[1:]), pidx(v)) for k, v in b.binding.items() if isinstance(k, str)]
            idxs = [k for k in b.binding if isinstance(k, int)]
            bad = [k for k in b.binding if isinstance(k, int) and pidx(b.binding[k]) != k]
            st = (names, idxs, b.startpos, None if b.varpos is None else pidx(b.varpos),
                  None if b.varkwd is None else pidx(b.varkwd))
            err = f"index keys not bound to their own parameter: {bad}" if bad else None
        except Exception as e:
            cname, st, err = None, None, repr(e)
        desc = {"layer": "get_binding", "def": s2.split("\n")[0], "class": cname, "state": repr(st), "error": err}
        cases.append(desc)
        key = "".join(str(x) for x in shape)
        dist[key] = dist.get(key, 0) + 1
        if st is None or err or cname not in BCLS:
            coq.append(None)
            continue
        coq.append("(%s, Some %s, %s)" % (emit_sig(sig), cname, emit_bstate(*st)))
    return cases, coq, dist


def eval_cases(run, fname, header, okfn, coq_cases):
    """returns indexes of mismatching cases (None entries count as mismatches)"""
    idx_map = [i for i, c in enumerate(coq_cases) if c is not None]
    bad = [i for i, c in enumerate(coq_cases) if c is None]
    if idx_map:
        text = header + "Definition cases := \n " + coq_list([coq_cases[i] for i in idx_map]).replace("; (", ";\n  (") + \
            ".\nEval vm_compute in mismatches " + okfn + " cases.\n"
        res = run.coq_eval(fname, text)
        if res is None:
            run.oblige(f"evaluate:{fname}", False, "model evaluation did not compile")
            return list(range(len(coq_cases)))
        bad += [idx_map[j] for j in lib.parse_nat_list(res[-1])]
    return sorted(bad)


def correspond(run: lib.Run):
    n1 = run.budget(1600, 16000)
    cases, coq, dist = binder_cases(run.rng, n1)
    hdr = ("From Coq Require Import List. Import ListNotations.\n"
           "Require Import TL.Model.Binding TL.Model.BindingEq.\n")
    bad = eval_cases(run, "cases_binder.v", hdr, "binder_case_ok", coq)
    nontriv = len({json.dumps(c, sort_keys=True, default=str) for c in cases if c["args"] or c["kwargs"]})
    run.record_corr("binder-class", len(cases), [cases[i] for i in bad], nontriv, dist)
    run.samples.append(cases[0])

    n2 = run.budget(400, 4000)
    cases2, coq2, dist2 = getb_cases(run.rng, n2)
    hdr2 = hdr + "Require Import TLRun.GenBindingMatrix.\n"
    if not os.path.exists(os.path.join(run.build, "GenBindingMatrix.vo")):
        run.record_corr("get_binding", len(cases2), [{"error": "matrix did not compile"}], 0, dist2)
    else:
        bad2 = eval_cases(run, "cases_getb.v", hdr2, "(getb_case_ok rows)", coq2)
        run.record_corr("get_binding", len(cases2), [cases2[i] for i in bad2],
                        len({c["def"] for c in cases2}), dist2)
    run.samples.append(cases2[0])
    bindtie.correspond(run)     # streams bind-shell, wrap-meta


# ----------------------------------------------------------------------------------
# the property oracle on the implementation
# ----------------------------------------------------------------------------------

def _argval(j):
    return str(j + 1).encode()


def check_call(sig, ns, nargs, kwnames, forms=("f",)):
    """Run one call through bind/wrap and compare with the statement.  Returns list of failures."""
    from typelib import binding, unmarshals
    import copy
    fails = []
    args = [_argval(j) for j in range(nargs)]
    kwargs = {n: _argval(10 + j) for j, n in enumerate(kwnames)}
    f = ns["f"]
    plan = py_bind(sig, nargs, kwnames)
    # the interpreter's verdict
    try:
        f(*args, **kwargs)
        interp_ok = True
    except TypeError:
        interp_ok = False
    try:
        inspect.signature(f).bind(*args, **kwargs)
        insp_ok = True
    except TypeError:
        insp_ok = False
    if (plan is not None) != interp_ok:
        return [{"symptom": "harness: py_bind disagrees with the interpreter", "nargs": nargs, "kwnames": kwnames}]
    if interp_ok != insp_ok:
        return []   # shapes on which inspect and the interpreter differ are outside the quantifier
    anns = {"int": int, "str": str, "float": float, "decimal.Decimal": decimal.Decimal,
            "fractions.Fraction": fractions.Fraction}

    def conv(pi, v):
        a = sig[pi]["ann"]
        return v if a is None else unmarshals.unmarshal(anns[ANN[a]], v)

    if interp_ok:
        pa, ka = plan
        ea = [conv(pi, v) for pi, v in zip(pa, args)]
        ek = {n: conv(pi, v) for pi, (n, v) in zip(ka, kwargs.items())}
        expected = f(*ea, **ek)
    targets = {
        "f": lambda: ns["f"],
        "method": lambda: ns["M"]().meth,
        "instance": lambda: ns["CI"](),
        "class": lambda: ns["K"],
    }
    for form in forms:
        for api in ("bind", "wrap"):
            if form == "class" and api == "wrap":
                target = type("K3", (ns["K2"],), {})   # wrap mutates the class: fresh subclass each time
                target.__init__ = ns["K2"].__init__
            else:
                target = targets[form]()
            try:
                bound = getattr(binding, api)(target)
                got = bound(*args, **kwargs)
                if form == "class":
                    got = got.got
                exc = None
            except Exception as e:
                got, exc = None, e
            base = {"api": api, "form": form, "def": sig_source(sig).split("\n")[0], "sig": sig,
                    "nargs": nargs, "kwnames": kwnames, "args": [repr(a) for a in args],
                    "kwargs": {k: repr(v) for k, v in kwargs.items()}}
            if interp_ok:
                if exc is not None:
                    fails.append(dict(base, symptom="accepted call raised", got=repr(exc), expected=repr(expected)))
                elif repr(got) != repr(expected) or got != expected:
                    fails.append(dict(base, symptom="argument not converted by its own parameter",
                                      got=repr(got), expected=repr(expected)))
            else:
                if not isinstance(exc, TypeError):
                    fails.append(dict(base, symptom="rejected call did not raise TypeError",
                                      got=repr(exc) if exc else repr(got), expected="TypeError"))
    return fails


def check_metadata(ns):
    from typelib import binding
    fails = []
    f = ns["f"]
    f.__doc__ = "doc of f"
    w = binding.wrap(f)
    for attr in ("__name__", "__qualname__", "__doc__", "__module__"):
        if getattr(w, attr, None) != getattr(f, attr, None):
            fails.append({"symptom": f"wrap does not preserve {attr}", "got": repr(getattr(w, attr, None)),
                          "expected": repr(getattr(f, attr, None)), "api": "wrap", "form": "f"})
    if getattr(w, "__wrapped__", None) is not f:
        fails.append({"symptom": "wrap does not preserve __wrapped__", "api": "wrap", "form": "f"})
    return fails


def failure_key(f):
    return json.dumps([f.get("symptom"), f.get("api"), f.get("form"), f.get("def"), f.get("nargs"), f.get("kwnames")])


def search(run: lib.Run, broken):
    rng = random.Random(run.seed + 1)
    shapes = list(sig_shapes(5))
    per_shape_sigs = run.budget(2, 5)
    call_limit = run.budget(40, None)
    if broken:
        per_shape_sigs = max(per_shape_sigs, 3)
        call_limit = None if run.tier == "thorough" else 200
    fails, ncalls, nacc, nsig = [], 0, 0, 0
    truth_seen = set()
    for shape in shapes:
        for rep in range(per_shape_sigs):
            sig = make_sig(shape, rng, all_annotated=(rep == 0), bare_var=(rep == 1))
            ns, src = build_forms(sig)
            nsig += 1
            truth_seen.add(tuple(bool(x) for x in shape))
            impl.clear_caches()
            forms = ("f", "method", "instance", "class") if rep == 0 else ("f",)
            if rep == 0:
                fails += check_metadata(ns)
            for nargs, kwnames in call_shapes(sig, rng, call_limit):
                ncalls += 1
                nacc += py_bind(sig, nargs, kwnames) is not None
                fs = check_call(sig, ns, nargs, kwnames, forms if ncalls % 5 == 0 else ("f",))
                for x in fs:
                    x["source"] = src
                    x["key"] = failure_key(x)
                fails += fs
            if len(fails) > 400:
                break
    # shrink: keep, per (symptom, api, truth tuple), the failure with the smallest signature and call
    best = {}
    for x in fails:
        t = tuple(sorted({p["kind"] for p in x.get("sig", [])}))
        k = (x["symptom"], t)
        size = (len(x.get("sig", [])), x.get("nargs", 0) + len(x.get("kwnames", [])), x.get("form") != "f")
        if k not in best or size < best[k][0]:
            best[k] = (size, x)
    out = [v[1] for v in sorted(best.values(), key=lambda v: v[0])]
    run.search_stats["oracle"] = {
        "evaluations": ncalls, "distinct_nontrivial": nacc, "signatures": nsig,
        "kind_presence_tuples": len(truth_seen), "accepted_calls": nacc, "rejected_calls": ncalls - nacc,
        "failures": len(fails), "exhaustive_call_shapes": call_limit is None,
        "rule": "all 144 kind-count shapes (<=5 params, all 32 presence tuples); calls = nargs 0..npos+2 x subsets of "
                "keyword-capable names x 0-2 extra keywords (incl. names of positional-only/var params); "
                "non-trivial = accepted by the interpreter",
    }
    out = out + bindtie.search(run, broken)     # keyword names, class hierarchies under wrap(cls)
    if out:
        run.samples.append({"oracle_failure": {k: v for k, v in out[0].items() if k not in ("source", "hierarchy")}})
    return out


# ----------------------------------------------------------------------------------
# known findings / replay
# ----------------------------------------------------------------------------------

def replay(payload):
    if payload.get("hierarchy") or payload.get("reserved") or payload.get("history_replay"):
        return bindtie.replay(payload)
    sig = payload["sig"]
    ns, _ = build_forms(sig)
    impl.clear_caches()
    fs = check_call(sig, ns, payload["nargs"], payload["kwnames"], (payload.get("form", "f"),))
    fs = [x for x in fs if x["api"] == payload.get("api", x["api"])]
    return {"fails": bool(fs), "failures": fs}


def reproduces(entry):
    return replay(entry["replay"])["fails"]


def matches(entry, failure):
    m = entry.get("matches", {})
    return all(failure.get(k) == v for k, v in m.items())
