"""C16 -- type-context lookups see through aliases and references (DESIGN 7/C16).

prove      : key tables of the live inspection.unwrap / refs.forwardref / refs.evaluate on the key family -> GenCtxTables.v,
             then coq/dyn/C16/C16.v (refinement theorem for every key family + its instance for the live one).
correspond : the Gallina model of ctx.TypeContext (Model/Ctx.v) against a real TypeContext on
             (a) prefix trees of ALL operation sequences up to a depth over small sub-families,
             (b) random sequences up to length 40 over the whole family.  Outputs only; memo keys are not observed.
search     : a pure-Python reference dict (the statement of the property, tables by construction, no typelib
             helper involved) against TypeContext on the same sequences + corpus + purity check.
"""
from __future__ import annotations

import json
import os
import random
import re
import typing

import impl
import lib
from lib import coq_bool, coq_list, coq_nat

COQ_TARGETS = ["theories/Proofs/CtxLemmas.vo", "theories/Model/CtxEq.vo", "theories/Props/C16Bridge.vo"]
# notes/bridge.md, "Context bridge": the mechanism model's TypeContext (Model/Build.v: getitem) is what this model says
BRIDGE_THEOREMS = ["C16B_key_laws", "C16B_getitem_is_spec_lookup", "C16B_scan_adds_nothing", "C16B_item", "C16B_get",
                   "C16B_getitem_iff", "C16B_routes_any_history", "C16B_stale_memo", "C16B_second_spelling"]
MOD = "verif_c16_fam"
IMP = "verif_c16_imp"      # a module that merely IMPORTS the family's names (and rebinds each class as RB<i>)
IMP2 = "verif_c16_imp2"    # a second importer (of the classes only)
NOWHERE = "verif_c16_nowhere"   # never imported
NBASE = 3
CORE_FORMS = ["B", "NT", "TA", "SA", "FI", "CV", "FR"]          # the family of the quantifier (+ ClassVar)
EXT_FORMS = ["FRNT", "FRTA", "FRSA"]                             # forward references naming the wrappers
# two-level wrappers: a NewType / alias that only appears after another wrapper has been peeled
#   FIN = Final[NT], CVN = ClassVar[NT], FIT = Final[TA], TAN = alias of NT, NTA = NewType of TA,
#   NTAN = NewType of (alias of NT); and the references naming the named ones
DEEP_FORMS = ["FIN", "CVN", "FIT", "TAN", "NTA", "NTAN"]
DEEP_REFS = ["FRTAN", "FRNTA", "FRNTAN"]
# references written in a module that is not the defining one (ctx.py repair 09bcecf: __missing__ accepts ANY stored
# reference that evaluates to the requested type):  XR = ForwardRef('B', module=IMP), YR = ForwardRef('B', module=IMP2),
# ZR = ForwardRef('RB', module=IMP) (another NAME bound to the class), XRNT / XRSA = the NewType / the string alias
# through the importer, FRFI = ForwardRef('FI', module=MOD): names Final[B] although forwardref(Final[B]) does not
FOREIGN_REFS = ["XR", "YR", "ZR", "XRNT", "XRSA", "FRFI"]
# references that cannot be evaluated: missing name (NameError), module never imported (NameError in an empty
# namespace), missing attribute (AttributeError).  They name nothing and must not raise out of the scan.
NAMELESS_REFS = ["UR", "UM", "UA"]
FORMS = CORE_FORMS + EXT_FORMS + DEEP_FORMS + DEEP_REFS + FOREIGN_REFS + NAMELESS_REFS
NAMING = {"B": "FR", "NT": "FRNT", "TA": "FRTA", "SA": "FRSA", "TAN": "FRTAN", "NTA": "FRNTA", "NTAN": "FRNTAN"}
# form of a reference -> (text of the reference, module it is written in, form of the key it names or None)
REF_FORMS = {"FR": ("B{i}", MOD, "B"), "FRNT": ("NT{i}", MOD, "NT"), "FRTA": ("TA{i}", MOD, "TA"),
             "FRSA": ("SA{i}", MOD, "SA"), "FRTAN": ("TAN{i}", MOD, "TAN"), "FRNTA": ("NTA{i}", MOD, "NTA"),
             "FRNTAN": ("NTAN{i}", MOD, "NTAN"),
             "XR": ("B{i}", IMP, "B"), "YR": ("B{i}", IMP2, "B"), "ZR": ("RB{i}", IMP, "B"),
             "XRNT": ("NT{i}", IMP, "NT"), "XRSA": ("SA{i}", IMP, "SA"), "FRFI": ("FI{i}", MOD, "FI"),
             "UR": ("Gone{i}", MOD, None), "UM": ("B{i}", NOWHERE, None), "UA": ("B{i}.nope", MOD, None)}
DEFAULT = 7          # the default handed to get(); inserted values start at 10
NONE_VAL = 0         # get() without default returns None: encoded as value 0
THEOREMS = ["C16_refines", "C16_keyerror", "C16_stored_found", "C16_lookup_pure",
            "C16_found_iff_named", "C16_which_reference", "C16_first_stored_wins",
            "C16_live_tabs_ok", "C16_instance", "C16_refines_live",
            "C16_unwrap_reaches_base", "C16_wrapper_finds_base",
            "C16_canonical_ref_names_live", "C16_foreign_refs_live", "C16_foreign_ref_finds_type",
            "C16_nameless_refs_live"]


# ----------------------------------------------------------------------------------
# the key family (real Python objects in a real module, so that references resolve)
# ----------------------------------------------------------------------------------

def family_source() -> str:
    src = "import typing\nfrom typelib.py import compat\n"
    for i in range(NBASE):
        src += (f"class B{i}:\n    pass\n"
                f"NT{i} = typing.NewType('NT{i}', B{i})\n"
                f"TA{i} = compat.TypeAliasType('TA{i}', B{i})\n"
                f"SA{i} = compat.TypeAliasType('SA{i}', 'B{i}')\n"
                f"FI{i} = typing.Final[B{i}]\n"
                f"CV{i} = typing.ClassVar[B{i}]\n"
                f"FIN{i} = typing.Final[NT{i}]\n"
                f"CVN{i} = typing.ClassVar[NT{i}]\n"
                f"FIT{i} = typing.Final[TA{i}]\n"
                f"TAN{i} = compat.TypeAliasType('TAN{i}', NT{i})\n"
                f"NTA{i} = typing.NewType('NTA{i}', TA{i})\n"
                f"NTAN{i} = typing.NewType('NTAN{i}', TAN{i})\n")
    return src


def importer_sources():
    """two modules that merely import the names (the second only the classes); IMP also rebinds each class"""
    names = [f"{f}{i}" for i in range(NBASE) for f in ("B", "NT", "TA", "SA", "FI")]
    imp = f"from {MOD} import {', '.join(names)}\n" + "".join(f"RB{i} = B{i}\n" for i in range(NBASE))
    imp2 = f"from {MOD} import {', '.join(f'B{i}' for i in range(NBASE))}\n"
    return imp, imp2


def copy_ref(r):
    """a fresh, unevaluated ForwardRef equal to r (refs.evaluate caches its result ON the reference object)"""
    return typing.ForwardRef(r.__forward_arg__, is_argument=r.__forward_is_argument__,
                             module=r.__forward_module__, is_class=r.__forward_is_class__)


class Family:
    """names -> key objects, and BY CONSTRUCTION (not via typelib) what each key's unwrapped form and
    naming forward reference are: this is what the oracle uses."""

    def __init__(self):
        m = impl.new_module(MOD, family_source())
        imp, imp2 = importer_sources()
        self.importers = [impl.new_module(IMP, imp), impl.new_module(IMP2, imp2)]
        impl.drop_module(NOWHERE)
        self.module = m
        self.names: list[str] = []
        self.obj: dict[str, object] = {}
        self.unwrapped: dict[str, str | None] = {}
        self.naming_ref: dict[str, str | None] = {}      # the reference refs.forwardref builds (defining module)
        self.named_by: dict[str, list[str]] = {}         # every reference of the family that names the key
        self.is_ref: dict[str, bool] = {}
        for i in range(NBASE):
            for f in FORMS:
                n = f"{f}{i}"
                self.names.append(n)
                self.named_by.setdefault(n, [])
                if f in REF_FORMS:
                    text, mod, target = REF_FORMS[f]
                    self.obj[n] = typing.ForwardRef(text.format(i=i), module=mod, is_class=True)
                    self.is_ref[n] = True
                    self.unwrapped[n] = None
                    self.naming_ref[n] = None
                    if target is not None:
                        self.named_by.setdefault(f"{target}{i}", []).append(n)
                else:
                    self.obj[n] = getattr(m, n)
                    self.is_ref[n] = False
                    # a string-valued alias unwraps to the (unevaluated) reference to the named class
                    self.unwrapped[n] = f"FR{i}" if f == "SA" else f"B{i}"
                    # whatever the nesting, the unwrapped form of a wrapper of a plain class is that class
                    self.naming_ref[n] = f"{NAMING[f]}{i}" if f in NAMING else None
        self.core = [n for n in self.names if n.rstrip("0123456789") in CORE_FORMS]
        # references of the family that are not the canonical one of the key they name
        self.foreign = [(r, k) for k in self.names for r in self.named_by[k] if r != self.naming_ref[k]]
        self.nameless = [n for n in self.names if self.form(n) in NAMELESS_REFS]

    def form(self, n: str) -> str:
        return n.rstrip("0123456789")

    def fresh(self) -> dict:
        """key objects for ONE history: every ForwardRef is a new, unevaluated object"""
        return _Fresh(self)


class _Fresh(dict):
    def __init__(self, fam):
        super().__init__()
        self.fam = fam

    def __missing__(self, n):
        o = self.fam.obj[n]
        self[n] = o = copy_ref(o) if self.fam.is_ref[n] else o
        return o


_FAM: Family | None = None


def family() -> Family:
    global _FAM
    if _FAM is None:
        _FAM = Family()
    return _FAM


# ----------------------------------------------------------------------------------
# reflect: ==/hash classes of the keys, live unwrap / forwardref / isinstance tables
# ----------------------------------------------------------------------------------

class Tables:
    def __init__(self, fam: Family):
        from typelib.py import inspection, refs
        impl.clear_caches()
        self.problems: list[str] = []
        self.ids: dict = {}            # key object -> id (a plain dict: exactly the ==/hash a TypeContext uses)
        self.rep: list = []            # id -> representative object
        self.label: list[str] = []
        self.id_of_name: dict[str, int] = {}
        for n in fam.names:
            o = fam.obj[n]
            if o in self.ids:
                self.problems.append(f"family keys {n} and {self.label[self.ids[o]]} compare equal")
            else:
                self._add(o, n)
            self.id_of_name[n] = self.ids[o]
        self.unwrap: list[int] = []
        self.fref: list[int] = []
        self.isref: list[bool] = []
        self.names_info: list[str] = []
        i = 0
        while i < len(self.rep):
            if i > 200:
                self.problems.append("key family does not close under unwrap/forwardref within 200 keys")
                break
            row = self._row(self.rep[i], self.label[i], add=True)
            self.unwrap.append(row[0]); self.fref.append(row[1]); self.isref.append(row[2])
            i += 1
        n = len(self.unwrap)
        self.unwrap = [u if u < n else k for k, u in enumerate(self.unwrap)]
        self.fref = [u if u < n else k for k, u in enumerate(self.fref)]
        # "this reference key evaluates to that type": refs.evaluate(r) IS the key object (ctx._refers_to)
        self.evaluates: list = [self._evaluates(o, self.label[k]) for k, o in enumerate(self.rep)]
        # == must be a congruence for the three functions: equal-but-distinct objects give the same row
        alts = []
        for i in range(NBASE):
            alts += [refs.forwardref(getattr(fam.module, f"B{i}")), typing.ForwardRef(f"B{i}", module=MOD),
                     typing.Final[getattr(fam.module, f"B{i}")], typing.ClassVar[getattr(fam.module, f"B{i}")],
                     inspection.unwrap(getattr(fam.module, f"SA{i}"))]
        self.alt_checked = 0
        for o in alts:
            if o not in self.ids:
                self.problems.append(f"equal-by-construction key {o!r} is not equal to its family member")
                continue
            k = self.ids[o]
            impl.clear_caches()
            row = self._row(o, repr(o), add=False)
            self.alt_checked += 1
            if row != (self.unwrap[k], self.fref[k], self.isref[k]):
                self.problems.append(f"unwrap/forwardref/isinstance do not respect == on {o!r}: {row} vs "
                                     f"{(self.unwrap[k], self.fref[k], self.isref[k])}")
        # ... and for evaluation: an equal reference object (fresh, or already evaluated once) names the same key
        for n in fam.names:
            if fam.is_ref[n]:
                k = self.ids[fam.obj[n]]
                o = copy_ref(fam.obj[n])
                for again in (False, True):
                    self.alt_checked += 1
                    if self._evaluates(o, n, fresh=False) != self.evaluates[k]:
                        self.problems.append(f"refs.evaluate does not respect == on {n} (second evaluation: {again})")

    def _add(self, o, label):
        self.ids[o] = len(self.rep)
        self.rep.append(o)
        self.label.append(label)

    def _evaluates(self, o, label, fresh=True):
        """id of the key object the reference evaluates to, else None"""
        from typelib.py import refs
        if not isinstance(o, refs.ForwardRef):
            return None
        try:
            val = refs.evaluate(copy_ref(o) if fresh else o)
        except Exception as e:
            self.names_info.append(f"{label}: {type(e).__name__}")
            return None
        for k, rep in enumerate(self.rep):
            if val is rep:
                return k
        try:
            if val in self.ids:
                self.names_info.append(f"{label}: evaluates to an object equal but not identical to key {self.ids[val]}")
        except TypeError:
            pass
        return None

    def _row(self, o, label, add):
        from typelib.py import inspection, refs
        isref = isinstance(o, refs.ForwardRef)
        try:
            u = inspection.unwrap(o)
            hash(u)
        except Exception as e:
            self.problems.append(f"inspection.unwrap({label}) raised {e!r}")
            u = o
        try:
            r = refs.forwardref(o)
            hash(r)
        except Exception as e:
            # __missing__ never calls forwardref on a ForwardRef key; for any other key this is unmodelled
            if not isref:
                self.problems.append(f"refs.forwardref({label}) raised {e!r}")
            r = o
        out = []
        for x, tag in ((u, "unwrap"), (r, "fref")):
            if x not in self.ids:
                if add:
                    self._add(x, f"{tag}({label})={x!r}")
                else:
                    out.append(10 ** 6)
                    continue
            out.append(self.ids[x])
        return out[0], out[1], isref

    def coq(self) -> str:
        names = "\n".join(f"Definition k_{n} : nat := {i}." for n, i in self.id_of_name.items())
        fam = family()
        cat = [f"({self.id_of_name[n]}, {self.id_of_name[fam.unwrapped[n]]})" for n in fam.names
               if not fam.is_ref[n] and fam.form(n) != "SA"]
        names += ("\n(* by construction of the family: (wrapper of a plain class at any nesting depth, that class) *)\n"
                  "Definition catalogue : list (nat * nat) :=\n  " + coq_list(cat, "(nat * nat)") + ".")
        named = [str(self.id_of_name[n]) for n in fam.names if fam.naming_ref[n] is not None]
        foreign = [f"({self.id_of_name[r]}, {self.id_of_name[k]})" for r, k in fam.foreign]
        nameless = [str(self.id_of_name[n]) for n in fam.nameless]
        names += ("\n(* by construction: the named keys (classes, NewTypes, aliases) *)\n"
                  "Definition named_keys : list nat :=\n  " + coq_list(named, "nat") + ".\n"
                  "(* by construction: (reference that is not forwardref(key) -- written in an importing module, or "
                  "under another name -- , the key it names) *)\n"
                  "Definition foreign_refs : list (nat * nat) :=\n  " + coq_list(foreign, "(nat * nat)") + ".\n"
                  "(* by construction: references that cannot be evaluated *)\n"
                  "Definition nameless_refs : list nat :=\n  " + coq_list(nameless, "nat") + ".")
        labels = "\n".join(f"   {i}: {l}" for i, l in enumerate(self.label)).replace("(*", "( *").replace("*)", "* )")
        return ("(* generated on this run from the imported typelib: key ids = Python ==/hash classes;\n"
                "   t_unwrap = inspection.unwrap, t_fref = refs.forwardref, t_isref = isinstance(_, refs.ForwardRef),\n"
                "   t_names = the key that refs.evaluate(_) IS (None: raises / no key of the family / not a reference)\n"
                + labels + " *)\n"
                "From Coq Require Import List. Import ListNotations.\nRequire Import TL.Model.CtxEq.\n"
                "Definition live : tabs := {|\n  t_unwrap := %s;\n  t_fref := %s;\n  t_isref := %s;\n  t_names := %s |}.\n%s\n" % (
                    coq_list([str(x) for x in self.unwrap], "nat"), coq_list([str(x) for x in self.fref], "nat"),
                    coq_list([coq_bool(x) for x in self.isref], "bool"),
                    coq_list(["None" if x is None else f"Some {x}" for x in self.evaluates], "(option nat)"), names))


_TAB: Tables | None = None


def tables() -> Tables:
    global _TAB
    if _TAB is None:
        _TAB = Tables(family())
    return _TAB


def prove(run: lib.Run):
    run.check_props("Props/C16Bridge.v", BRIDGE_THEOREMS)
    fam, tab = family(), tables()
    run.oblige("reflect:key family has distinct ==-classes, closes under unwrap/forwardref, == is a congruence",
               not tab.problems, "; ".join(tab.problems[:4]))
    # the by-construction tables of the oracle and the live tables describe the same family (information for the
    # report: a difference is not by itself a violation, the oracle then finds the sequence that shows it)
    diff = []
    for n in fam.names:
        k = tab.id_of_name[n]
        if fam.is_ref[n] != tab.isref[k]:
            diff.append(f"isinstance({n}, ForwardRef) = {tab.isref[k]}")
        if not fam.is_ref[n]:
            if tab.unwrap[k] != tab.id_of_name[fam.unwrapped[n]]:
                diff.append(f"unwrap({n}) = {tab.label[tab.unwrap[k]]}, statement: {fam.unwrapped[n]}")
            nr = fam.naming_ref[n]
            if nr is not None and tab.fref[k] != tab.id_of_name[nr]:
                diff.append(f"forwardref({n}) = {tab.label[tab.fref[k]]}, statement: {nr}")
        else:
            want = [k for k in fam.names if n in fam.named_by[k]]
            got = tab.evaluates[k]
            if (tab.id_of_name[want[0]] if want else None) != got:
                diff.append(f"evaluate({n}) is {tab.label[got] if got is not None else 'nothing of the family'}, "
                            f"statement: {want[0] if want else 'names nothing'}")
    if diff:
        run.notes.append("live unwrap/forwardref/evaluate differ from the statement's reading on: " + "; ".join(diff[:6]))
    run.extra_cov["key_tables"] = {"keys": len(tab.rep), "family": len(fam.names), "labels": tab.label,
                                   "unwrap": tab.unwrap, "fref": tab.fref, "isref": tab.isref,
                                   "evaluates_to": tab.evaluates, "evaluate_info": tab.names_info[:40],
                                   "foreign_refs": len(fam.foreign), "nameless_refs": len(fam.nameless),
                                   "equal_object_rows_checked": tab.alt_checked, "differs_from_statement": diff}
    ok = run.compile_dyn("GenCtxTables.v", text=tab.coq())
    if ok:
        ok2 = run.compile_dyn("C16.v", src=os.path.join(lib.DYN, "C16", "C16.v"), theorems=THEOREMS)
        if ok2 and run.tier == "thorough":
            rc, out, err = lib.sh(["coqchk", "-o", "-silent", "-Q", lib.THEORIES, "TL", "-Q", run.build, "TLRun",
                                   "TLRun.C16"], timeout=900, cwd=run.build)
            m = re.search(r"\* Axioms:\s*(.*?)\n\s*\n", out + err, flags=re.S)
            axioms = m.group(1).strip() if m else "(no summary)"
            run.oblige("coqchk:-o TLRun.C16 (axioms: <none>)", rc == 0 and axioms == "<none>", (out + err)[-400:])
            run.extra_cov["coqchk_axioms"] = axioms
            run.checker_cmds.append("coqchk -o -Q coq/theories TL -Q build/C16/thorough TLRun TLRun.C16")
    else:
        for t in THEOREMS:
            run.oblige(f"theorem:{t}", False, "GenCtxTables.v does not compile")
    run.assumptions += [
        "C16: Python dict semantics (==/hash lookup, insertion keeps the first equal key) is the association list of "
        "Model/Ctx.v; keys are the ==/hash classes computed by the harness with a plain dict",
        "C16: inspection.unwrap / refs.forwardref / isinstance(_, ForwardRef) / refs.evaluate(_) is key enter as tables "
        "read from the import on this run (closed family); the theorem itself holds for every family satisfying key_laws",
        "C16: iterating a dict visits the keys in insertion order (the association list of Model/Ctx.v in list order)",
        "C16: model fuel 64 stands for the interpreter's recursion limit; under key_laws 1 frame suffices",
    ]


# ----------------------------------------------------------------------------------
# operations, the implementation, the reference (= the statement)
# ----------------------------------------------------------------------------------
# op = ["set", key, value] | ["item", key] | ["get", key, default] | ["get0", key] | ["in", key]

def impl_do(c, objs, o):
    k = objs[o[1]]
    try:
        if o[0] == "set":
            c[k] = o[2]
            return ["unit"]
        if o[0] == "item":
            v = c[k]
        elif o[0] == "get":
            v = c.get(k, o[2])
        elif o[0] == "get0":
            v = c.get(k)
            if v is None:
                return ["val", NONE_VAL]
        elif o[0] == "in":
            r = k in c
            return ["bool", r] if isinstance(r, bool) else ["other", repr(r)]
        else:
            raise AssertionError(o)
        if type(v) is int:
            return ["val", v]
        return ["other", repr(v)]
    except KeyError:
        return ["keyerror"]
    except RecursionError:
        return ["recursion"]
    except Exception as e:  # anything else is outside the model and the statement
        return ["other", type(e).__name__]


ABNORMAL = {"n": 0}      # observations that are neither value, KeyError, bool nor unit (e.g. RecursionError)
ABNORMAL_LIMIT = 300     # such observations are slow (1000 frames each) and all mismatch anyway: stop generating


def impl_run(fam: Family, ops):
    from typelib import ctx
    c = ctx.TypeContext()
    objs = fam.fresh()       # new, unevaluated ForwardRef objects for every history
    out = [impl_do(c, objs, o) for o in ops]
    ABNORMAL["n"] += sum(1 for g in out if g[0] in ("recursion", "other"))
    return out


class RefCtx:
    """The statement of C16 as a program: a write-once dict; a lookup finds, in this order, the value stored
    under the key itself, under its unwrapped form, under a forward reference naming it -- the one written in
    the defining module (what refs.forwardref builds) if stored, otherwise the naming reference inserted FIRST,
    whatever module it was written in.  A ForwardRef key has no fallback.  A reference that cannot be evaluated
    names nothing.  Lookups do not change anything."""

    def __init__(self, fam: Family, d=None, order=()):
        self.fam = fam
        self.d = dict(d or {})          # key object -> value  (Python ==/hash, as the property says "dict")
        self.order = list(order)        # names of the inserted keys, in insertion order

    def insert(self, n, v):
        k = self.fam.obj[n]
        assert k not in self.d, "write-once"
        r = RefCtx(self.fam, self.d, self.order)
        r.d[k] = v
        r.order.append(n)
        return r

    def route(self, n):
        """(value, 'direct'|'unwrap'|'ref'|'foreign') or (None, 'miss')"""
        fam = self.fam
        if fam.obj[n] in self.d:
            return self.d[fam.obj[n]], "direct"
        if not fam.is_ref[n]:
            for alt, how in ((fam.unwrapped[n], "unwrap"), (fam.naming_ref[n], "ref")):
                if alt is not None and fam.obj[alt] in self.d:
                    return self.d[fam.obj[alt]], how
            for stored in self.order:
                if stored in fam.named_by[n]:
                    return self.d[fam.obj[stored]], "foreign"
        return None, "miss"

    def stored(self, n):
        return self.fam.obj[n] in self.d

    def expect(self, o):
        """what the statement requires op o to show; None = the statement does not say"""
        if o[0] == "set":
            return ["unit"]
        if o[0] == "in":
            return ["bool", True] if self.stored(o[1]) else None
        v, how = self.route(o[1])
        if o[0] == "item":
            return ["keyerror"] if how == "miss" else ["val", v]
        if o[0] == "get":
            return ["val", o[2]] if how == "miss" else ["val", v]
        if o[0] == "get0":
            return ["val", NONE_VAL] if how == "miss" else ["val", v]
        raise AssertionError(o)

    def allowed(self, o):
        """the histories of the quantifier (+ `in` for wholly absent keys, used by the model tie only)"""
        if o[0] == "set":
            return not self.stored(o[1])
        if o[0] == "in":
            return self.stored(o[1]) or self.route(o[1])[1] == "miss"
        return True

    def after(self, o):
        return self.insert(o[1], o[2]) if o[0] == "set" else self


def ref_run(fam: Family, ops):
    """[(expected or None, route)] ; raises ValueError when the history is outside the quantifier"""
    r = RefCtx(fam)
    out = []
    for o in ops:
        if not r.allowed(o):
            raise ValueError(f"op {o} not allowed here")
        out.append((r.expect(o), r.route(o[1])[1] if o[0] != "set" else "set"))
        r = r.after(o)
    return out


def check_seq(fam: Family, ops, obs=None):
    """the oracle on one history: list of failures (index, got, expected)"""
    try:
        exp = ref_run(fam, ops)
    except ValueError:
        return []
    if obs is None:
        obs = impl_run(fam, ops)
    fails = []
    for i, ((e, how), g) in enumerate(zip(exp, obs)):
        if e is not None and g[:2] != e:
            fails.append({"index": i, "op": ops[i], "got": g, "expected": e, "route": how})
    return fails


def check_purity(fam: Family, ops):
    """a lookup never changes the result of any later lookup: the last operation shows the same with all the
    earlier lookups removed"""
    if not ops or ops[-1][0] == "set":
        return []
    full = impl_run(fam, ops)[-1]
    bare_ops = [o for o in ops[:-1] if o[0] == "set"] + [ops[-1]]
    bare = impl_run(fam, bare_ops)[-1]
    if ops[-1][0] == "in":
        try:
            ex = ref_run(fam, ops)[-1][0]
        except ValueError:
            return []
        if ex is None:
            return []
    if full != bare:
        return [{"index": len(ops) - 1, "op": ops[-1], "got": full, "expected": bare,
                 "route": "purity: same operation after the insertions only", "bare_ops": bare_ops}]
    return []


# ----------------------------------------------------------------------------------
# generators
# ----------------------------------------------------------------------------------

def scenarios(tier: str):
    """(name, keys, op kinds, depth): every allowed sequence up to depth over the alphabet keys x kinds"""
    if tier == "thorough":
        return [
            ("newtype+ref", ["B0", "NT0", "FR0"], ["set", "item", "get"], 6),
            ("newtype+namingref", ["B0", "NT0", "FRNT0"], ["set", "item", "get"], 6),
            ("stralias", ["SA0", "FR0", "B0"], ["set", "item", "get"], 6),
            ("alias+final", ["B0", "TA0", "FI0"], ["set", "item", "get"], 6),
            ("classvar+stralias-ref", ["CV0", "SA0", "FRSA0", "FR0"], ["set", "item"], 6),
            ("membership", ["B0", "NT0", "FR0", "SA0"], ["set", "item", "in"], 5),
            ("two-bases", ["B0", "NT0", "B1", "NT1", "FR1"], ["set", "item", "get0"], 5),
            ("all-forms", ["B0", "NT0", "TA0", "SA0", "FI0", "CV0", "FR0", "FRNT0", "FRTA0", "FRSA0"],
             ["set", "item"], 4),
            ("two-level", ["B0", "NT0", "FIN0"], ["set", "item", "get"], 6),
            ("two-level-alias", ["B0", "TAN0", "NTAN0", "FRTAN0"], ["set", "item"], 6),
            ("two-level-all", ["B0", "NT0", "TA0", "FIN0", "CVN0", "FIT0", "TAN0", "NTA0", "NTAN0", "FRTAN0",
                               "FRNTA0", "FRNTAN0"], ["set", "item"], 4),
            ("foreign-two-refs", ["B0", "XR0", "YR0"], ["set", "item", "get"], 6),
            ("foreign+canonical", ["B0", "FR0", "XR0", "ZR0"], ["set", "item"], 6),
            ("foreign-wrappers", ["B0", "NT0", "XR0", "XRNT0"], ["set", "item"], 6),
            ("foreign-nameless", ["B0", "UR0", "XR0", "UA0", "YR0"], ["set", "item"], 5),
            ("foreign-stralias", ["SA0", "FR0", "XR0", "XRSA0", "FI0", "FRFI0"], ["set", "item"], 5),
            ("foreign-all", ["B0", "NT0", "SA0", "FI0", "FR0", "XR0", "YR0", "ZR0", "XRNT0", "XRSA0", "FRFI0",
                             "UR0", "UM0", "UA0"], ["set", "item"], 4),
        ]
    return [
        ("newtype+refs", ["B0", "NT0", "FR0", "FRNT0"], ["set", "item", "get"], 4),
        ("stralias", ["SA0", "FR0", "B0", "FRSA0"], ["set", "item", "get"], 4),
        ("alias+final+classvar", ["B0", "TA0", "FI0", "CV0"], ["set", "item", "in"], 4),
        ("membership", ["B0", "NT0", "FR0", "SA0"], ["set", "item", "in"], 4),
        ("two-bases", ["B0", "NT0", "B1", "FR1"], ["set", "get0", "in"], 4),
        ("all-forms", ["B0", "NT0", "TA0", "SA0", "FI0", "CV0", "FR0", "FRNT0", "FRTA0", "FRSA0"],
         ["set", "item"], 3),
        ("two-level", ["B0", "NT0", "FIN0", "TAN0"], ["set", "item", "get"], 4),
        ("two-level-all", ["B0", "NT0", "TA0", "FIN0", "CVN0", "FIT0", "TAN0", "NTA0", "NTAN0", "FRTAN0", "FRNTAN0"],
         ["set", "item"], 3),
        # references through a non-defining module: both insertion orders of two naming references, the canonical
        # reference against an earlier foreign one, wrappers, references that cannot be evaluated
        ("foreign-two-refs", ["B0", "XR0", "YR0", "FR0"], ["set", "item", "get"], 4),
        ("foreign-wrappers", ["B0", "NT0", "XR0", "XRNT0", "ZR0"], ["set", "item"], 4),
        ("foreign-nameless", ["B0", "UR0", "XR0", "UA0", "UM0"], ["set", "item", "in"], 4),
        ("foreign-all", ["B0", "NT0", "SA0", "FI0", "FR0", "XR0", "YR0", "ZR0", "XRNT0", "XRSA0", "FRFI0",
                         "UR0", "UM0", "UA0"], ["set", "item"], 3),
    ]


def mk_op(kind, key, depth):
    if kind == "set":
        return ["set", key, 10 + depth]
    if kind == "get":
        return ["get", key, DEFAULT]
    return [kind, key]


def enum_tree(fam: Family, keys, kinds, depth, stats):
    """Prefix tree of all allowed sequences; node = [op, observed, expected-or-None, route, kids].
    Every node's observation is taken from a fresh TypeContext on which the whole path is executed."""
    alphabet = [(kind, k) for k in keys for kind in kinds]

    def rec(path, ref: RefCtx, d):
        kids = []
        for kind, k in alphabet:
            if ABNORMAL["n"] > ABNORMAL_LIMIT:
                stats["truncated"] = True
                break
            o = mk_op(kind, k, d)
            if not ref.allowed(o):
                continue
            p2 = path + [o]
            obs = impl_run(fam, p2)[-1]
            node = [o, obs, ref.expect(o), "set" if kind == "set" else ref.route(k)[1], []]
            stats["nodes"] += 1
            if d + 1 < depth:
                node[4] = rec(p2, ref.after(o), d + 1)
            kids.append(node)
        return kids

    return rec([], RefCtx(fam), 0)


def random_seq(fam: Family, rng: random.Random, maxlen: int, pool=None):
    """an allowed history over a focus subset of the family (so that aliases and their targets meet)"""
    n = rng.randint(1, maxlen)
    if pool is None:
        nb = rng.choice([1, 1, 2, 3])
        bases = rng.sample(range(NBASE), nb)
        pool = [k for k in fam.names if int(k[-1]) in bases]
        u = rng.random()
        if u < 0.3:      # focus: the types and every reference naming them (any module), unevaluable ones between
            keep = ["B", "NT", "SA", "FI", "FR", "FRNT", "FRSA"] + FOREIGN_REFS + NAMELESS_REFS
            pool = [k for k in pool if fam.form(k) in keep]
            pool = rng.sample(pool, rng.randint(3, len(pool)))
        elif u < 0.65:
            pool = rng.sample(pool, rng.randint(2, min(len(pool), 14)))
    ref = RefCtx(fam)
    ops = []
    for i in range(n):
        for _ in range(20):
            kind = rng.choices(["set", "item", "get", "get0", "in"], [30, 35, 15, 5, 15])[0]
            key = rng.choice(pool)
            if kind in ("item", "get", "get0") and rng.random() < 0.4:
                # half of the lookups: a key that some fallback route reaches (aliases and references meet)
                reach = [k for k in pool if ref.route(k)[1] not in ("miss", "direct")]
                if reach:
                    key = rng.choice(reach)
            o = mk_op(kind, key, i)
            if ref.allowed(o):
                break
        else:
            o = ["item", rng.choice(pool)]
        ops.append(o)
        ref = ref.after(o)
    return ops


def memo_observing_seq(fam: Family, rng: random.Random, maxlen: int):
    """histories OUTSIDE the quantifier (overwrites, `in` on alias keys): information only"""
    pool = [k for k in fam.names if k.endswith("0")]
    ops = []
    for i in range(rng.randint(2, maxlen)):
        kind = rng.choices(["set", "item", "get", "in"], [35, 35, 10, 20])[0]
        ops.append(mk_op(kind, rng.choice(pool), i))
    return ops


# ----------------------------------------------------------------------------------
# emission
# ----------------------------------------------------------------------------------

def emit_op(tab: Tables, o) -> str:
    k = tab.id_of_name[o[1]]
    if o[0] == "set":
        return f"OSet {k} {o[2]}"
    if o[0] == "item":
        return f"OItem {k}"
    if o[0] == "get":
        return f"OGet {k} {o[2]}"
    if o[0] == "get0":
        return f"OGet {k} {NONE_VAL}"
    return f"OIn {k}"


def emit_out(g) -> str:
    if g[0] == "val" and 0 <= g[1] < 4000:
        return f"OVal {g[1]}"
    if g[0] == "keyerror":
        return "OKeyError"
    if g[0] == "bool":
        return f"OBool {coq_bool(g[1])}"
    if g[0] == "unit":
        return "OUnit"
    return "OOther"


def emit_tree(tab: Tables, node, index: list, path):
    """Coq term of a tree node; appends (path) of every node in preorder to index"""
    p2 = path + [node[0]]
    index.append((p2, node[1]))
    kids = "; ".join(emit_tree(tab, k, index, p2) for k in node[4])
    return f"T ({emit_op(tab, node[0])}) ({emit_out(node[1])}) [{kids}]"


def count_nodes(node):
    return 1 + sum(count_nodes(k) for k in node[4])


HDR = ("From Coq Require Import List NArith. Import ListNotations.\n"
       "Require Import TL.Model.Ctx TL.Model.CtxEq TLRun.GenCtxTables.\n")


def shard_trees(tab: Tables, roots, limit):
    """split a forest into files of <= limit nodes: a too-large tree is cut below its root (the root is
    repeated as a one-child spine in every piece)"""
    shards, cur, cur_n = [], [], 0

    def push(node, n):
        nonlocal cur, cur_n
        if cur and cur_n + n > limit:
            shards.append(cur)
            cur, cur_n = [], 0
        cur.append(node)
        cur_n += n

    def split(node, spine):
        n = count_nodes(node)
        if n <= limit or not node[4]:
            t = node
            for s in reversed(spine):
                t = [s[0], s[1], s[2], s[3], [t]]
            push(t, n + len(spine))
        else:
            leaf = [node[0], node[1], node[2], node[3], []]
            if not spine:
                push(leaf, 1)
            for k in node[4]:
                split(k, spine + [leaf])

    for r in roots:
        split(r, [])
    if cur:
        shards.append(cur)
    return shards


def parse_forest_result(s: str):
    """'(123%N, [1%N; 5%N])' -> (123, [1, 5])"""
    s = s.strip()
    assert s.startswith("(") and s.endswith(")"), s
    a, b = s[1:-1].split(",", 1)
    n = int(a.strip().replace("%N", ""))
    b = b.strip()
    bad = [] if b in ("[]", "nil") else [int(x.strip().replace("%N", "")) for x in b.strip("[]").split(";") if x.strip()]
    return n, bad


# ----------------------------------------------------------------------------------
# correspondence
# ----------------------------------------------------------------------------------

def gather(run: lib.Run):
    """implementation observations shared by correspond() and search(): trees and random sequences"""
    if getattr(run, "_c16", None) is not None:
        return run._c16
    fam = family()
    rng = random.Random(run.seed)
    trees = []
    for name, keys, kinds, depth in scenarios(run.tier):
        impl.clear_caches()
        st = {"nodes": 0}
        roots = enum_tree(fam, keys, kinds, depth, st)
        trees.append({"name": name, "keys": keys, "kinds": kinds, "depth": depth, "roots": roots, "nodes": st["nodes"]})
        run.log(f"tree {name}: depth {depth}, {st['nodes']} nodes")
        if st.get("truncated"):
            run.notes.append(f"tree {name} truncated: more than {ABNORMAL_LIMIT} abnormal observations (RecursionError/other)")
    nrand = run.budget(1500, 20000)
    seqs = []
    for fn, c in corpus_cases():        # corpus first
        impl.clear_caches()
        try:
            ref_run(fam, c["ops"])
        except ValueError:
            run.notes.append(f"corpus/{fn} is outside the quantifier: not used for the model tie")
            continue
        seqs.append((c["ops"], impl_run(fam, c["ops"])))
    for i in range(nrand):
        if ABNORMAL["n"] > 3 * ABNORMAL_LIMIT:
            run.notes.append("random sequences truncated: too many abnormal observations")
            break
        impl.clear_caches()
        ops = random_seq(fam, rng, 40 if i % 4 else 12)
        seqs.append((ops, impl_run(fam, ops)))
    memo = []
    for i in range(run.budget(200, 1000)):
        ops = memo_observing_seq(fam, rng, 12)
        memo.append((ops, impl_run(fam, ops)))
    run._c16 = {"trees": trees, "seqs": seqs, "memo": memo}
    return run._c16


def seq_file(tab: Tables, seqs, okfn) -> str:
    cases = ["(%s, %s)" % (coq_list([emit_op(tab, o) for o in ops], "kop"),
                           coq_list([emit_out(g) for g in obs], "kout")) for ops, obs in seqs]
    return (HDR + "Definition cases : list seq_case :=\n [ " + ";\n   ".join(cases) + " ].\n"
            f"Eval vm_compute in mismatches ({okfn} live) cases.\n")


def correspond(run: lib.Run):
    fam, tab = family(), tables()
    if not os.path.exists(os.path.join(run.build, "GenCtxTables.vo")):
        run.record_corr("ctx-trees", 0, [{"error": "key tables did not compile"}], 0, {})
        return
    data = gather(run)

    # (a) prefix trees
    files, indexes = {}, {}
    dist = {"scenario_nodes": {}, "op": {}, "route": {}, "observed": {}}
    total = 0
    limit = run.budget(6000, 12000)

    def tally(node):
        dist["op"][node[0][0]] = dist["op"].get(node[0][0], 0) + 1
        dist["route"][node[3]] = dist["route"].get(node[3], 0) + 1
        dist["observed"][node[1][0]] = dist["observed"].get(node[1][0], 0) + 1
        for k in node[4]:
            tally(k)

    for t in data["trees"]:
        dist["scenario_nodes"][f"{t['name']} keys={','.join(t['keys'])} ops={','.join(t['kinds'])} depth={t['depth']}"] = t["nodes"]
        total += t["nodes"]
        for r in t["roots"]:
            tally(r)
        for si, shard in enumerate(shard_trees(tab, t["roots"], limit)):
            index: list = []
            terms = [emit_tree(tab, n, index, []) for n in shard]
            fn = f"cases_tree_{t['name'].replace('+', '_').replace('-', '_')}_{si}.v"
            files[fn] = (HDR + "Definition forest : list tr :=\n [ " + ";\n   ".join(terms) + " ].\n"
                         "Eval vm_compute in forest_mismatches live forest.\n")
            indexes[fn] = index
    res = run.coq_eval_many(files, timeout=900)
    bad, visited = [], 0
    for fn, r in res.items():
        if r is None:
            run.oblige(f"evaluate:{fn}", False, "model evaluation did not compile")
            bad.append({"file": fn, "error": "model evaluation failed"})
            continue
        n, idx = parse_forest_result(r[-1])
        visited += n
        if n != len(indexes[fn]):
            bad.append({"file": fn, "error": f"walk visited {n} nodes, emitted {len(indexes[fn])}"})
        for i in idx:
            path, obs = indexes[fn][i]
            bad.append({"layer": "tree", "ops": path, "observed_last": obs})
    nontriv = sum(v for k, v in dist["route"].items() if k not in ("set",))
    dist["files"] = len(files)
    dist["nodes_walked_in_coq"] = visited
    dist["rule"] = ("one case = one node of the prefix tree of all allowed sequences (op at the node, output observed "
                    "after executing the whole path on a fresh TypeContext); non-trivial = lookup/membership nodes")
    run.record_corr("ctx-trees", total, bad, nontriv, dist)
    run._c16_bad_tree = [b["ops"] for b in bad if "ops" in b]

    # (b) random sequences (model), and the same against the specification where the guard holds
    seqs = data["seqs"]
    files2 = {}
    for s in range(0, len(seqs), 500):
        files2[f"cases_seq_{s // 500}.v"] = seq_file(tab, seqs[s:s + 500], "seq_case_ok")
    res2 = run.coq_eval_many(files2, timeout=900)
    bad2 = []
    for fn, r in res2.items():
        s0 = int(fn.split("_")[-1][:-2]) * 500
        if r is None:
            run.oblige(f"evaluate:{fn}", False, "model evaluation did not compile")
            bad2.append({"file": fn, "error": "model evaluation failed"})
            continue
        for j in lib.parse_nat_list(r[-1]):
            ops, obs = seqs[s0 + j]
            bad2.append({"layer": "seq", "ops": ops, "observed": obs})
    d2 = {"length": {}, "op": {}, "route": {}, "observed": {}}
    distinct = set()
    for ops, obs in seqs:
        b = f"{(len(ops) - 1) // 10 * 10 + 1}-{(len(ops) - 1) // 10 * 10 + 10}"
        d2["length"][b] = d2["length"].get(b, 0) + 1
        distinct.add(json.dumps(ops))
        for o, g, (e, how) in zip(ops, obs, ref_run(fam, ops)):
            d2["op"][o[0]] = d2["op"].get(o[0], 0) + 1
            d2["route"][how] = d2["route"].get(how, 0) + 1
            d2["observed"][g[0]] = d2["observed"].get(g[0], 0) + 1
    d2["rule"] = "one case = one random allowed history (length 1..40, focus on 1-3 bases); non-trivial = distinct"
    run.record_corr("ctx-sequences", len(seqs), bad2, len(distinct), d2)
    run._c16_bad_seq = [b["ops"] for b in bad2 if "ops" in b]
    run.samples.append({"sequence": seqs[0][0], "observed": seqs[0][1]})

    # (c) information only: histories outside the quantifier, where memo entries are visible
    memo = data["memo"]
    r3 = run.coq_eval("cases_memo_info.v", seq_file(tab, memo, "seq_case_ok"))
    run.extra_cov["memo_observing_histories"] = {
        "note": "outside the property (overwrites, `in` on alias keys); does not affect the verdict",
        "cases": len(memo), "mismatches": None if r3 is None else len(lib.parse_nat_list(r3[-1]))}


# ----------------------------------------------------------------------------------
# the property oracle on the implementation
# ----------------------------------------------------------------------------------

def shrink(fam: Family, ops, fails_fn):
    """drop operations while some operation still fails"""
    ops = list(ops)
    changed = True
    while changed:
        changed = False
        for i in range(len(ops) - 1, -1, -1):
            cand = ops[:i] + ops[i + 1:]
            try:
                ref_run(fam, cand)
            except ValueError:
                continue
            if cand and fails_fn(cand):
                ops = cand
                changed = True
    return ops


def corpus_cases():
    d = os.path.join(lib.VERIF, "corpus", "C16")
    out = []
    if os.path.isdir(d):
        for fn in sorted(os.listdir(d)):
            if fn.endswith(".json"):
                out.append((fn, json.load(open(os.path.join(d, fn)))))
    return out


def tree_paths(roots, path=()):
    for n in roots:
        p = path + (n,)
        yield p
        yield from tree_paths(n[4], p)


def search(run: lib.Run, broken):
    fam = family()
    fails, nev, nontriv = [], 0, 0
    routes = {}

    def report(ops, f, source):
        def still(cand):
            return bool(check_seq(fam, cand)) if "bare_ops" not in f else bool(check_purity(fam, cand))
        small = shrink(fam, ops[: f["index"] + 1], still)
        ff = (check_seq(fam, small) or check_purity(fam, small) or [f])[0]
        fails.append({"ops": small, "failure": ff, "source": source, "symptom": f"{ff['op'][0]} shows {ff['got']}, "
                      f"the statement requires {ff['expected']} (route: {ff['route']})",
                      "key": json.dumps(small)})

    # corpus first
    for fn, c in corpus_cases():
        impl.clear_caches()
        nev += 1
        for f in check_seq(fam, c["ops"])[:1] + check_purity(fam, c["ops"])[:1]:
            report(c["ops"], f, f"corpus/{fn}")
    # disagreeing correspondence cases next
    for ops in (getattr(run, "_c16_bad_tree", []) + getattr(run, "_c16_bad_seq", []))[:50]:
        impl.clear_caches()
        for f in check_seq(fam, ops)[:1]:
            report(ops, f, "correspondence mismatch")
    # the trees and sequences already observed
    data = gather(run)
    for t in data["trees"]:
        for p in tree_paths(t["roots"]):
            n = p[-1]
            nev += 1
            routes[n[3]] = routes.get(n[3], 0) + 1
            if n[2] is not None:
                nontriv += n[3] != "set"
                if n[1][:2] != n[2] and len(fails) < 40:
                    ops = [x[0] for x in p]
                    report(ops, {"index": len(ops) - 1, "op": n[0], "got": n[1], "expected": n[2], "route": n[3]},
                           f"tree {t['name']}")
    for ops, obs in data["seqs"]:
        nev += 1
        nontriv += 1
        if len(fails) < 40:
            for f in check_seq(fam, ops, obs)[:1]:
                report(ops, f, "random sequence")
    # purity, directly; harder when something broke
    rng = random.Random(run.seed + 2)
    npure = run.budget(400, 4000) * (3 if broken else 1)
    for i in range(npure):
        if ABNORMAL["n"] > 6 * ABNORMAL_LIMIT:
            break
        if i % 50 == 0:
            impl.clear_caches()
        ops = random_seq(fam, rng, 30)
        nev += 1
        if len(fails) < 40:
            for f in check_purity(fam, ops)[:1]:
                report(ops, f, "purity")
            if broken:
                for f in check_seq(fam, ops)[:1]:
                    report(ops, f, "random sequence (extra)")
    # keep the shortest failure per symptom kind
    best = {}
    for f in fails:
        k = (f["failure"]["op"][0], f["failure"]["got"][0], f["failure"]["route"].split(":")[0])
        if k not in best or len(f["ops"]) < len(best[k]["ops"]):
            best[k] = f
    out = sorted(best.values(), key=lambda f: len(f["ops"]))
    run.search_stats["oracle"] = {
        "evaluations": nev, "distinct_nontrivial": nontriv, "failures": len(fails), "routes": routes,
        "purity_histories": npure, "corpus": len(corpus_cases()),
        "rule": "reference dict (statement; unwrapped form / naming references -- defining module first, then "
                "insertion order -- by construction of the family) against "
                "TypeContext on every tree node and random history of the correspondence, the corpus, and the "
                "purity check (last operation unchanged when all earlier lookups are removed); `in` is judged "
                "for stored keys only",
    }
    if out:
        run.samples.append({"oracle_failure": out[0]})
    return out


# ----------------------------------------------------------------------------------
# known findings / replay
# ----------------------------------------------------------------------------------

def replay(payload):
    fam = family()
    impl.clear_caches()
    ops = payload["ops"]
    fs = check_seq(fam, ops) + check_purity(fam, ops)
    return {"fails": bool(fs), "ops": ops, "observed": impl_run(fam, ops),
            "required": [e for e, _ in ref_run(fam, ops)], "failures": fs}


def reproduces(entry):
    return replay(entry["replay"])["fails"]


def matches(entry, failure):
    m = entry.get("matches", {})
    return bool(m) and all(failure.get(k) == v for k, v in m.items())
