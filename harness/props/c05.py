"""C05 -- nested members are converted by their own type's rules (DESIGN 7/C05).

Theorems (Props/C05.v): the mechanism (context filled along graph.static_order, dispatch, member lookups,
delayed proxies: Model/Build.v) computes the compositional reference semantics (Model/Core.v: unm / mar).
Tie: the mechanism model is run along the node order OBSERVED on the implementation and compared with the
implementation's results and with the reference semantics; the oracle checks the statement one level deep
on the implementation with member routines obtained by independent factory calls, and then again at every
composite member (every nesting depth).
Round 3 (harness/c05_strata.py, notes/C05.md): member inputs that are distinct but ==/hash-equal inside one
composite value, and call histories on one cached routine (no cache cleared between the calls), in the
correspondence and in the oracle; Props/C05.v states what the model says about histories.
Round 4 (harness/c05_modules.py): one class environment spread over two / three synthesised modules that use the
SAME class names, every pair of revisit shapes (cycle / diamond / once), reached from one root.
"""
from __future__ import annotations

import json
import random
import warnings

import bridgetie
import c05_modules
import c05_strata
import coregen
import coremodel
import coreprop
import impl
import lib
import dispatchtie
import routasttie
import iotie
import universe

COQ_TARGETS = ["theories/Props/C05.vo", "theories/Props/C05Bridge.vo", "theories/Model/BuildTables.vo",
               "theories/Model/CoreTables.vo", "theories/Model/GraphBridgeEq.vo"]
COQ_TARGETS = COQ_TARGETS + [t for t in dispatchtie.COQ_TARGETS if t not in COQ_TARGETS]
COQ_TARGETS = COQ_TARGETS + [t for t in iotie.COQ_TARGETS if t not in COQ_TARGETS]
COQ_TARGETS = COQ_TARGETS + [t for t in routasttie.COQ_TARGETS if t not in COQ_TARGETS]
THEOREMS = ["C05_build_routes", "C05_unmarshal", "C05_marshal", "C05_unmarshal_complete", "C05_marshal_complete", "C05_unmarshal_equiv", "C05_marshal_equiv", "C05_mechanism_fuel_monotone", "C05_complete_refuted_without_strict_roots",
            "C05_unmarshal_history", "C05_marshal_history", "C05_history_position_independent"]
BRIDGE_THEOREMS = ["C05_contract_from_graph", "C05_contract_from_graph_env", "C05_root_from_graph",
                   "C05_orders_contract_from_graph", "C05_unmarshal_from_graph", "C05_marshal_from_graph",
                   "C07_build_total_from_graph", "C07_all_depths_from_graph", "C15_construction_total_from_graph",
                   "C05_topo_check_sound", "C05_refs_ok_from_names", "C05_names_check_sound",
                   "C05_contract_refuted_any_not_passthrough", "C05_contract_refuted_wrong_resolver"]


def prove(run: lib.Run):
    run.check_props("Props/C05.v", THEOREMS)
    # the order contract is a theorem of C09's graph model (notes/bridge.md)
    run.check_props("Props/C05Bridge.v", BRIDGE_THEOREMS)
    run.assumptions += [
        "C05: graph.static_order enters the theorem as an arbitrary node order satisfying the C09 contract "
        "(order_ok); the observed order is fed to the model in the tie and checked against order_ok there",
        "C05: scalar (leaf) routines, serdes.load and iteration over scalars are runtime-interface functions "
        "(tables filled from the implementation's own leaf routines in correspondence runs)",
        "C05: annotations that compare == in Python but are spelled differently (both member orders of one union) "
        "are outside route_guard (cache finding owned by C12)",
    ]


# ----------------------------------------------------------------------------------
# generation with adversarial naming
# ----------------------------------------------------------------------------------

def diamond_env(rng):
    """One class reached through two sibling classes, with members of its own: the second occurrence is a
    deferred forward reference, and its user may be built before the shared class's own routine exists."""
    env = {"module": coregen.new_module_name("dia"), "defs": {}}
    env["defs"]["EnA"] = ("enum", [("RED", "1"), ("BLUE", "2")])
    fl = lambda: rng.choice(["dataclass", "dataclass", "namedtuple", "typeddict", "plain"])
    wrap = lambda t: rng.choice([t, t, ("seq", "KList", "list[{}]", t), ("union", "Optional", [t, ("none",)]),
                                 ("map", "KDict", "dict[{}, {}]", ("leaf", "str"), t)])
    env["defs"][0] = ("class", fl(), "", [("x", ("leaf", "int"), None), ("when", ("leaf", "date"), None),
                                          ("tag", ("leaf", "EnA"), None)])
    env["defs"][1] = ("class", fl(), "", [("item", wrap(("name", 0)), None), ("a", ("leaf", "str"), None)])
    env["defs"][2] = ("class", fl(), "", [("item", wrap(("name", 0)), None), ("b", ("leaf", "Decimal"), None)])
    env["defs"][3] = ("class", fl(), "", [("left", ("name", 1), None), ("right", ("name", 2), None),
                                          ("a", ("leaf", "int"), None)])
    return env


def env_fn(rng, gi):
    if gi % 4 == 1:
        return diamond_env(rng)
    env = coregen.gen_env(rng, ncls=rng.randint(2, 4), cyclic=(gi % 3 == 2), depth=2)
    return env


def roots_fn(rng, env, classes):
    roots = [("name", n) for n in classes]
    for _ in range(3):
        roots.append(coregen.gen_ty(rng, env, 2))
    # one type reachable through several paths (diamond), aliases as members
    if classes:
        c = ("name", rng.choice(classes))
        shared = ("seq", "KTuple", "tuple[{}, ...]", c)
        roots.append(("tuple", "tuple[{}]", [("seq", "KList", "list[{}]", shared),
                                             ("map", "KDict", "dict[{}, {}]", ("leaf", "str"), shared), shared]))
    return roots


def correspond(run: lib.Run):
    n = run.budget(14, 160)
    groups, records = coreprop.generate(run, n, seed_offset=5, env_fn=env_fn, roots_fn=roots_fn,
                                        values_per_root=run.budget(2, 3))
    run._c05 = (groups, records)
    # round 3: ==-equal member inputs inside one composite, and call histories on one cached routine (c05_strata)
    eq_groups, plans, eq_dist = c05_strata.generate(run)
    run._c05_plans = (eq_groups, plans)
    # round 4: same class names in two / three modules x every revisit shape, in one graph (c05_modules)
    mm_groups, mm_records, mm_dist = c05_modules.generate(run)
    run._c05_mm = (mm_groups, mm_records)
    n_random = len(groups)
    groups = groups + eq_groups + mm_groups
    problems = []
    for g in groups:
        for t in g.pytys:
            g.collect_orders(t)
        problems += g.order_problems
    run.oblige("tie:every observed graph node has a model annotation", not problems, "; ".join(problems[:3]))
    bs, bm, ba = coremodel.evaluate_groups_mech(run, groups, "c05", per_file=6)
    ncases = sum(len(g.cases) for g in groups)
    distinct = len({(g.env["module"], c[0], c[1], c[2]) for g in groups for c in g.cases})
    dist = {"groups": len(groups), "cyclic_groups": sum(1 for i in range(n_random) if i % 3 == 2),
            "orders": sum(len(g.orders["u"]) for g in groups),
            "observed_raise": sum(1 for g in groups for c in g.cases if "Raise" in c[3]),
            "random_stream_cases": sum(len(g.cases) for g in groups[:n_random]),
            "equal_member_and_history_cases": sum(len(g.cases) for g in eq_groups),
            "equal_member_strata": eq_dist,
            "same_names_in_several_modules_cases": sum(len(g.cases) for g in mm_groups),
            "same_names_in_several_modules": mm_dist}
    run.record_corr("reference-semantics-vs-implementation", ncases, [g.cases[i][4] for g, i in bs], distinct, dist)
    run.record_corr("mechanism-on-observed-order-vs-implementation", ncases, [g.cases[i][4] for g, i in bm], distinct, dist)
    run.record_corr("mechanism-vs-reference-semantics", ncases, [g.cases[i][4] for g, i in ba], distinct, dist)
    run._c05_bad = bs + bm + ba
    # one module, two descriptions: the hypotheses of graph_orders (Props/C05Bridge.v) are decided on every
    # observed order that lies in the translated fragment (notes/bridge.md); tie:order_ok above stays as a cross-check
    # (bridgetie describes ONE module per group: the multi-module groups are not in its fragment)
    bridgetie.bridge_obligations(run, groups[:len(groups) - len(mm_groups)], "c05")
    # the head-constructor dispatch Build.construct assumes IS the first-match dispatch over the live _HANDLERS tables (dyn/Dispatch)
    lib.run_tie(run, dispatchtie, streams=False, core=True, groups=groups[:len(groups) - len(eq_groups)][:run.budget(40, 80)], tag="c05")
    lib.run_tie(run, iotie, streams=False)
    lib.run_tie(run, routasttie)      # the __call__ bodies of the composite routine classes, parsed and translated on this run, ARE Core's steps (Props/RoutineAst.v)
    if groups and groups[0].cases:
        run.samples.append(groups[0].cases[0][4])


# ----------------------------------------------------------------------------------
# oracle: one level of the statement, on the implementation
# ----------------------------------------------------------------------------------

class OneLevel(coremodel.Mirror):
    """The composite is rebuilt from each member converted by an independently obtained routine:
    below the top level every member conversion is a fresh call of the public API (all caches cleared first).
    Composite members are remembered (annotation, input, what the fresh call returned) so that the same statement
    can be read one level further down."""

    def __init__(self, group):
        super().__init__(group.reg, coreprop.suppressed()["u"])
        self.g = group
        self.children = []
        self.py = {}
        for py, d in group.reg.rev:
            self.py.setdefault(repr(d), py)

    def pytype(self, d):
        if d[0] == "ref":
            d = ("name", d[1])
        return self.py.get(repr(d))

    def member(self, direction, d, v):
        from typelib import marshals, unmarshals
        t = self.pytype(d)
        if t is None:
            t = eval(universe.src_ty(d, self.g.env), self.g.mod.__dict__)
        impl.clear_caches()
        try:
            with warnings.catch_warnings():
                warnings.simplefilter("ignore")
                r = unmarshals.unmarshal(t, v) if direction == "u" else marshals.marshal(v, t=t)
        except RecursionError:
            self._child(direction, d, v, ("raise", "ERecursion"))
            raise coremodel.ModelRaise("ERecursion")
        except BaseException as e:
            self._child(direction, d, v, ("raise", impl.exc_kind(e)))
            raise coremodel.ModelRaise(impl.exc_kind(e))
        self._child(direction, d, v, ("ok", r))
        return r

    def _child(self, direction, d, v, res):
        if is_composite(self.g, d):
            self.children.append((direction, d, v, res))

    def unm(self, d, x):
        if self.depth >= 1 and d[0] not in ("newtype", "alias", "final", "classvar"):
            return self.member("u", d, x)
        return super().unm(d, x)

    def mar(self, d, x):
        if self.depth >= 1 and d[0] not in ("newtype", "alias", "final", "classvar"):
            return self.member("m", d, x)
        return super().mar(d, x)


COMPOSITE = ("seq", "map", "tuple", "union", "name", "ref", "aliasstr")


def strip(d):
    while d[0] in ("newtype", "alias", "final", "classvar"):
        d = d[2] if d[0] in ("newtype", "alias") else d[1]
    return d


def resolve_root(g, d):
    """the composite a level is about: transparent wrappers and named aliases in front of it are looked through
    (their transparency is C13's statement, not this one's)"""
    for _ in range(20):
        d = strip(d)
        if d[0] in ("name", "ref", "aliasstr"):
            n = d[1] if d[0] != "aliasstr" else d[2]
            df = g.env["defs"].get(n)
            if df is not None and df[0] == "alias":
                d = df[2] if isinstance(df[1], str) else df[1]
                continue
        if d[0] == "wrapref":
            d = d[1]
            continue
        return d
    return d


def is_composite(g, d):
    top = resolve_root(g, d)
    if top[0] not in COMPOSITE:
        return False
    if top[0] in ("name", "ref", "aliasstr"):
        n = top[1] if top[0] != "aliasstr" else top[2]
        return g.env["defs"].get(n, ("?",))[0] == "class"
    return True


def level_check(g, direction, d, x):
    """the statement, one level deep, at annotation d and input x: -> (('ok', rebuilt) | ('raise', kind) | None,
    composite members met on the way)"""
    one = OneLevel(g)
    top = resolve_root(g, d)
    try:
        expected = ("ok", one.unm(top, x) if direction == "u" else one.mar(top, x))
    except coremodel.ModelRaise as e:
        expected = ("raise", e.kind)
    except RecursionError:
        return None, []
    return expected, one.children


def _failure(g, direction, d, srcs, step, x, obs, expected, symptom, extra=None):
    from typelib import unmarshals
    f = {"symptom": symptom, "direction": direction, "tdesc": d, "history": srcs, "step": step,
         "type": universe.src_ty(d, g.env), "input": repr(x)[:400],
         "got": repr(obs[1])[:400] if obs[0] == "ok" else obs[1],
         "expected": repr(expected[1])[:400] if expected[0] == "ok" else expected[1],
         "module_source": g.src, "env": _env_json(g.env),
         "key": json.dumps(["C05", direction, repr(d)[:200], srcs and [s[:120] for s in srcs], repr(x)[:200]])}
    if hasattr(g, "spec"):          # several modules: the replay rebuilds the whole module set
        f["modules"] = c05_modules.spec_json(g, [d])
    f.update(extra or {})
    return f


def descend(g, direction, d, x, obs, fails, stats, extra, depth=0):
    """the same statement at every nesting depth: `obs` is what a fresh call of the API returned for (d, x)"""
    if depth > 8 or stats.get("levels", 0) > stats.get("level_cap", 10 ** 9):
        return
    expected, children = level_check(g, direction, d, x)
    if expected is None:
        return
    stats["evaluations"] += 1
    stats["levels"] = stats.get("levels", 0) + 1
    stats["nested_levels"] = stats.get("nested_levels", 0) + (depth > 0)
    stats["nontrivial"] += expected[0] == "ok"
    if not c05_strata.agree(expected, obs):
        src = c05_strata.pysrc(x, g.reg)
        fails.append(_failure(g, direction, d, [src] if src is not None else None, 0, x, obs, expected,
                              "composite differs from its members converted independently"
                              + (" (nested level)" if depth else ""), extra))
        return
    for cdir, cd, cx, cobs in children:
        descend(g, cdir, cd, cx, cobs, fails, stats, extra, depth + 1)


def check_history(g, d, pytype, direction, xs, srcs, fails, stats, extra=None):
    """calls of the API on ONE annotation, one after the other, no cache cleared in between: every call's result is
    the composite rebuilt from members converted by independently obtained routines; then the same for every nested
    composite member (fresh calls)"""
    obs = c05_strata.run_history(g, pytype, direction, xs)
    before = len(fails)
    for k, (x, o) in enumerate(zip(xs, obs)):
        expected, children = level_check(g, direction, d, x)
        if expected is None:
            continue
        stats["evaluations"] += 1
        stats["levels"] = stats.get("levels", 0) + 1
        stats["nontrivial"] += expected[0] == "ok"
        stats["history_calls"] = stats.get("history_calls", 0) + (len(xs) > 1)
        if not c05_strata.agree(expected, o):
            keep = _shrink_history(g, d, pytype, direction, xs, k, expected)
            fails.append(_failure(
                g, direction, d, [srcs[i] for i in keep] if srcs else None, len(keep) - 1, x, o, expected,
                "composite differs from its members converted independently"
                + (" (after earlier calls of the same routine)" if len(keep) > 1 else ""), extra))
            continue
        for cdir, cd, cx, cobs in children:
            descend(g, cdir, cd, cx, cobs, fails, stats, extra, 1)
    return len(fails) > before


def _shrink_history(g, d, pytype, direction, xs, k, expected):
    """smallest sub-history (the call alone, one earlier call + the call, the whole prefix) that still fails at call k"""
    cands = [[k]] + [[i, k] for i in range(k)] + [list(range(k + 1))]
    for keep in cands[:-1]:
        o = c05_strata.run_history(g, pytype, direction, [xs[i] for i in keep])[-1]
        if not c05_strata.agree(expected, o):
            return keep
    return cands[-1]


def check_record(rec, fails, stats, deep=False):
    g = rec.group
    if not is_composite(g, rec.tdesc):
        return
    cases = [("m", rec.value, rec.wire)] + [("u", x, obs) for _, x, obs in rec.inputs]
    for direction, x, obs in cases:
        expected, children = level_check(g, direction, rec.tdesc, x)
        if expected is None:
            continue
        stats["evaluations"] += 1
        stats["nontrivial"] += expected[0] == "ok"
        ok = (expected[0] == obs[0]) and (expected[0] == "raise" or coreprop.same(expected[1], obs[1])
                                          or repr(expected[1]) == repr(obs[1]))
        if not ok:
            src = c05_strata.pysrc(x, g.reg)
            fails.append(_failure(g, direction, rec.tdesc, [src] if src is not None else None, 0, x, obs, expected,
                                  "composite differs from its members converted independently",
                                  {"root_index": rec.ri}))
        elif deep:
            for cdir, cd, cx, cobs in children:
                descend(g, cdir, cd, cx, cobs, fails, stats, {"root_index": rec.ri}, 1)


def _env_json(env):
    return {"module": env["module"], "defs": {str(k): v for k, v in env["defs"].items()}}


def str_keys(x):
    if isinstance(x, dict):
        return all(type(k) is str for k in x) and all(str_keys(v) for v in x.values())
    if isinstance(x, (list, tuple)):
        return all(str_keys(v) for v in x)
    return True


def sources_alike(rec, fails, stats):
    """structured sources in every documented shape convert alike"""
    from typelib import unmarshals
    g = rec.group
    top = strip(rec.tdesc)
    if top[0] != "name" or g.env["defs"][top[1]][0] != "class" or rec.wire[0] != "ok":
        return
    wire = rec.wire[1]
    if not isinstance(wire, dict):
        return
    shapes = {"mapping": wire, "pairs": [[k, v] for k, v in wire.items()] if len(wire) != 0 else None}
    # JSON text carries mapping keys as text: it is the same source only where every key already is a str
    # (json.dumps writes the keys True / 1 / None as "true" / "1" / "null", which the key routine reads differently)
    if coregen.jsonable(wire) and str_keys(wire):
        shapes["json"] = json.dumps(wire)
    results = {}
    for name, src in shapes.items():
        if src is None:
            continue
        if name == "pairs" and len(src) and not (isinstance(src[0], list) and len(src[0]) == 2):
            continue
        impl.clear_caches()
        try:
            with warnings.catch_warnings():
                warnings.simplefilter("ignore")
                results[name] = ("ok", unmarshals.unmarshal(rec.pytype, src))
        except BaseException as e:
            results[name] = ("raise", impl.exc_kind(e))
    stats["evaluations"] += len(results)
    base = results.get("mapping")
    for name, r in results.items():
        same = r[0] == base[0] and (r[0] == "raise" or coreprop.same(r[1], base[1]) or repr(r[1]) == repr(base[1]))
        if not same:
            fails.append({"symptom": f"structured source shape '{name}' converts differently from the mapping",
                          "type": repr(rec.pytype), "input": repr(shapes[name])[:400],
                          "got": repr(r[1])[:300], "expected": repr(base[1])[:300], "module_source": g.src,
                          "key": json.dumps(["C05-src", name, repr(rec.tdesc)[:200], repr(wire)[:200]])})


def cross_module(fails, stats, rng):
    """equal class names in different modules, equal field names with different types"""
    import dataclasses
    from typelib import marshals, unmarshals
    a = impl.new_module("verif_c05_xa", "import dataclasses\n@dataclasses.dataclass\nclass Item:\n    val: int\n    name: str\n")
    b = impl.new_module("verif_c05_xb", "import dataclasses, decimal\n@dataclasses.dataclass\nclass Item:\n    val: decimal.Decimal\n    name: bytes\n")
    c = impl.new_module("verif_c05_xc", "import dataclasses\nimport verif_c05_xa as xa, verif_c05_xb as xb\n"
                        "@dataclasses.dataclass\nclass Both:\n    left: xa.Item\n    right: xb.Item\n    val: list[xb.Item]\n")
    impl.clear_caches()
    x = {"left": {"val": "1", "name": "n"}, "right": {"val": "1", "name": "n"}, "val": [{"val": "2.5", "name": "z"}]}
    try:
        r = unmarshals.unmarshal(c.Both, x)
        import decimal
        exp = c.Both(a.Item(1, "n"), b.Item(decimal.Decimal("1"), b"n"), [b.Item(decimal.Decimal("2.5"), b"z")])
        stats["evaluations"] += 1
        stats["nontrivial"] += 1
        if not coreprop.same(r, exp):
            fails.append({"symptom": "same-named classes in different modules are confused", "got": repr(r),
                          "expected": repr(exp), "key": "C05-cross-module"})
        w = marshals.marshal(r, t=c.Both)
        expw = {"left": {"val": 1, "name": "n"}, "right": {"val": "1", "name": b"n"}, "val": [{"val": "2.5", "name": b"z"}]}
        if w != expw:
            fails.append({"symptom": "same-named classes in different modules are confused (marshal)", "got": repr(w),
                          "expected": repr(expw), "key": "C05-cross-module-m"})
    except BaseException as e:
        fails.append({"symptom": "same-named classes in different modules: raised", "got": repr(e),
                      "key": "C05-cross-module-raise"})
    finally:
        for m in ("verif_c05_xa", "verif_c05_xb", "verif_c05_xc"):
            impl.drop_module(m)
    # same-named classes in two modules, one reached directly and once more through an alias that lives in
    # the other module (the second occurrence is deferred)
    import datetime
    geo = impl.new_module("verif_c05_geo", "import dataclasses, datetime\n@dataclasses.dataclass\nclass Item:\n"
                          "    id: int\n    when: datetime.date\n")
    shop = impl.new_module("verif_c05_shop", "import dataclasses\nimport verif_c05_geo as geo\n"
                           "from typelib.py.compat import TypeAliasType\n"
                           "@dataclasses.dataclass\nclass Item:\n    id: str\n    when: str\n"
                           "GeoItem = TypeAliasType('GeoItem', geo.Item)\n"
                           "@dataclasses.dataclass\nclass Left:\n    thing: geo.Item\n"
                           "@dataclasses.dataclass\nclass Right:\n    thing: GeoItem\n"
                           "@dataclasses.dataclass\nclass Root:\n    left: Left\n    right: Right\n")
    try:
        impl.clear_caches()
        x = {"left": {"thing": {"id": "7", "when": "2020-02-03"}}, "right": {"thing": {"id": "7", "when": "2020-02-03"}}}
        it = geo.Item(7, datetime.date(2020, 2, 3))
        exp = shop.Root(shop.Left(it), shop.Right(geo.Item(7, datetime.date(2020, 2, 3))))
        stats["evaluations"] += 1
        stats["nontrivial"] += 1
        for src_name, src in (("mapping", x), ("json", json.dumps(x))):
            impl.clear_caches()
            r = unmarshals.unmarshal(shop.Root, src)
            if not coreprop.same(r, exp):
                fails.append({"symptom": "member reached through an alias of a same-named class in another module is "
                                         "converted by the wrong class", "got": repr(r), "expected": repr(exp),
                              "input": repr(src), "key": "C05-cross-module-alias-" + src_name})
        impl.clear_caches()
        w = marshals.marshal(exp, t=shop.Root)
        expw = {"left": {"thing": {"id": 7, "when": "2020-02-03"}}, "right": {"thing": {"id": 7, "when": "2020-02-03"}}}
        if w != expw:
            fails.append({"symptom": "alias of a same-named class in another module marshalled by the wrong class",
                          "got": repr(w), "expected": repr(expw), "key": "C05-cross-module-alias-m"})
    except BaseException as e:
        fails.append({"symptom": "alias of a same-named class in another module: raised", "got": repr(e),
                      "key": "C05-cross-module-alias-raise"})
    finally:
        impl.drop_module("verif_c05_geo"); impl.drop_module("verif_c05_shop")


def search(run: lib.Run, broken):
    groups, records = getattr(run, "_c05", (None, None))
    if groups is None:
        groups, records = coreprop.generate(run, run.budget(14, 160), seed_offset=5, env_fn=env_fn, roots_fn=roots_fn)
    eq_groups, plans = getattr(run, "_c05_plans", (None, None))
    if eq_groups is None:
        eq_groups, plans, _ = c05_strata.generate(run)
    fails = []
    stats = {"evaluations": 0, "nontrivial": 0}
    # corpus first
    for name, payload in corpus():
        r = replay(payload)
        stats["evaluations"] += 1
        if r.get("fails"):
            for f in r["failures"]:
                f = dict(payload, **f)
                f["symptom"] = f.get("symptom", "corpus") + f" [corpus {name}]"
                fails.append(f)
    # the two round-3 strata: ==-equal members inside one call, call histories on one routine; every nesting depth
    hstats = {"evaluations": 0, "nontrivial": 0}
    for p in plans:
        g = p.group
        try:
            xs = p.inputs()
        except Exception:
            continue
        check_history(g, g.roots[p.ri], g.pytys[p.ri], p.direction, xs, p.srcs, fails, hstats,
                      {"member": p.member, "family": p.family, "shape": p.shape, "history_kind": p.kind})
        if len(fails) > 60:
            break
    mm_groups, mm_records = getattr(run, "_c05_mm", (None, None))
    if mm_groups is None:
        mm_groups, mm_records, _ = c05_modules.generate(run)
    mstats = {"evaluations": 0, "nontrivial": 0}
    for rec in mm_records:
        check_record(rec, fails, mstats, deep=True)
        sources_alike(rec, fails, mstats)
        if len(fails) > 80:
            break
    thorough = bool(broken) or run.tier == "thorough"
    limit = len(records) if thorough else min(len(records), 250)
    stats["level_cap"] = 10 ** 9 if broken else (30000 if thorough else 2500)     # nested levels read per run
    for i, rec in enumerate(records[:limit]):
        check_record(rec, fails, stats, deep=True)
        sources_alike(rec, fails, stats)
        if len(fails) > 100:
            break
    cross_module(fails, stats, run.rng)
    run.search_stats["oracle"] = {
        "evaluations": stats["evaluations"], "distinct_nontrivial": stats["nontrivial"], "records": limit,
        "nested_levels": stats.get("nested_levels", 0),
        "failures": len(fails),
        "rule": "for each generated composite annotation and each input (valid value, wire form, JSON/literal text, "
                "corrupted wire, unrelated object) the implementation's result is compared with the composite rebuilt "
                "from each member converted by an independent call of the public API (caches cleared), incl. exception "
                "parity, and then the same statement is read at every composite member (every nesting depth); "
                "structured sources in mapping / pairs / JSON shape must convert alike; same-named classes in "
                "two modules; non-trivial = the rebuilt composite is a value (not a rejection)",
    }
    run.search_stats["oracle-equal-members-and-histories"] = {
        "evaluations": hstats["evaluations"], "distinct_nontrivial": hstats["nontrivial"], "histories": len(plans),
        "calls_in_multi_call_histories": hstats.get("history_calls", 0), "nested_levels": hstats.get("nested_levels", 0),
        "rule": "c05_strata: for every member position of every composite routine (root and nested), a catalogue of "
                "member types and families of distinct ==/hash-equal inputs the member type renders differently: "
                "(A) one call holding several of them, (B) several calls on one annotation with NO cache cleared in "
                "between; every call's result = the composite rebuilt from members converted by independent API calls "
                "(caches cleared), same class at every position incl. mapping keys, sign of zero and Decimal exponent; "
                "then every nested composite member likewise; both directions",
    }
    run.search_stats["oracle-same-names-in-several-modules"] = {
        "evaluations": mstats["evaluations"], "distinct_nontrivial": mstats["nontrivial"], "records": len(mm_records),
        "nested_levels": mstats.get("nested_levels", 0),
        "rule": "c05_modules: classes with the same qualified name (and field names) in two / three modules, every pair of "
                "revisit shapes (self-reference through Optional / list / dict, mutual recursion, diamond, met once), "
                "reached from one root (holder class in the main or in the last module, tuple, list of reversed tuples, "
                "mapping to their union); result vs the composite rebuilt from members converted by an independent API "
                "call on the member's OWN class, at every nesting depth; source shapes alike",
    }
    # keep the smallest failure per symptom
    best = {}
    for f in fails:
        k = f["symptom"]
        size = len(str(f.get("history") or f.get("input", ""))) + len(f.get("type", ""))
        if k not in best or size < best[k][0]:
            best[k] = (size, f)
    coreprop.close(groups)
    coreprop.close(eq_groups)
    coreprop.close(mm_groups)
    return [v[1] for v in best.values()]


def corpus():
    import os
    d = os.path.join(lib.VERIF, "corpus", "C05")
    out = []
    if os.path.isdir(d):
        for name in sorted(os.listdir(d)):
            if name.endswith(".json"):
                try:
                    out.append((name, json.load(open(os.path.join(d, name)))))
                except Exception:
                    pass
    return out


def replay(payload):
    if "env" not in payload or "tdesc" not in payload:
        return {"fails": False, "note": "replay needs env + tdesc"}
    if payload.get("modules"):
        g = c05_modules.rebuild(payload["modules"])
    else:
        env = {"module": payload["env"]["module"].split("_replay")[0] + "_replay",
               "defs": {(int(k) if k.isdigit() else k): _tup(v) for k, v in payload["env"]["defs"].items()}}
        roots = [_tup(payload["tdesc"])]
        g = coremodel.Group(env, roots, coreprop.suppressed())
    fails, stats = [], {"evaluations": 0, "nontrivial": 0}
    try:
        if payload.get("history"):
            xs = [eval(s, dict(g.mod.__dict__)) for s in payload["history"]]
            dirs = [payload["direction"]] if payload.get("direction") in ("u", "m") else ["u", "m"]
            for d in dirs:
                check_history(g, g.roots[0], g.pytys[0], d, xs, payload["history"], fails, stats)
        else:
            x = eval(payload["input"], dict(g.mod.__dict__))
            rec = coreprop.Record(g, 0, x)
            rec.wire = g.observe("m", 0, x)
            rec.inputs = [("replay", x, g.observe("u", 0, x))]
            check_record(rec, fails, stats, deep=True)
    finally:
        g.close()
    return {"fails": bool(fails), "failures": [{k: v for k, v in f.items() if k not in ("module_source", "env")} for f in fails]}


def _tup(x):
    if isinstance(x, list):
        return tuple(_tup(y) for y in x) if (x and isinstance(x[0], str)) else [_tup(y) for y in x]
    return x


def reproduces(entry):
    return replay(entry["replay"])["fails"]


def matches(entry, failure):
    m = entry.get("matches", {})
    return all(str(m[k]) in str(failure.get(k, "")) for k in m)
