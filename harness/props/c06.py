"""C06 -- marshalled output is plain JSON-compatible data, freshly built (DESIGN 7/C06, notes/C06.md).

Pipeline:
  prove       Props/C06.v re-checked (Print Assumptions); the routine registered for NoneType is measured on the
              live code and must be 'strict' (None is emitted, the rest rejected: the TNone arm of Core.mar).
  correspond  core correspondence on marshal cases that stress C06 (None-first / Literal-first unions, subclass
              instances, deque / OrderedDict containers, recursive classes), evaluated inside Coq together with the
              Coq predicates fa_ty / valid / is_wire, which are compared with the harness' own readings; the leaf laws
              (MarshalLaws) are sampled on every recorded leaf call.
  search      the statement itself on the implementation, no model involved.
"""
from __future__ import annotations

import base64
import collections
import copy
import datetime
import decimal
import enum
import json
import os
import pickle
import random
import re
import typing
import warnings

import coregen
import coremodel
import coreprop
import impl
import lib
import heaptie
import universe
from lib import coq_bool, coq_list, coq_nat

COQ_TARGETS = ["theories/Proofs/CoreC06.vo", "theories/Model/CoreC06Eq.vo", "theories/Props/C06.vo"]
COQ_TARGETS = COQ_TARGETS + [t for t in heaptie.COQ_TARGETS if t not in COQ_TARGETS]
THEOREMS = ["C06_full", "C06_wire", "C06_wire_any_input", "C06_fresh", "C06_fresh_shape", "C06_deterministic",
            "C06_literal_rejects", "C06_mar_is_mar_fixed", "C06_pinned_none_first_refuted",
            "C06_pinned_none_first_shares", "C06_refuted_literal_eq"]
NoneType = type(None)
PRIMS = (NoneType, bool, int, float, str)
WIRE = PRIMS + (list, dict)
PASS_THROUGH = ("Any", "list", "dict", "bytes")
FUEL = coremodel.FUEL
_STATE: dict = {}


class SI(int):
    pass


class SS(str):
    pass


class SF(float):
    pass


# ----------------------------------------------------------------------------------
# the statement's vocabulary, read directly in Python
# ----------------------------------------------------------------------------------

def why_not_wire(x, path="$"):
    """None if x consists solely of None/bool/int/float/str/list/dict of the exact classes with primitive dict keys"""
    t = type(x)
    if t in PRIMS:
        return None
    if t is list:
        for i, y in enumerate(x):
            w = why_not_wire(y, f"{path}[{i}]")
            if w:
                return w
        return None
    if t is dict:
        for k, y in x.items():
            if type(k) not in PRIMS:
                return f"{path}: dict key {k!r} of class {type(k).__name__}"
            w = why_not_wire(y, f"{path}[{k!r}]")
            if w:
                return w
        return None
    return f"{path}: {x!r} of class {t.__module__}.{t.__qualname__}"


def container_ids(x, acc=None, depth=0):
    """ids of every mutable container reachable from x (lists, dicts, sets, deques, instances with __dict__)"""
    acc = {} if acc is None else acc
    if depth > 60 or id(x) in acc:
        return acc
    if isinstance(x, (list, dict, set, collections.deque, bytearray)):
        acc[id(x)] = x
    if isinstance(x, dict):
        for k, v in x.items():
            container_ids(k, acc, depth + 1)
            container_ids(v, acc, depth + 1)
    elif isinstance(x, (list, tuple, set, frozenset, collections.deque)):
        for v in x:
            container_ids(v, acc, depth + 1)
    elif hasattr(x, "__dict__") and not isinstance(x, (type, enum.Enum)):
        for v in vars(x).values():
            container_ids(v, acc, depth + 1)
    elif hasattr(type(x), "__slots__") and not isinstance(x, (type, enum.Enum, str, int, float)):
        for s in getattr(type(x), "__slots__", ()):
            if hasattr(x, s):
                container_ids(getattr(x, s), acc, depth + 1)
    return acc


def fully_annotated(d, env, seen=None):
    """no Any / bare list / bare dict / bytes anywhere (their contents are passed through by contract)"""
    seen = set() if seen is None else seen
    k = d[0]
    if k == "leaf":
        return d[1] not in PASS_THROUGH
    if k == "none":
        return True
    if k == "seq":
        return fully_annotated(d[3], env, seen)
    if k == "map":
        return fully_annotated(d[3], env, seen) and fully_annotated(d[4], env, seen)
    if k in ("tuple", "union"):
        return all(fully_annotated(t, env, seen) for t in d[2])
    if k in ("name", "ref", "aliasstr"):
        n = d[1] if k != "aliasstr" else d[2]
        if n in seen:
            return True
        seen.add(n)
        df = env["defs"][n]
        if df[0] == "alias":
            return fully_annotated(df[2] if isinstance(df[1], str) else df[1], env, seen)
        return all(fully_annotated(t, env, seen) for _, t, _ in df[3])
    if k in ("newtype", "alias"):
        return fully_annotated(d[2], env, seen)
    if k in ("final", "classvar"):
        return fully_annotated(d[1], env, seen)
    raise ValueError(d)


def literal_values(t):
    return typing.get_args(t) if typing.get_origin(t) is typing.Literal else None


def must_reject(vals, x) -> bool:
    """x has to be rejected by a Literal with the given members: no member has x's class AND equals x.
    Left open in favour of the code (DESIGN 6.3): a value that equals a member but whose class is the class of NO
    member (Decimal('1') or an IntEnum member for Literal[1]); those are judged only where they make a union's
    output non-wire."""
    try:
        if any(type(x) is type(a) and x == a for a in vals):
            return False
        eq_some = any(x == a for a in vals)
    except Exception:                # noqa: BLE001
        return True
    return (not eq_some) or any(type(x) is type(a) for a in vals)


def isvalid_leaf(t, x) -> bool:
    if t is typing.Any:
        return True
    vals = literal_values(t)
    if vals is not None:
        return any(type(x) is type(a) and x == a for a in vals)
    return isinstance(x, t)


# ----------------------------------------------------------------------------------
# reflect: which routine is registered for NoneType
# ----------------------------------------------------------------------------------

def measure_none_member():
    """'echo' | 'strict' | 'other:<what>'"""
    from typelib import marshals
    impl.clear_caches()
    probe = decimal.Decimal("1.5")
    try:
        r = marshals.marshal(probe, t=NoneType)
        direct = "echo" if r is probe else f"other:{r!r}"
    except ValueError:
        direct = "strict"
    except Exception as e:           # noqa: BLE001
        direct = f"other:{type(e).__name__}"
    impl.clear_caches()
    try:
        r = marshals.marshal(probe, t=typing.Union[None, decimal.Decimal])
        member = "echo" if r is probe else ("strict" if r == "1.5" and type(r) is str else f"other:{r!r}")
    except Exception as e:           # noqa: BLE001
        member = f"other:{type(e).__name__}"
    impl.clear_caches()
    try:
        none_ok = marshals.marshal(None, t=NoneType) is None and marshals.marshal(None, t=typing.Union[None, decimal.Decimal]) is None
    except Exception:                # noqa: BLE001
        none_ok = False
    impl.clear_caches()
    if direct == member and none_ok:
        return direct
    return f"other:direct={direct},member={member},none={none_ok}"


def prove(run: lib.Run):
    ok = run.check_props("Props/C06.v", THEOREMS)
    if ok and run.tier == "thorough":
        rc, out, err = lib.sh(["coqchk", "-o", "-silent", "-Q", lib.THEORIES, "TL", "TL.Props.C06"], timeout=900, cwd=lib.COQ)
        txt = out + err
        clean = rc == 0 and "Axioms: <none>" in txt and "type-in-type: <none>" in txt and \
            "unsafe (co)fixpoints: <none>" in txt and "positivity is assumed: <none>" in txt
        run.oblige("coqchk:-o TL.Props.C06 (no axioms, nothing assumed)", clean, txt[-400:] if not clean else "")
        run.checker_cmds.append("coqchk -o -Q coq/theories TL TL.Props.C06")
    mode = measure_none_member()
    _STATE["none_mode"] = mode
    run.extra_cov["none_member_routine"] = mode
    run.oblige("reflect:the routine registered for NoneType emits None and rejects everything else "
               "(the TNone arm of Core.mar)",
               mode == "strict",
               "" if mode == "strict" else
               f"measured: {mode}. An echoing NoneType member is the pinned defect (C06_pinned_none_first_refuted)")
    run.assumptions += [
        "C06: leaves (scalars, enums, Literals, None) are runtime functions; their behaviour enters the theorems as the "
        "record MarshalLaws (law_none, law_robust, law_wire, law_literal), every field of which is sampled on every "
        "recorded leaf call of every run",
        "C06: object identity is not in the value model: 'shares no mutable container with v', 'leaves v unmodified' and "
        "'the same on every call' are functions-of-(T,v) facts in Coq (C06_fresh: every container of the result is built "
        "by a composite routine; C06_deterministic) and are decided on the implementation by the oracle (id sets, "
        "deep copy, repeated calls with and without cache clearing)",
        "C06: valid (Coq) is permissive on container classes (any sequence class / any dict class where the annotation "
        "names one) and exact on members; a larger set of valid inputs makes C06_wire stronger",
        "C06: which leaves are robust (= do not pass contents through) is decided by the harness from the annotation: "
        "everything but Any, bare list, bare dict, bytes",
    ]


# ----------------------------------------------------------------------------------
# generation: environments, roots, values that stress C06
# ----------------------------------------------------------------------------------

def c06_env(rng, gi):
    env = coreprop.make_env(rng, gi, cyclic_every=3, depth=2)
    defs = env["defs"]
    # enums / literal whose members compare == to values of other classes
    extra = {}
    extra["EnI"] = ("enum", [("LO", "0"), ("HI", "9")], "enum.IntEnum")
    extra["EnS"] = ("enum", [("ONE", "'1'"), ("X", "'x'")], "str, enum.Enum")
    extra["EnA"] = defs.get("EnA") or ("enum", [("RED", "1"), ("BLUE", "2")])
    extra["LitQ"] = ("literal", ["1", "9", "'x'", "'a'"])
    extra["LitM"] = ("literal", ["1", "False", "'a'", "2.5"])      # members of different, ==-related classes
    extra["LitB"] = ("literal", ["'auto'", "0", "True"])
    if "Lit" in defs:
        extra["Lit"] = defs["Lit"]
    env["defs"] = {**extra, **{k: v for k, v in defs.items() if k not in extra}}
    return env


def L(name):
    return ("leaf", name)


def adversarial_roots(rng, env, classes):
    opt_first = lambda t: ("union", "Union", [("none",), t])
    roots = [
        opt_first(L("Decimal")),
        opt_first(("seq", "KList", "list[{}]", L("int"))),
        opt_first(("map", "KDict", "dict[{}, {}]", L("str"), L("Decimal"))),
        ("union", "Union", [L("int"), ("none",), L("Decimal")]),
        ("union", "Optional", [L("Decimal"), ("none",)]),
        ("union", "Union", [L("LitQ"), L("Decimal")]),
        ("union", "Union", [L("LitQ"), L("EnI")]),
        ("union", "|", [L("LitQ"), L("EnS"), L("Fraction")]),
        ("union", "Union", [L("LitQ"), L("float"), L("bool")]),
        ("map", "KDict", "dict[{}, {}]", L("str"), opt_first(("seq", "KTuple", "tuple[{}, ...]", L("int")))),
        ("seq", "KList", "typing.Sequence[{}]", L("int")),
        ("seq", "KList", "typing.Iterable[{}]", L("str")),
        ("map", "KDict", "typing.Mapping[{}, {}]", L("str"), L("float")),
        ("map", "KOrderedDict", "collections.OrderedDict[{}, {}]", L("int"), ("seq", "KDeque", "collections.deque[{}]", L("datetime"))),
        ("tuple", "tuple[{}]", [L("int"), L("str"), L("date"), L("timedelta")]),
        ("map", "KDict", "dict[{}, {}]", L("EnI"), L("EnS")),
        ("seq", "KSet", "set[{}]", L("time")),
        L("LitQ"), L("EnI"), L("EnS"), L("LitM"), L("LitB"),
        ("union", "Union", [L("LitM"), L("bool")]),
        ("union", "Union", [L("LitM"), L("int"), L("float")]),
        ("union", "Union", [L("LitB"), L("bool"), L("int")]),
        ("map", "KDict", "dict[{}, {}]", L("str"), ("union", "Union", [L("LitB"), L("float"), L("bool")])),
        ("union", "Union", [L("int"), L("str")]),
        ("seq", "KList", "list[{}]", ("union", "|", [L("float"), L("str")])),
        ("map", "KDict", "dict[{}, {}]", L("str"), ("union", "Union", [L("Decimal"), L("str")])),
        ("tuple", "tuple[{}]", [("union", "Union", [L("int"), L("str")]), ("union", "Union", [L("date"), L("str")])]),
    ]
    for n in classes[:2]:
        roots.append(opt_first(("name", n)))
        roots.append(("seq", "KList", "list[{}]", ("union", "Union", [("none",), ("name", n), L("str")])))
    k = rng.randint(10, 14)
    picked = rng.sample(roots, min(k, len(roots)))
    picked += [("name", n) for n in classes]
    picked += [coregen.gen_ty(rng, env, 2) for _ in range(2)]
    return picked


ABSTRACT_SEQ = ("Sequence", "Iterable", "Collection", "MutableSequence")


def subclassify(rng, d, v, env, mod, p=0.5):
    """replace parts of a valid value by subclass instances that are still valid for the annotation"""
    import pendulum
    k = d[0]
    try:
        if k == "leaf":
            if rng.random() > p:
                return v
            key = d[1]
            if key == "int" and type(v) is int:
                c = rng.random()
                if c < 0.4:
                    return SI(v)
                if c < 0.7 and hasattr(mod, "EnI"):
                    return rng.choice(list(mod.EnI))
                if c < 0.8:
                    return bool(v % 2)
                return v
            if key == "str" and type(v) is str:
                if rng.random() < 0.3 and hasattr(mod, "EnS"):
                    return rng.choice(list(mod.EnS))
                return SS(v)
            if key == "float" and type(v) is float:
                return SF(v)
            if key == "datetime":
                return pendulum.instance(v)
            if key == "date":
                return pendulum.date(v.year, v.month, v.day)
            if key == "time":
                return pendulum.time(v.hour, v.minute, v.second, v.microsecond)
            if key == "timedelta":
                return pendulum.duration(days=v.days, seconds=v.seconds, microseconds=v.microseconds)
            return v
        if k == "seq":
            vals = [subclassify(rng, d[3], x, env, mod, p) for x in v]
            if d[1] == "KList" and any(a in d[2] for a in ABSTRACT_SEQ) and rng.random() < 0.5:
                return collections.deque(vals)
            if d[1] in ("KSet", "KFrozenset"):
                vals = coregen._dedupe_eq(vals)
            return universe.SEQ_PY[d[1]](vals)
        if k == "map":
            pairs = []
            for a, b in v.items():
                a2 = subclassify(rng, d[3], a, env, mod, p)
                if any(a2 == q[0] for q in pairs):
                    a2 = a
                pairs.append((a2, subclassify(rng, d[4], b, env, mod, p)))
            if d[1] == "KDict" and rng.random() < 0.5:
                return collections.OrderedDict(pairs)
            return universe.MAP_PY[d[1]](pairs)
        if k == "tuple":
            return tuple(subclassify(rng, t, x, env, mod, p) for t, x in zip(d[2], v))
        if k in ("newtype", "alias"):
            return subclassify(rng, d[2], v, env, mod, p)
        if k in ("final", "classvar"):
            return subclassify(rng, d[1], v, env, mod, p)
    except Exception:        # noqa: BLE001 - a value we cannot rebuild stays as it is
        return v
    return v            # unions, classes: the member that produced the value is not recorded


def valid_py(reg, d, v, table, depth=0):
    """Python reading of CoreC06.valid; records every leaf query in table[(s, enc v)] = verdict"""
    if depth > FUEL - 2:
        return False
    env = reg.env
    k = d[0]
    kind = reg.kind_of(v)
    if k == "leaf":
        s = reg.leaves[d[1]]
        ok = isvalid_leaf(reg.leaf_py[s], v)
        table[(s, reg.enc(v))] = ok
        return ok
    if k == "none":
        return v is None
    if k == "seq":
        return kind[0] == "seq" and all([valid_py(reg, d[3], x, table, depth + 1) for x in v])
    if k == "map":
        return kind[0] == "dict" and all([valid_py(reg, d[3], a, table, depth + 1) & valid_py(reg, d[4], b, table, depth + 1)
                                          for a, b in v.items()])
    if k == "tuple":
        return kind == ("seq", "KTuple") and len(d[2]) == len(v) and \
            all([valid_py(reg, t, x, table, depth + 1) for t, x in zip(d[2], v)])
    if k == "union":
        return any([valid_py(reg, t, v, table, depth + 1) for t in d[2]])
    if k in ("name", "ref", "aliasstr"):
        n = d[1] if k != "aliasstr" else d[2]
        df = env["defs"][n]
        if df[0] == "alias":
            return valid_py(reg, df[2] if isinstance(df[1], str) else df[1], v, table, depth + 1)
        fields = {f: t for f, t, _ in df[3]}
        if kind[0] == "obj":
            cdef = env["defs"][kind[1]]
            items = [(f, getattr(v, f)) for f, _, _ in cdef[3] if hasattr(v, f)]
        elif kind[0] == "named":
            cdef = env["defs"][kind[1]]
            items = list(zip([f for f, _, _ in cdef[3]], list(v)))
        elif kind[0] == "dict":
            items = list(v.items())
        else:
            return False
        return all([valid_py(reg, fields[a], b, table, depth + 1) if (type(a) is str and a in reg.fields and a in fields) else True
                    for a, b in items])
    if k in ("newtype", "alias"):
        return valid_py(reg, d[2], v, table, depth + 1)
    if k in ("final", "classvar"):
        return valid_py(reg, d[1], v, table, depth + 1)
    raise ValueError(d)


class Mirror06(coremodel.Mirror):
    """the shared mirror, recording every leaf call"""

    def __init__(self, reg, suppressed):
        super().__init__(reg, suppressed)
        self.calls = []          # (leaf name, input, ('ok', result) | ('raise', kind))

    def leaf_m(self, name, x):
        try:
            r = super().leaf_m(name, x)
        except coremodel.ModelRaise as e:
            self.calls.append((name, x, ("raise", e.kind)))
            raise
        self.calls.append((name, x, ("ok", r)))
        return r


class Group06(coremodel.Group):
    def __init__(self, env, roots, sup):
        super().__init__(env, roots, sup)
        self.mirror = Mirror06(self.reg, sup["u"])
        self.extra = []          # per case: (py_fa, py_valid, py_wire)
        self.valid_tbl = {}
        self.values = []         # per case: the input object
        self.obs = []            # per case: the observation made alone, every cache cleared

    def add06(self, ri, v):
        obs = self.add("m", ri, v)
        d = self.roots[ri]
        fa = fully_annotated(d, self.env)
        va = valid_py(self.reg, d, v, self.valid_tbl)
        wi = obs[0] == "ok" and why_not_wire(obs[1]) is None
        self.extra.append((fa, va, wi))
        self.values.append(v)
        self.obs.append(obs)
        return obs, fa, va

    def emit06(self, name):
        t = self.mirror.t
        reg = self.reg
        sup = coq_list(self.sup["u"], "exn")
        names = [n for n, d in self.env["defs"].items() if d[0] in ("class", "alias")]
        rnames = [n for n in names if fully_annotated(("name", n), self.env)]
        robust = [i for nm, i in reg.leaves.items() if nm not in PASS_THROUGH]
        prim = [i for i, o in enumerate(reg.atom_objs) if type(o) in PRIMS]
        vt = coq_list([f"({coq_nat(s)}, {e})" for (s, e), ok in self.valid_tbl.items() if ok], "(nat * pv)")
        cases = coq_list([
            f"({reg.emit_ty(self.roots[ri])}, {ei}, {eo}, {coq_bool(x[0])}, {coq_bool(x[1])}, {coq_bool(x[2])})"
            for (_, ri, ei, eo, _), x in zip(self.cases, self.extra)], "case06").replace("; (", ";\n   (")
        return (
            f"Module {name}.\n"
            f"Definition E : env := {reg.emit_env()}.\n"
            f"Definition rt : runtime := mk_runtime\n  {coremodel.emit_leaf_tbl(t.lu)}\n  {coremodel.emit_leaf_tbl(t.lm)}\n"
            f"  {coremodel.emit_tbl(t.nu, '(pv * res pv)')}\n  {coremodel.emit_tbl(t.ld, '(pv * res pv)')}\n"
            f"  {coremodel.emit_tbl(t.vs, '(pv * res (list pv))')}\n  {coremodel.emit_tbl(t.its, '(pv * res (list (pv * pv)))')}\n"
            f"  {coremodel.emit_tbl(getattr(t, 'ups', {}), '(pv * res (pv * pv))')}\n"
            f"  {coremodel.emit_tbl(t.pl, '(pv * bool)')}\n"
            f"  {coq_list([lib.coq_pair(coq_nat(i), v) for i, v in t.ix.items()], '(nat * pv)')}\n"
            f"  {coq_list([coq_nat(n) for n in self.unhashable_classes()], 'nat')}\n"
            f"  {coq_list([lib.coq_pair(coq_nat(a), coq_nat(b)) for a, b in self.atom_eq_pairs()], '(nat * nat)')}\n"
            f"  {reg.enc(None)}\n  {sup}.\n"
            f"Definition tb : tables06 := {{| t_prim := {coq_list([coq_nat(i) for i in prim], 'nat')};\n"
            f"  t_robust := {coq_list([coq_nat(i) for i in robust], 'nat')};\n"
            f"  t_R := {coq_list([coq_nat(i) for i in rnames], 'nat')};\n"
            f"  t_valid := {vt};\n"
            f"  t_names := {coq_list([coq_nat(i) for i in names], 'nat')} |}}.\n"
            f"Definition cases : list case06 :=\n  {cases}.\n"
            f"Definition bad := bad06 rt E tb {FUEL} cases.\n"
            f"Definition codes := bad06_codes rt E tb {FUEL} cases.\n"
            f"Definition sets := sets_ok E tb.\n"
            f"End {name}.\n"
        )


HEADER06 = ("From Coq Require Import List. Import ListNotations.\n"
            "Require Import TL.Model.Core TL.Model.CoreTables TL.Model.CoreC06 TL.Model.CoreC06Eq.\n")


def generate(run, n_groups, values_per_root=3):
    rng = random.Random(run.seed * 1000 + 606)
    sup = coreprop.suppressed()
    groups = []
    dist = collections.Counter()
    for gi in range(n_groups):
        env = c06_env(rng, gi)
        classes = [n for n, d in env["defs"].items() if d[0] in ("class", "alias")]
        roots = adversarial_roots(rng, env, classes)
        g = Group06(env, roots, sup)
        for ri, r in enumerate(roots):
            for vi in range(values_per_root):
                try:
                    v = coregen.gen_value(rng, r, env, g.mod, depth=3)
                except RecursionError:
                    continue
                if vi > 0:
                    v = subclassify(rng, r, v, env, g.mod)
                with warnings.catch_warnings():
                    warnings.simplefilter("ignore")
                    obs, fa, va = g.add06(ri, v)
                dist[f"root:{r[0]}"] += 1
                dist[f"fully_annotated:{fa}"] += 1
                dist[f"observed:{obs[0]}"] += 1
                if not va:
                    dist["generated value judged invalid by valid_py"] += 1
        groups.append(g)
    return groups, dist


def evaluate(run, groups, tag, per_file=8):
    files, order = {}, []
    for fi in range(0, len(groups), per_file):
        chunk = groups[fi:fi + per_file]
        text = HEADER06
        names = []
        for gi, g in enumerate(chunk):
            nm = f"G{fi + gi}"
            text += g.emit06(nm)
            names.append(nm)
        for nm in names:
            text += f"Eval vm_compute in {nm}.bad.\nEval vm_compute in {nm}.codes.\nEval vm_compute in {nm}.sets.\n"
        fname = f"cases_{tag}_{fi // per_file}.v"
        files[fname] = text
        order.append((fname, chunk))
    results = run.coq_eval_many(files, timeout=900)
    bad, sets_bad = [], []
    for fname, chunk in order:
        res = results[fname]
        if res is None or len(res) != 3 * len(chunk):
            run.oblige(f"evaluate:{fname}", False, "model evaluation did not compile")
            for g in chunk:
                bad += [(g, i, 1) for i in range(len(g.cases))]
            continue
        for gi, g in enumerate(chunk):
            idx = lib.parse_nat_list(res[3 * gi])
            codes = lib.parse_nat_list(res[3 * gi + 1])
            bad += [(g, i, c) for i, c in zip(idx, codes)]
            if "true" not in res[3 * gi + 2]:
                sets_bad.append(g.env["module"])
    return bad, sets_bad


def describe_case(g, i):
    d = dict(g.cases[i][4])
    d["fully_annotated"], d["valid"], d["observed_is_wire"] = g.extra[i]
    return d


def sample_laws(run, groups):
    """MarshalLaws, field by field, on every recorded leaf call"""
    counts = collections.Counter()
    bad = []
    for g in groups:
        reg = g.reg
        for name, x, res in g.mirror.calls:
            t = reg.leaf_py[reg.leaves[name]]
            robust = name not in PASS_THROUGH
            if robust and res[0] == "ok":
                counts["law_robust"] += 1
                w = why_not_wire(res[1])
                if w:
                    bad.append({"law": "law_robust", "leaf": name, "leaf_type": repr(t), "input": repr(x), "result": repr(res[1]),
                                "why": w, "group": g, "x": x, "t": t})
                if isvalid_leaf(t, x):
                    counts["law_wire"] += 1
            vals = literal_values(t)
            if vals is not None:
                if must_reject(vals, x):
                    counts["law_literal"] += 1
                    if res != ("raise", "EValue"):
                        bad.append({"law": "law_literal", "leaf": name, "leaf_type": repr(t), "input": repr(x),
                                    "result": repr(res), "why": "non-member not rejected with ValueError", "group": g, "x": x, "t": t})
        counts["law_none"] += 1
        if type(None) not in PRIMS or "PAtom" not in reg.enc(None):
            bad.append({"law": "law_none", "why": "None is not a primitive atom"})
    return counts, bad


def correspond(run: lib.Run):
    n_groups = run.budget(90, 900)
    groups, dist = generate(run, n_groups, values_per_root=run.budget(3, 4))
    _STATE["groups"] = groups
    coremodel.warm_replay(run, groups, "c06")      # "the same on every call": each case again on warm caches
    bad, sets_bad = evaluate(run, groups, "c06")
    ncases = sum(len(g.cases) for g in groups)
    distinct = len({(g.env["module"], c[1], c[2]) for g in groups for c in g.cases})
    by_bit = collections.Counter()
    mism = []
    for g, i, code in bad:
        for bit, what in ((1, "result"), (2, "fully_annotated verdict"), (4, "valid verdict"), (8, "is_wire verdict")):
            if code & bit:
                by_bit[what] += 1
        d = describe_case(g, i)
        d["differs_in"] = [w for b, w in ((1, "result"), (2, "fa_ty"), (4, "valid"), (8, "is_wire")) if code & b]
        mism.append(d)
    _STATE["mismatch"] = [(g, i) for g, i, _ in bad]
    dist = dict(dist)
    dist["model"] = "Core.mar"
    dist["mismatch_kinds"] = dict(by_bit)
    dist["fuel"] = FUEL
    run.record_corr("core-mar-c06", ncases, mism, distinct, dist)
    run.oblige("sets:env_robust / env_fa hold for the name sets handed to the model (hypotheses of C06_wire)",
               not sets_bad, ", ".join(sets_bad[:4]))
    # coregen fills fields that have a default with None whatever their annotation: such values are not valid
    # instances and fall outside the quantifier (counted, skipped by the oracle, still part of the tie)
    ninvalid = dist.get("generated value judged invalid by valid_py", 0)
    run.oblige("generator:at least 3 of 4 generated values are valid instances per valid_py (= CoreC06.valid on the same tables)",
               ninvalid * 4 <= ncases, f"{ninvalid} of {ncases} generated values judged invalid")
    if groups and groups[0].cases:
        run.samples.append(describe_case(groups[0], 0))
    counts, lawbad = sample_laws(run, groups)
    for k, v in counts.items():
        run.laws[k] = run.laws.get(k, 0) + v
    _STATE["lawbad"] = lawbad
    seen = set()
    for b in lawbad:
        key = (b["law"], b.get("leaf_type"))
        if key in seen:
            continue
        seen.add(key)
        run.oblige(f"law:{b['law']} sampled on leaf {b.get('leaf_type')}", False,
                   f"input {b.get('input')} -> {b.get('result')}: {b['why']}")
    if not lawbad:
        run.oblige("laws:MarshalLaws sampled on %d leaf calls" % sum(counts.values()), True)
    # object identity (Props/C06Heap.v): frame (inputs never written), freshness (no mutable container shared with v inside
    # the fully annotated fragment), separation of results; stream `identity` compares id()-level sharing with the heap model
    lib.run_tie(run, heaptie)


# ----------------------------------------------------------------------------------
# the oracle: the statement on the implementation (no model, no mirror)
# ----------------------------------------------------------------------------------

POOL_SRC = '''
import collections, dataclasses, datetime, decimal, enum, fractions, pathlib, typing, uuid
import pendulum
from decimal import Decimal
from fractions import Fraction

class SI(int): pass
class SS(str): pass
class SF(float): pass

class EnI(enum.IntEnum):
    LO = 0
    HI = 9

class EnS(str, enum.Enum):
    ONE = '1'
    X = 'x'

class EnA(enum.Enum):
    RED = 1
    BLUE = 'b'

LitQ = typing.Literal[1, 9, 'x', 'a']
LitN = typing.Literal[2, None]
LitM = typing.Literal[1, False, 'a', 2.5]

@dataclasses.dataclass
class LitHolder:
    mode: typing.Literal[1, False]

@dataclasses.dataclass
class Ov:
    x: typing.Union[int, str]
    ys: list[typing.Union[float, str]]
    d: dict[str, typing.Union[Decimal, str]]

@dataclasses.dataclass
class Leaf:
    n: int
    tags: list[str]
    when: typing.Optional[datetime.date] = None

@dataclasses.dataclass
class Tree:
    val: typing.Union[None, Decimal]
    kids: list["Tree"]
    meta: dict[str, tuple[int, ...]]

class Row(typing.NamedTuple):
    a: int
    b: typing.Union[None, list[Decimal]]

class TD(typing.TypedDict):
    a: int
    b: list[str]

UTC = datetime.timezone.utc
'''

# (annotation source, value source); all evaluated inside the pool module
POOL = [
    ("typing.Union[None, Decimal]", "Decimal('1.5')"),
    ("typing.Union[None, Decimal]", "None"),
    ("typing.Optional[Decimal]", "Decimal('1.5')"),
    ("typing.Union[None, list[int]]", "[1, 2]"),
    ("typing.Union[None, dict[str, int]]", "{'a': 1}"),
    ("typing.Union[None, int, str]", "'abc'"),
    ("typing.Union[int, None, Decimal]", "Decimal('2.5')"),
    ("dict[str, typing.Union[None, tuple[int, ...]]]", "{'a': (1, 2), 'b': None}"),
    ("list[typing.Union[None, Leaf]]", "[Leaf(1, ['x']), None]"),
    ("typing.Union[None, Leaf]", "Leaf(1, ['x'], datetime.date(2020, 1, 2))"),
    ("typing.Union[None, TD]", "TD(a=1, b=['x'])"),
    ("typing.Union[None, Row]", "Row(1, [Decimal('1')])"),
    ("typing.Union[LitQ, Decimal]", "Decimal('1')"),
    ("typing.Union[LitQ, Decimal]", "Decimal('2')"),
    ("typing.Union[LitQ, EnI]", "EnI.HI"),
    ("typing.Union[LitQ, EnS]", "EnS.X"),
    ("typing.Union[LitQ, Fraction]", "Fraction(9)"),
    ("typing.Union[LitQ, float]", "1.0"),
    ("typing.Union[LitQ, bool]", "True"),
    ("typing.Union[LitN, Decimal]", "Decimal('2')"),
    ("LitQ", "1"), ("LitQ", "'x'"), ("LitN", "None"),
    ("int", "SI(3)"), ("int", "EnI.HI"), ("int", "True"), ("float", "SF(2.5)"), ("float", "3"), ("str", "SS('abc')"),
    ("str", "EnS.X"), ("bool", "True"),
    ("EnI", "EnI.HI"), ("EnS", "EnS.X"), ("EnA", "EnA.RED"), ("EnA", "EnA.BLUE"),
    ("Decimal", "Decimal('1E+3')"), ("Fraction", "Fraction(1, 3)"), ("uuid.UUID", "uuid.UUID(int=5)"),
    ("pathlib.PurePosixPath", "pathlib.PurePosixPath('a/b')"),
    ("datetime.datetime", "pendulum.datetime(2020, 1, 2, 3, 4, 5)"), ("datetime.date", "pendulum.date(2020, 1, 2)"),
    ("datetime.time", "pendulum.time(3, 4, 5)"), ("datetime.timedelta", "pendulum.duration(days=2, seconds=3)"),
    ("datetime.datetime", "datetime.datetime(2020, 1, 2, 3, 4, 5, tzinfo=UTC)"),
    ("datetime.timedelta", "datetime.timedelta(days=2, seconds=3)"),
    ("list[int]", "[1, SI(2), EnI.HI, True]"), ("list[str]", "[SS('a'), 'b', EnS.X]"),
    ("typing.Sequence[int]", "collections.deque([1, 2])"), ("typing.Iterable[str]", "collections.deque(['a'])"),
    ("tuple[int, ...]", "(1, 2, 3)"), ("set[int]", "{1, 2}"), ("frozenset[str]", "frozenset({'a'})"),
    ("collections.deque[Decimal]", "collections.deque([Decimal('1')])"),
    ("tuple[int, str, datetime.date]", "(1, 'a', datetime.date(2020, 1, 2))"),
    ("dict[str, int]", "collections.OrderedDict(a=1, b=2)"), ("dict[str, int]", "{SS('k'): SI(1)}"),
    ("typing.Mapping[str, list[int]]", "collections.OrderedDict(a=[1], b=[])"),
    ("collections.OrderedDict[str, Decimal]", "collections.OrderedDict(a=Decimal('1'))"),
    ("dict[EnI, EnS]", "{EnI.HI: EnS.X}"), ("dict[int, str]", "{1: 'a', 2: 'b'}"), ("dict[Decimal, int]", "{Decimal('1.5'): 1}"),
    ("dict[datetime.date, list[dict[str, int]]]", "{datetime.date(2020, 1, 2): [{'a': 1}, {}]}"),
    ("list[list[list[int]]]", "[[[1], []], []]"), ("dict[str, dict[str, list[Decimal]]]", "{'a': {'b': [Decimal('1')]}}"),
    ("Leaf", "Leaf(1, ['a', 'b'])"), ("Leaf", "Leaf(SI(1), [SS('a')], pendulum.date(2020, 1, 2))"),
    ("Tree", "Tree(Decimal('1'), [Tree(None, [], {})], {'m': (1, 2)})"),
    ("Tree", "Tree(None, [Tree(Decimal('2'), [Tree(None, [], {'k': ()})], {})], {})"),
    ("Row", "Row(1, None)"), ("Row", "Row(2, [Decimal('1.5')])"), ("TD", "TD(a=1, b=['x', 'y'])"),
    ("list[TD]", "[TD(a=1, b=[]), TD(a=2, b=['z'])]"), ("dict[str, Row]", "{'r': Row(1, [])}"),
    ("typing.Optional[list[typing.Optional[int]]]", "[1, None]"),
    ("typing.Union[int, str]", "'a'"), ("typing.Union[str, int]", "5"), ("typing.Union[int, str]", "'7'"),
    ("list[typing.Union[float, str]]", "['1.5', 'n/a', '1.5']"), ("list[typing.Union[int, str]]", "['7', 'x', '7', 3]"),
    ("dict[str, typing.Union[Decimal, str]]", "{'a': '1.5', 'b': 'n/a', 'c': '1.5', 'd': Decimal('2')}"),
    ("Ov", "Ov('7', ['1.5', 'n/a', '1.5'], {'a': '1', 'b': 'x', 'c': '1'})"),
    ("tuple[typing.Union[int, str], typing.Union[int, str], typing.Union[int, str]]", "('7', 'x', '7')"),
    ("LitM", "1"), ("LitM", "False"), ("LitM", "2.5"), ("typing.Union[LitM, bool]", "True"), ("typing.Union[LitM, int, float]", "0"),
    ("typing.Union[LitM, int, float]", "1.0"), ("list[typing.Union[LitM, bool]]", "[1, True, False, 'a']"), ("typing.Union[Decimal, datetime.date]", "datetime.date(2020, 1, 2)"),
    ("typing.Union[list[int], dict[str, int]]", "{'a': 1}"), ("typing.Union[list[int], tuple[str, ...]]", "('a', 'b')"),
]
# Literal types and values that are not members under any reading (not == to a member)
LITERAL_REJECTS = [("LitQ", "2"), ("LitQ", "'b'"), ("LitQ", "None"), ("LitQ", "Decimal('3')"), ("LitQ", "[1]"),
                   ("LitN", "3"), ("LitN", "'None'"), ("LitN", "0"), ("typing.Literal['a']", "'A'"), ("typing.Literal[True]", "0"),
                   # == to a member of one class, class of another member: (value, class) matches no member
                   ("typing.Literal[1, False]", "True"), ("typing.Literal[1, False]", "0"),
                   ("typing.Literal['auto', 0, True]", "False"), ("typing.Literal['auto', 0, True]", "1"),
                   ("typing.Literal[1, 2.5]", "1.0"), ("typing.Literal[1, 2.5]", "2"), ("typing.Literal[0, 'a', 1.5]", "0.0"),
                   ("typing.Literal[True, 0]", "False"), ("typing.Literal[True, 0]", "1"), ("typing.Literal[1.0, False]", "0.0"),
                   ("LitM", "True"), ("LitM", "0"), ("LitM", "1.0"), ("LitM", "-0.0"),
                   # nested: the non-member must not come out
                   ("dict[str, typing.Literal[1, False]]", "{'k': True}"), ("list[typing.Literal['auto', 0, True]]", "['auto', 1]"),
                   ("LitHolder", "LitHolder(True)"), ("tuple[typing.Literal[1, 2.5], int]", "(1.0, 3)")]


def pool_ns():
    if "pool" not in _STATE:
        _STATE["pool"] = impl.new_module("verif_c06_pool", POOL_SRC).__dict__
    return _STATE["pool"]


def check_statement(t, make_value, label):
    """the statement on one (T, v): returns (failures, stats). make_value() builds a fresh v each time it is called."""
    from typelib import marshals
    fails = []
    v = make_value()
    snap = copy.deepcopy(v)
    impl.clear_caches()
    before = container_ids(v)
    try:
        with warnings.catch_warnings():
            warnings.simplefilter("ignore")
            r1 = marshals.marshal(v, t=t)
    except RecursionError:
        return [], "raised"
    except Exception:                 # noqa: BLE001 - the statement is about the output
        return [], "raised"

    def fail(symptom, detail):
        fails.append(dict(label, symptom=symptom, detail=str(detail)[:300], output=repr(r1)[:300]))

    w = why_not_wire(r1)
    if w:
        fail("output is not plain JSON-compatible data", w)
    else:
        try:
            json.dumps(r1)
        except Exception as e:        # noqa: BLE001
            fail("json.dumps rejects the output", repr(e))
    shared = [o for i, o in container_ids(r1).items() if i in before]
    if shared:
        fail("output shares a mutable container with the input", f"{type(shared[0]).__name__} {shared[0]!r}")
    if not coreprop.same(v, snap):
        fail("marshal modified its input", f"{v!r} != {snap!r}")
    try:
        with warnings.catch_warnings():
            warnings.simplefilter("ignore")
            r2 = marshals.marshal(v, t=t)              # warm caches
            impl.clear_caches()
            r3 = marshals.marshal(make_value(), t=t)   # cold caches, an equal value
        if not coreprop.same(r1, r2):
            fail("a second call returns a different result", f"{r2!r}")
        if not coreprop.same(r1, r3):
            fail("the call after clearing every cache returns a different result", f"{r3!r}")
        if not w and container_ids(r2).keys() & container_ids(r1).keys():
            fail("two calls return the same container object", "")
    except Exception as e:            # noqa: BLE001
        fail("a repeated call raised", repr(e))
    return fails, "ok"


def oracle_pool():
    ns = pool_ns()
    fails, n, raised = [], 0, 0
    for tsrc, vsrc in POOL:
        t = eval(tsrc, ns)
        f, st = check_statement(t, lambda: eval(vsrc, ns), {"kind": "pool", "type": tsrc, "value": vsrc})
        fails += f
        n += 1
        raised += st == "raised"
    return fails, n, raised


def oracle_literals():
    from typelib import marshals
    ns = pool_ns()
    fails, n = [], 0
    for tsrc, vsrc in LITERAL_REJECTS:
        t, v = eval(tsrc, ns), eval(vsrc, ns)
        vals = literal_values(t)
        assert vals is None or must_reject(vals, v), (tsrc, vsrc)
        impl.clear_caches()
        n += 1
        try:
            r = marshals.marshal(v, t=t)
            fails.append({"kind": "literal", "type": tsrc, "value": vsrc, "symptom": "a non-member of a Literal type is emitted",
                          "detail": repr(r), "output": repr(r)})
        except ValueError:
            pass
        except Exception as e:        # noqa: BLE001
            fails.append({"kind": "literal", "type": tsrc, "value": vsrc,
                          "symptom": "a non-member of a Literal type is rejected with another error than ValueError",
                          "detail": repr(e), "output": None})
    return fails, n


# ---- "the same on every call": sequences of DIFFERENT values through one cached marshaller, no cache clearing ----
SEQ_POOL = [
    ("typing.Union[int, str]", ["'7'", "'x'", "'7'", "7", "'8'", "SS('9')"]),
    ("typing.Union[float, str]", ["'1.5'", "'n/a'", "'1.5'", "2.5", "'inf'"]),
    ("typing.Union[Decimal, str]", ["'1.5'", "'n/a'", "Decimal('2')", "'1.5'"]),
    ("typing.Union[int, float, str]", ["'7'", "'7.5'", "'x'", "'7'", "7.5", "'7.5'"]),
    ("typing.Optional[typing.Union[int, str]]", ["'7'", "None", "'x'", "'7'"]),
    ("typing.Union[datetime.date, str]", ["'2020-01-02'", "'x'", "datetime.date(2020, 1, 2)", "'2020-01-02'"]),
    ("typing.Union[bool, str]", ["'a'", "''", "True", "'a'"]),
    ("list[typing.Union[float, str]]", ["['1.5', 'n/a', '1.5']", "['n/a']", "['1.5']", "['1.5', 'n/a', '1.5']"]),
    ("dict[str, typing.Union[int, str]]", ["{'a': '7'}", "{'a': 'x', 'b': '7'}", "{'a': '7'}"]),
    ("tuple[typing.Union[int, str], ...]", ["('7',)", "('x', '7')", "('7',)"]),
    ("Ov", ["Ov('7', ['1.5'], {'a': '1'})", "Ov('x', ['n/a'], {'a': 'y'})", "Ov('7', ['1.5'], {'a': '1'})"]),
    ("list[Ov]", ["[Ov('7', [], {})]", "[Ov('x', [], {}), Ov('7', [], {})]", "[Ov('7', [], {})]"]),
    ("typing.Union[LitM, bool, str]", ["True", "'a'", "1", "'b'", "False", "True"]),
]


def observe_marshal(t, v):
    from typelib import marshals
    try:
        with warnings.catch_warnings():
            warnings.simplefilter("ignore")
            return ("ok", marshals.marshal(v, t=t))
    except RecursionError:
        return ("raise", "ERecursion")
    except Exception as e:            # noqa: BLE001
        return ("raise", impl.exc_kind(e))


def same_obs(a, b):
    if a[0] != b[0]:
        return False
    return coreprop.same(a[1], b[1]) if a[0] == "ok" else a[1] == b[1]


def run_sequence(t, makers, order, alone=None):
    """alone[i] = the call made alone after clearing every cache; then ONE cold start and the calls of `order`
    without clearing anything in between.  Returns (first deviating position, alone, got) or None."""
    if alone is None:
        alone = []
        for mk in makers:
            impl.clear_caches()
            alone.append(observe_marshal(t, mk()))
    impl.clear_caches()
    for pos, i in enumerate(order):
        got = observe_marshal(t, makers[i]())
        if not same_obs(got, alone[i]):
            return pos, alone[i], got
    return None


def orders_for(n, rng):
    fwd = list(range(n))
    sh = fwd[:]
    rng.shuffle(sh)
    return [fwd + fwd, fwd[::-1] + fwd, sh + sh[::-1]]


def seq_failure(label, order, dev):
    pos, want, got = dev
    return dict(label, order=order[:pos + 1],
                symptom="the result of a call depends on earlier calls through the same cached marshaller",
                detail=f"call #{pos} (value index {order[pos]}): alone (caches cleared) {want!r}, in this sequence {got!r}",
                output=repr(got))


def oracle_sequences(seed):
    ns = pool_ns()
    rng = random.Random(seed)
    fails, n = [], 0
    for tsrc, vsrcs in SEQ_POOL:
        t = eval(tsrc, ns)
        makers = [lambda s=s: eval(s, ns) for s in vsrcs]
        for order in orders_for(len(vsrcs), rng):
            n += len(order)
            dev = run_sequence(t, makers, order)
            if dev:
                fails.append(seq_failure({"kind": "sequence", "type": tsrc, "values": vsrcs}, order, dev))
                break
    return fails, n


def oracle_generated_sequences(groups, seed):
    """every root of every group: its generated values (inside the quantifier) one after the other through the one
    cached marshaller, each compared with the observation made alone during the tie"""
    rng = random.Random(seed)
    fails, n = [], 0
    for g in groups:
        by_root = collections.defaultdict(list)
        for i, c in enumerate(g.cases):
            if g.extra[i][0] and g.extra[i][1]:
                by_root[c[1]].append(i)
        for ri, idx in by_root.items():
            if len(idx) < 2:
                continue
            try:
                blobs = [pickle.dumps(g.values[i]) for i in idx]
            except Exception:        # noqa: BLE001
                continue
            # the very objects observed alone (a rebuilt set may iterate in another order); marshal does not modify
            # its input (checked per case by check_statement)
            makers = [lambda i=i: g.values[i] for i in idx]
            alone = [g.obs[i] for i in idx]
            order = list(range(len(idx)))
            order = order + order[::-1]
            n += len(order)
            dev = run_sequence(g.pytys[ri], makers, order, alone)
            if dev:
                env = {k: x for k, x in g.env.items() if k != "wid"}
                fails.append(seq_failure({"kind": "generated-seq", "type": repr(g.pytys[ri]),
                                          "value": [repr(g.values[i])[:120] for i in idx],
                                          "env": base64.b64encode(pickle.dumps((env, g.roots[ri]))).decode(),
                                          "vals": [base64.b64encode(b).decode() for b in blobs],
                                          "module_source": g.src}, order, dev))
    return fails, n



def pack(g, ri, v):
    env = {k: x for k, x in g.env.items() if k != "wid"}
    return {"env": base64.b64encode(pickle.dumps((env, g.roots[ri]))).decode(),
            "val": base64.b64encode(pickle.dumps(v)).decode(),
            "module_source": g.src, "type": repr(g.pytys[ri]), "value": repr(v)[:300]}


def oracle_generated(groups, only=None):
    fails, n, raised, applicable = [], 0, 0, 0
    for g in groups:
        for i, (c, x) in enumerate(zip(g.cases, g.extra)):
            if only is not None and (g, i) not in only:
                continue
            fa, va, _ = x
            n += 1
            if not (fa and va):
                continue             # outside the quantifier
            applicable += 1
            ri = c[1]
            v = g.values[i]
            try:
                blob = pickle.dumps(v)
                mk = lambda blob=blob: pickle.loads(blob)
            except Exception:        # noqa: BLE001
                mk = lambda v=v: copy.deepcopy(v)
            f, st = check_statement(g.pytys[ri], mk, {"kind": "generated"})
            raised += st == "raised"
            for x_ in f:
                try:
                    x_.update(pack(g, ri, v))
                except Exception as e:        # noqa: BLE001
                    x_.update({"type": repr(g.pytys[ri]), "value": repr(v)[:300], "unpicklable": repr(e)})
            fails += f
    return fails, n, raised, applicable


def replay(payload):
    kind = payload.get("kind")
    if kind == "pool":
        ns = pool_ns()
        f, st = check_statement(eval(payload["type"], ns), lambda: eval(payload["value"], ns),
                                {"kind": "pool", "type": payload["type"], "value": payload["value"]})
        return {"fails": bool(f), "failures": f, "marshal": st}
    if kind == "literal":
        saved = list(LITERAL_REJECTS)
        try:
            LITERAL_REJECTS[:] = [(payload["type"], payload["value"])]
            f, _ = oracle_literals()
        finally:
            LITERAL_REJECTS[:] = saved
        return {"fails": bool(f), "failures": f}
    if kind == "sequence":
        ns = pool_ns()
        t = eval(payload["type"], ns)
        makers = [lambda s=s: eval(s, ns) for s in payload["values"]]
        dev = run_sequence(t, makers, payload["order"])
        f = [seq_failure({"kind": "sequence", "type": payload["type"], "values": payload["values"]}, payload["order"], dev)] if dev else []
        return {"fails": bool(f), "failures": f}
    if kind == "generated-seq" and "env" in payload:
        env, root = pickle.loads(base64.b64decode(payload["env"]))
        mod, tys, _ = universe.materialise(env, [root])
        blobs = [base64.b64decode(b) for b in payload["vals"]]
        makers = [lambda b=b: pickle.loads(b) for b in blobs]
        dev = run_sequence(tys[0], makers, payload["order"])
        f = [seq_failure({"kind": "generated-seq", "type": payload["type"]}, payload["order"], dev)] if dev else []
        return {"fails": bool(f), "failures": f}
    if kind == "generated" and "env" in payload:
        env, root = pickle.loads(base64.b64decode(payload["env"]))
        mod, tys, _ = universe.materialise(env, [root])
        blob = base64.b64decode(payload["val"])
        f, st = check_statement(tys[0], lambda: pickle.loads(blob), {"kind": "generated"})
        return {"fails": bool(f), "failures": f, "marshal": st}
    return {"fails": False, "failures": [], "note": "nothing to replay in this payload"}


def corpus_cases():
    d = os.path.join(lib.VERIF, "corpus", "C06")
    out = []
    if os.path.isdir(d):
        for fn in sorted(os.listdir(d)):
            if fn.endswith(".json"):
                p = json.load(open(os.path.join(d, fn)))
                out += [(fn, q) for q in (p if isinstance(p, list) else [p])]
    return out


POOL_CLASSES = ("Row", "Tree", "Leaf", "TD", "Ov", "LitHolder")


def cause_of(f):
    """coarse label used only to keep one representative per defect in the report"""
    t = str(f.get("type"))
    if "Lit" in t:
        return "a Literal member"
    if "None" in t or "Optional" in t or any(c in t for c in ("Row", "Tree", "Leaf")):
        return "a NoneType member"
    return "other"


def failure_key(f):
    return json.dumps([f.get("kind"), f.get("symptom"), f.get("type"), f.get("value"), f.get("values")], default=str)


def search(run: lib.Run, broken):
    fails = []
    ncorp = 0
    for fn, p in corpus_cases():
        ncorp += 1
        r = replay(p)
        for f in r["failures"]:
            f["corpus"] = fn
            fails.append(f)
    pf, npool, praised = oracle_pool()
    lf, nlit = oracle_literals()
    fails += pf + lf
    groups = _STATE.get("groups", [])
    # law violations and correspondence mismatches first: by construction the most likely places
    suspects = set(_STATE.get("mismatch", []))
    gf, ngen, graised, gappl = oracle_generated(groups)
    fails += gf
    sf, nseq = oracle_sequences(run.seed + 61)
    gsf, ngseq = oracle_generated_sequences(groups, run.seed + 62)
    fails += sf + gsf
    nextra = 0
    if broken and not fails:
        # harder: a fresh, larger stream
        class R2:
            seed = run.seed + 77
        more, _ = generate(R2, run.budget(20, 60), values_per_root=4)
        mf, n2, r2, a2 = oracle_generated(more)
        fails += mf
        nextra = n2
        coreprop.close(more)
    # shrink: per symptom keep the smallest (pool cases preferred: readable source)
    best = {}
    for f in fails:
        f["suspected_cause"] = cause_of(f)
        k = (f["symptom"], f.get("kind") == "literal", f["suspected_cause"])
        size = (f.get("kind") not in ("pool", "literal", "sequence"), any(c in str(f.get("type")) for c in POOL_CLASSES),
                len(str(f.get("type"))) + len(str(f.get("value"))))
        if k not in best or size < best[k][0]:
            best[k] = (size, f)
    order = ["output is not plain JSON-compatible data", "output shares a mutable container with the input"]
    out = [v[1] for v in sorted(best.values(), key=lambda v: (order.index(v[1]["symptom"]) if v[1]["symptom"] in order else 9, v[0]))]
    for f in out:
        f["key"] = failure_key(f)
        f["suspect_cases_from_tie"] = len(suspects)
        f["how_to_read"] = ("type/value are evaluated in the module POOL_SRC of harness/props/c06.py (kind=pool) or rebuilt from "
                            "module_source (kind=generated); marshal(value, t=type) must be exact None/bool/int/float/str/list/dict, "
                            "json-encodable, disjoint from the input's containers, repeatable, and leave the input unchanged")
    lawbad = _STATE.get("lawbad", [])
    run.search_stats["oracle"] = {
        "evaluations": npool + nlit + ngen + nextra + ncorp + nseq + ngseq,
        "sequence_pool_calls": nseq, "generated_sequence_calls": ngseq,
        "distinct_nontrivial": npool + nlit + gappl,
        "pool_cases": npool, "pool_marshal_raised": praised, "literal_reject_cases": nlit,
        "generated_cases": ngen, "generated_in_quantifier": gappl, "generated_marshal_raised": graised,
        "corpus_cases": ncorp, "extra_when_broken": nextra, "failures": len(fails),
        "leaf_law_violations": [{k: v for k, v in b.items() if k not in ("group", "x", "t")} for b in lawbad[:5]],
        "rule": "every (T, v) with T fully annotated and v valid: exact classes + primitive keys, json.dumps, id-disjoint "
                "containers, input unchanged (deep copy), warm second call and cold call on an equal value give the same "
                "result; every call of a sequence of different values through one cached marshaller (no cache clearing) equals "
                "the same call made alone after clearing every cache; Literal non-members (no member of the value's class "
                "equals it; values == a member but of no member's class are left open) raise ValueError, also when nested",
    }
    coreprop.close(groups)
    if out:
        run.samples.append({"oracle_failure": {k: v for k, v in out[0].items() if k not in ("env", "val", "module_source")}})
    return out


# ----------------------------------------------------------------------------------
# known findings
# ----------------------------------------------------------------------------------

def reproduces(entry):
    return replay(entry["replay"])["fails"]


def matches(entry, failure):
    m = entry.get("matches", {})
    if not m:
        return False
    for k, v in m.items():
        if k == "type_regex":
            if not re.search(v, str(failure.get("type", ""))):
                return False
        elif failure.get(k) != v:
            return False
    return True
