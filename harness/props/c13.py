"""C13 -- already-valid values pass through unmarshal unchanged; unmarshal is idempotent (DESIGN 7/C13).

Pipeline:
  prove       coq/theories/Props/C13.v (theorems over Model/Core.v for all runtimes, environments, annotations, values).
  correspond  core correspondence (Coq `unm`/`mar` on runtime tables vs typelib end to end) on union-free /
              Optional-only annotations with VALID values chosen adversarially for the text decoders, the C03 input
              pool derived from them, and the second application u(u(x)) of every successful result;
              + tie of the Coq definitions `valid` / `optional_only` / the guards to an independent
                Python reading (exact class at every position) on the same values;
              + the leaf laws of PassLaws / IdemLaws sampled on every (leaf, valid value) pair and on every leaf
                call made during the run.
  search      the statement itself on the implementation, without model or mirror:
              unmarshal(T, v) is v (classes and contents) for valid v;  u(u(x)) is u(x) whenever u(x) succeeds.
"""
from __future__ import annotations

import base64
import glob
import json
import os
import pickle
import random
import warnings

import c13_gen as G
import coregen
import coremodel
import coreprop
import impl
import lib
import leaftie
import routasttie
import heaptie
from lib import coq_bool, coq_list, coq_nat
from universe import LEAVES, cname, src_ty

COQ_TARGETS = ["theories/Props/C13.vo", "theories/Model/CoreTables.vo"]
COQ_TARGETS = COQ_TARGETS + [t for t in leaftie.COQ_TARGETS if t not in COQ_TARGETS]
COQ_TARGETS = COQ_TARGETS + [t for t in heaptie.COQ_TARGETS if t not in COQ_TARGETS]
COQ_TARGETS = COQ_TARGETS + [t for t in routasttie.COQ_TARGETS if t not in COQ_TARGETS]
THEOREMS = ["C13_passthrough", "C13_valid_fuel_mono", "C13_results_valid", "C13_idempotent",
            "C13_defaults_guard_sound", "C13_wf_guard_sound", "C13_refuted_idem_nonconforming_default",
            "C13_refuted_idem_general_union"]
FUEL = coremodel.FUEL
OO_FUEL = 7
NoneType = type(None)
_state: dict = {}

# ----------------------------------------------------------------------------------
# findings.d/C13.json is merged into known_findings.json by the lead; until then read it directly
# ----------------------------------------------------------------------------------
_lib_findings = lib.Run.findings


def local_findings(run):
    base = _lib_findings(run)
    p = os.path.join(lib.VERIF, "findings.d", "C13.json")
    if run.prop == "C13" and os.path.exists(p):
        have = {e["id"] for e in base}
        base = base + [e for e in json.load(open(p)).get("open", []) if e["id"] not in have and e["property"] == run.prop]
    return base


lib.Run.findings = local_findings


# ----------------------------------------------------------------------------------
# implementation access
# ----------------------------------------------------------------------------------

def u(t, x):
    from typelib import unmarshals
    with warnings.catch_warnings():
        warnings.simplefilter("ignore")
        return unmarshals.unmarshal(t, x)


def attempt(t, x):
    try:
        return ("ok", u(t, x))
    except RecursionError:
        return ("raise", "ERecursion", "RecursionError")
    except BaseException as e:       # noqa: BLE001
        return ("raise", impl.exc_kind(e), f"{type(e).__name__}: {e}"[:200])


# ----------------------------------------------------------------------------------
# generation
# ----------------------------------------------------------------------------------

class Mirror13(coremodel.Mirror):
    """the mirror, additionally remembering every leaf call (object level) for the leaf-idempotence law"""

    def __init__(self, reg, sup):
        super().__init__(reg, sup)
        self.leaf_log = []

    def leaf_u(self, name, x):
        y = super().leaf_u(name, x)
        if len(self.leaf_log) < 4000:
            self.leaf_log.append((name, x, y))
        return y

    def _unm(self, d, x):
        """a TypedDict of mixed totality (round 3): the required keys are env['required'][n], not all-or-none"""
        if d[0] in ("name", "ref", "aliasstr"):
            n = d[1] if d[0] != "aliasstr" else d[2]
            env = self.reg.env
            if n in env.get("required", {}) and env["defs"][n][0] == "class":
                fields = self.struct_fields(n)
                kw = {}
                for a, b in self.iteritems(self.load(x)):
                    self._hash(a)
                    if type(a) is str and a in fields:
                        kw[a] = self.unm(fields[a], b)
                if any(f not in kw for f in env["required"][n]):
                    raise coremodel.ModelRaise("EType")
                return self._construct(lambda: getattr(self.reg.mod, cname(n))(**kw))
        return super()._unm(d, x)


class Group13(coremodel.Group):
    """a Group whose classes are defined by the derivations of env['derive'] (c13_gen.materialise / Registry13)"""

    def __init__(self, env, roots, suppressed):
        import copy
        env, roots = copy.deepcopy((env, roots))
        self.env, self.roots = env, roots
        self.mod, self.pytys, self.src = G.materialise(env, roots)
        self.reg = G.Registry13(env, self.mod)
        self.mirror = Mirror13(self.reg, suppressed["u"])
        self.sup = suppressed
        self.cases = []
        self.fuel = FUEL
        self.orders = {"u": {}, "m": {}}
        self.order_problems = []
        self.reg.build_reverse(roots)


class Rec:
    __slots__ = ("group", "ri", "tdesc", "pytype", "value", "inputs", "results")

    def __init__(self, group, ri, value):
        self.group, self.ri, self.value = group, ri, value
        self.tdesc, self.pytype = group.roots[ri], group.pytys[ri]
        self.inputs = []
        self.results = []


def make_group(rng, gi, sup, depth, derive=False):
    env = G.gen_env(rng, ncls=rng.randint(1, 3), cyclic=(gi % 3 == 2), depth=depth, bad_defaults=(gi % 5 == 4),
                    derive=G.kind_cycle(gi) if derive else None)
    classes = [n for n, d in env["defs"].items() if d[0] in ("class", "alias")]
    roots = [("name", n) for n in classes]
    for _ in range(3):
        r = G.gen_ty(rng, env, depth + 1)
        x = rng.random()
        if x < 0.15 and r[0] != "union":
            r = ("final", r)
        elif x < 0.3:
            r = G.optional(rng, r)
        roots.append(r)
    # a mapping / set / list root over leaves that the text decoders like
    roots.append(rng.choice([
        ("map", "KDict", "dict[{}, {}]", ("leaf", "str"), ("leaf", "str")),
        ("seq", "KList", "list[{}]", ("leaf", "str")),
        ("seq", "KSet", "set[{}]", ("tuple", "tuple[{}]", [("leaf", "int"), ("leaf", "str")])),
        ("seq", "KList", "list[{}]", ("tuple", "tuple[{}]", [("leaf", "str"), ("leaf", "int")])),
        ("map", "KDict", "typing.Mapping[{}, {}]", ("tuple", "tuple[{}]", [("leaf", "int"), ("leaf", "int")]),
         ("seq", "KList", "list[{}]", ("leaf", "str"))),
        ("tuple", "tuple[{}]", [("leaf", "str"), ("leaf", "str")]),
    ]))
    if derive:
        # the derived classes also under the containers whose members the pairs detection peeks at
        cls = [n for n, d in env["defs"].items() if d[0] == "class"]
        if cls:
            c = ("name", rng.choice(cls))
            roots.append(rng.choice([("seq", "KList", "list[{}]", c), ("map", "KDict", "dict[{}, {}]", ("leaf", "str"), c),
                                     ("tuple", "tuple[{}]", [c, c]), ("union", "Optional", [c, ("none",)])]))
        g = Group13(env, roots, sup)
    else:
        g = coremodel.Group(env, roots, sup)
        g.mirror = Mirror13(g.reg, sup["u"])
    g.bad_defaults = G.defaults_conform(env, g.mod)
    return g


def generate(run, n_groups, seed_offset, values_per_root=3, depth=2, model=True, derive=False):
    """-> (groups, records).  With model=False nothing is recorded for Coq (oracle-only volume).
    derive: every class of every environment is defined by a derivation (c13_gen.DERIVATIONS, round robin)."""
    rng = random.Random(run.seed * 1000 + seed_offset)
    sup = coreprop.suppressed()
    groups, records = [], []
    for gi in range(n_groups):
        g = make_group(rng, gi, sup, depth, derive)
        for ri, r in enumerate(g.roots):
            for _ in range(values_per_root):
                try:
                    v = G.gen_value(rng, r, g.env, g.mod, depth=3)
                except RecursionError:
                    continue
                rec = Rec(g, ri, v)
                wire = None
                if model:
                    w = g.add("m", ri, v)
                    wire = w[1] if w[0] == "ok" else None
                else:
                    try:
                        from typelib import marshals
                        impl.clear_caches()
                        wire = marshals.marshal(v, t=g.pytys[ri])
                    except BaseException:        # noqa: BLE001
                        wire = None
                for tag, x in coregen.input_pool(rng, v, wire):
                    rec.inputs.append((tag, x))
                    if model:
                        obs = g.add("u", ri, x)
                        if obs[0] == "ok" and tag != "valid":
                            g.add("u", ri, obs[1])          # the second application, on the model as well
                            rec.results.append(obs[1])
                records.append(rec)
        groups.append(g)
    return groups, records


def generate_catalogue(run, model=True):
    """the exhaustive part of the derivation stratum: every derivation kind x every first-field family of
    c13_gen.CAT_CLASSES x its adversarial values (no rng).  Inputs: the value, its wire form, the JSON text of it."""
    sup = coreprop.suppressed()
    groups, records = [], []
    for flavour, kind in G.ALL_KINDS:
        env = G.catalogue_env(flavour, kind)
        g = Group13(env, list(G.CAT_ROOTS), sup)
        g.bad_defaults = G.defaults_conform(g.env, g.mod)
        for ri, specs in G.CAT_VALUES.items():
            for vi, spec in enumerate(specs):
                v = G.realise(spec, g.env, g.mod, flip=(vi % 2 == 1))
                rec = Rec(g, ri, v)
                if model:
                    w = g.add("m", ri, v)
                else:
                    from typelib import marshals
                    impl.clear_caches()
                    try:
                        w = ("ok", marshals.marshal(v, t=g.pytys[ri]))
                    except BaseException:        # noqa: BLE001
                        w = ("raise",)
                rec.inputs.append(("valid", v))
                if w[0] == "ok":
                    rec.inputs.append(("wire", w[1]))
                    if coregen.jsonable(w[1]):
                        rec.inputs.append(("json", json.dumps(w[1])))
                if model:
                    for tag, x in rec.inputs[:2]:        # (the JSON text goes to the oracle only: quick-tier budget)
                        obs = g.add("u", ri, x)
                        if obs[0] == "ok" and tag != "valid":
                            g.add("u", ri, obs[1])
                            rec.results.append(obs[1])
                records.append(rec)
        groups.append(g)
    return groups, records


def _step(g, k):
    d, ri, x, _ = g.raw[k]
    return {"dir": d, "type_expr": src_ty(g.roots[ri], g.env), "type": repr(g.pytys[ri]), "input": repr(x)[:300],
            "value_pickle": _pickle(x)}


def warm_derived(run, groups, max_fail=6):
    """coremodel.warm_pass for the derived groups: every recorded call of a group again in ONE process without clearing
    caches in between (forwards, then backwards) must give the outcome it gave cold.  A failure is shrunk to a two-call
    history and reported with the module source, so that the replay defines the classes by their derivations."""
    import time
    t0 = time.time()
    calls, fails, skipped = 0, [], 0

    def agree(a, b):
        return a[0] == b[0] and (coreprop.same(a[1], b[1]) if a[0] == "ok" else a[1] == b[1])

    for g in groups:
        raw = getattr(g, "raw", None)
        if not raw:
            continue
        if coremodel.union_spelling_collision(g.pytys):
            skipped += 1
            continue
        order = list(range(len(raw))) + list(reversed(range(len(raw))))
        impl.clear_caches()
        hist, bad = [], None
        for idx in order:
            d, ri, x, cold = raw[idx]
            warm = g.observe(d, ri, x, clear=False)
            calls += 1
            hist.append(idx)
            if not agree(cold, warm):
                bad = (idx, cold, warm)
                break
        if bad is None:
            continue
        idx, cold, warm = bad
        steps = hist
        for j in dict.fromkeys(hist[:-1]):                      # one earlier call that is enough?
            if _pickle(raw[j][2]) is None:
                continue
            impl.clear_caches()
            g.observe(raw[j][0], raw[j][1], raw[j][2], clear=False)
            w2 = g.observe(raw[idx][0], raw[idx][1], raw[idx][2], clear=False)
            calls += 2
            if not agree(cold, w2):
                steps, warm = [j, idx], w2
                break
        fails.append({
            "kind": "history", "key": f"history|{g.env['module']}|{raw[idx][0]}|{raw[idx][1]}",
            "symptom": "a call gives another outcome after earlier calls in the same process than it gives cold "
                       "(caches cleared only before the first call of the history)",
            "module_src": g.src, "module_name": g.env["module"], "derive": {str(k): v for k, v in (g.env.get("derive") or {}).items()},
            "steps": [_step(g, k) for k in steps[-12:]], "input": repr(raw[idx][2])[:300],
            "cold": repr(cold[1])[:400], "warm": repr(warm[1])[:400]})
        if len(fails) >= max_fail:
            break
    impl.clear_caches()
    run.record_corr("warm-replay[c13-derived](every case of the derived groups again without clearing caches, forwards then "
                    "backwards, vs its cold outcome)", calls,
                    [{k: v for k, v in f.items() if k not in ("module_src", "steps")} for f in fails],
                    dist={"groups": len(groups), "groups_skipped_for_union_spelling_collision": skipped,
                          "seconds": round(time.time() - t0, 1)})
    _state["history_fails"] = fails


def derivation_dist(groups):
    d = {}
    for g in groups:
        for n, spec in (g.env.get("derive") or {}).items():
            key = f"{g.env['defs'][n][1]}:{spec['kind']}"
            d[key] = d.get(key, 0) + 1
    return d


# ----------------------------------------------------------------------------------
# tie of the Coq definitions valid / optional_only / guards
# ----------------------------------------------------------------------------------

def emit_valid_tie(g, recs, name):
    """text appended inside Module <name>: lv table, cases, expected booleans computed by the independent Python reading"""
    reg = g.reg
    lvt = {}

    def on_leaf(key, v, ok):
        if ok:
            lvt[(reg.leaves[key], reg.enc(v))] = True

    strict = G.Validity(g.env, g.mod, on_leaf=on_leaf)
    vcases, descs = [], []
    for rec in recs:
        for tag, x in [("valid", rec.value)] + [(t, x) for t, x in rec.inputs if t != "valid"][:4] + \
                [("result", y) for y in rec.results[:4]]:
            try:
                ev = strict(rec.tdesc, x)
                enc = reg.enc(x)
            except Exception:       # noqa: BLE001   (objects the encoder has no form for)
                continue
            vcases.append(f"({reg.emit_ty(rec.tdesc)}, {enc}, {coq_bool(ev)})")
            descs.append({"type": repr(rec.pytype), "value": repr(x)[:300], "tag": tag, "py_valid": ev})
    # defaults: make the leaf tables know the defaults (fixlv asks leaf_u about them)
    for n, d in g.env["defs"].items():
        if d[0] != "class":
            continue
        for f, ft, default in d[3]:
            if default is None:
                continue
            g.mirror.depth = 0
            try:
                g.mirror.unm(ft, reg.default_value(n, f))
            except (coremodel.ModelRaise, RecursionError):
                pass
    names = [n for n, d in g.env["defs"].items() if d[0] in ("class", "alias")]
    # optional_only: the roots (all union-free / Optional-only by construction) and two general unions placed under
    # them.  Shallow fuel: on a cyclic environment the unfolding is a tree (exponential in the fuel).
    gu = ("union", "|", [("leaf", "int"), ("leaf", "str")])
    oo_cases = [(r, True) for r in g.roots] + [
        (("seq", "KList", "list[{}]", gu), False),
        (("union", "|", [("leaf", "int"), ("none",), ("leaf", "str")]), False),
        (("tuple", "tuple[{}]", [g.roots[0], ("map", "KDict", "dict[{}, {}]", ("leaf", "str"), gu)]), False),
        (("union", "|", [("none",), ("seq", "KList", "list[{}]", ("leaf", "str"))]), True)]
    assert all(G.optional_only(t, g.env) == e for t, e in oo_cases)
    text = (
        f"Definition lvt : list (nat * pv) := {coq_list([f'({coq_nat(s)}, {e})' for (s, e) in lvt], '(nat * pv)')}.\n"
        "Definition lv (s : nat) (v : pv) : bool := existsb (fun p => andb (Nat.eqb s (fst p)) (pv_eqb v (snd p))) lvt.\n"
        f"Definition vcases : list (ty * pv * bool) :=\n  {coq_list(vcases, '(ty * pv * bool)')}.\n"
        f"Definition bad_valid := mismatches (fun c : ty * pv * bool => match c with (t, v, ev) =>\n"
        f"  Bool.eqb (valid lv rt E {FUEL} t v) ev end) vcases.\n"
        f"Definition names : list nat := {coq_list([coq_nat(n) for n in names], 'nat')}.\n"
        f"Definition oo_cases : list (ty * bool) := {coq_list([f'({reg.emit_ty(t)}, {coq_bool(e)})' for t, e in oo_cases], '(ty * bool)')}.\n"
        f"Definition guards := (nodup_namesb E names, defaults_okb rt E {FUEL} names,\n"
        f"  forallb (fun c : ty * bool => Bool.eqb (optional_only E {OO_FUEL} (fst c)) (snd c)) oo_cases).\n"
    )
    expected = (True, not g.bad_defaults, True)
    return text, descs, expected


HEADER = coremodel.HEADER + "Require Import TL.Model.CoreValid.\n"


def evaluate(run, groups, records, tag, per_file=5):
    """core correspondence + definition tie, one Coq evaluation.  Returns (bad core, bad valid-tie, bad guards)."""
    by_group = {}
    for rec in records:
        by_group.setdefault(id(rec.group), []).append(rec)
    files, order, meta = {}, [], {}
    for fi in range(0, len(groups), per_file):
        chunk = groups[fi:fi + per_file]
        text, names = HEADER, []
        for gi, g in enumerate(chunk):
            nm = f"G{fi + gi}"
            tie, descs, expected = emit_valid_tie(g, by_group.get(id(g), []), nm)
            meta[id(g)] = (descs, expected)
            text += g.emit(nm).replace(f"End {nm}.\n", tie + f"End {nm}.\n")
            names.append(nm)
        for nm in names:
            text += f"Eval vm_compute in {nm}.bad.\nEval vm_compute in {nm}.bad_valid.\nEval vm_compute in {nm}.guards.\n"
        fname = f"cases_{tag}_{fi // per_file}.v"
        files[fname] = text
        order.append((fname, chunk))
    results = run.coq_eval_many(files, timeout=400)
    bad, badv, badg = [], [], []
    for fname, chunk in order:
        res = results[fname]
        if res is None or len(res) != 3 * len(chunk):
            run.oblige(f"evaluate:{fname}", False, "model evaluation did not compile")
            continue
        for gi, g in enumerate(chunk):
            descs, expected = meta[id(g)]
            bad += [g.cases[i][4] for i in lib.parse_nat_list(res[3 * gi])]
            badv += [descs[i] for i in lib.parse_nat_list(res[3 * gi + 1])]
            got = tuple(x.strip() == "true" for x in res[3 * gi + 2].strip().strip("()").split(","))
            if got != expected:
                badg.append({"module": g.env["module"], "coq (nodup names, defaults conform, optional_only as expected)": got,
                             "python": expected, "bad_defaults": g.bad_defaults, "source": g.src[-1500:]})
    ncases = sum(len(g.cases) for g in groups)
    distinct = len({(g.env["module"], c[0], c[1], c[2]) for g in groups for c in g.cases})
    raised = sum(1 for g in groups for c in g.cases if "Raise" in c[3])
    run.record_corr("core-unm-mar", ncases, bad, distinct, {
        "groups": len(groups), "marshal_cases": sum(1 for g in groups for c in g.cases if c[0] == "m"),
        "unmarshal_cases": sum(1 for g in groups for c in g.cases if c[0] == "u"),
        "observed_raise": raised, "observed_ok": ncases - raised,
        "roots": _root_dist(groups),
        "strata_groups": {"direct classes (round 1)": sum(1 for g in groups if not g.env.get("derive")),
                          "derived classes, random": sum(1 for g in groups if g.env.get("derive") and not g.env.get("catalogue")),
                          "derived classes, catalogue": sum(1 for g in groups if g.env.get("catalogue"))},
        "catalogue_inputs": "value and wire form: model and oracle; JSON text of the wire form: oracle only",
        "strata_cases": {"direct": sum(len(g.cases) for g in groups if not g.env.get("derive")),
                         "derived": sum(len(g.cases) for g in groups if g.env.get("derive"))},
        "class_derivations (flavour:kind -> classes; all expressible in the core model: same classdef)":
            derivation_dist(groups)})
    nv = sum(len(meta[id(g)][0]) for g in groups)
    run.record_corr("definition-tie:valid", nv, badv, nv, {
        "py_valid_true": sum(1 for g in groups for d in meta[id(g)][0] if d["py_valid"]),
        "py_valid_false": sum(1 for g in groups for d in meta[id(g)][0] if not d["py_valid"]),
        "of_which_results_of_unmarshal": sum(1 for g in groups for d in meta[id(g)][0] if d["tag"] == "result")})
    run.record_corr("definition-tie:guards", 3 * len(groups), badg, 3 * len(groups), {
        "envs_with_nonconforming_defaults": sum(1 for g in groups if g.bad_defaults)})
    if groups and groups[0].cases:
        run.samples.append(groups[0].cases[0][4])
    return bad, badv, badg


def _root_dist(groups):
    d = {}
    for g in groups:
        for r in g.roots:
            d[r[0]] = d.get(r[0], 0) + 1
    return d


# ----------------------------------------------------------------------------------
# leaf laws, sampled on the implementation
# ----------------------------------------------------------------------------------

def sample_laws(run, groups, records):
    """PassLaws.lv_pass, NoneLaws.none_pass / none_rejects, IdemLaws.leaf_idem.  Returns failures (with replay)."""
    from typelib import unmarshals
    sup = set(coreprop.suppressed()["u"])
    fails = []
    laws = {"lv_pass": 0, "none_pass": 0, "none_rejects": 0, "leaf_idem": 0}

    def fail(law, t_expr, src, modname, v, got):
        fails.append({"kind": "law", "law": law, "key": f"law:{law}:{t_expr}:{repr(v)[:80]}",
                      "type": t_expr, "value": repr(v)[:300], "got": got,
                      "module_src": src, "module_name": modname, "type_expr": t_expr, "value_pickle": _pickle(v)})

    def check_pass(t, t_expr, src, modname, v):
        impl.clear_caches()
        r = attempt(t, v)
        laws["lv_pass"] += 1
        if r[0] != "ok" or not G.same(r[1], v):
            fail("lv_pass", t_expr, src, modname, v, repr(r[1])[:300])

    def check_none(v, src="", modname=""):
        impl.clear_caches()
        r = attempt(NoneType, v)
        if v is None:
            laws["none_pass"] += 1
            if r[0] != "ok" or r[1] is not None:
                fail("none_pass", "type(None)", src, modname, v, repr(r[1])[:300])
        else:
            laws["none_rejects"] += 1
            if r[0] != "raise" or r[1] not in sup:
                fail("none_rejects", "type(None)", src, modname, v, repr(r[1:])[:300])

    # (leaf, valid value) pairs of the fixed pools
    for key in G.LEAF_VALUES:
        t_expr, t = LEAVES[key]
        for v in G.LEAF_VALUES[key] + G.NAN_LEAF_VALUES.get(key, []):
            check_pass(t, t_expr, "", "", v)
            check_none(v)
    check_none(None)
    # enums / literals of every environment; every leaf position of every generated valid value
    seen = set()
    for g in groups:
        src, modname = g.src, g.env["module"]
        for n, d in g.env["defs"].items():
            if d[0] in ("enum", "literal"):
                for v in G.leaf_pool(n, g.env, g.mod):
                    check_pass(getattr(g.mod, n), n, src, modname, v)
                    check_none(v, src, modname)

    def on_leaf_factory(g):
        def on_leaf(key, v, ok):
            if not ok:
                return
            k = (g.env["module"], key, type(v).__name__, repr(v))
            if k in seen:
                return
            seen.add(k)
            t = LEAVES[key][1] if key in LEAVES else getattr(g.mod, key)
            check_pass(t, LEAVES[key][0] if key in LEAVES else key, g.src, g.env["module"], v)
        return on_leaf

    for rec in records:
        g = rec.group
        G.Validity(g.env, g.mod, on_leaf=on_leaf_factory(g))(rec.tdesc, rec.value)
        check_none(rec.value, g.src, g.env["module"])
        for tag, x in rec.inputs[:3]:
            try:
                check_none(x, g.src, g.env["module"])
            except Exception:      # noqa: BLE001
                pass
    # leaf idempotence on every leaf call the mirror made
    for g in groups:
        for name, x, y in g.mirror.leaf_log:
            s = g.reg.leaves[name]
            t = g.reg.leaf_py[s]
            impl.clear_caches()
            r = attempt(t, y)
            laws["leaf_idem"] += 1
            if r[0] != "ok" or not G.same(r[1], y):
                fail("leaf_idem", LEAVES[name][0] if name in LEAVES else name, g.src, g.env["module"], y,
                     f"first: unmarshal(T, {x!r}) = {y!r}; second: {r[1]!r}"[:400])
    for k, n in laws.items():
        run.laws[k] = run.laws.get(k, 0) + n
    run.record_corr("laws:leaf-pass,none,leaf-idem", sum(laws.values()), [
        {k: f[k] for k in ("law", "type", "value", "got")} for f in fails], sum(laws.values()), laws)
    return fails


# ----------------------------------------------------------------------------------
# pipeline steps
# ----------------------------------------------------------------------------------

def prove(run: lib.Run):
    run.check_props("Props/C13.v", THEOREMS)
    run.assumptions += [
        "C13: the theorems are about Model/Core.v `unm` for every runtime satisfying PassLaws / IdemLaws "
        "(scalar routines return instances of their own type unchanged; NoneTypeUnmarshaller accepts None only and "
        "rejects with a suppressed exception; a scalar routine returns its own results unchanged): sampled on every run",
        "C13: model = code is the core correspondence (Coq unm/mar on runtime tables vs typelib.unmarshal/marshal)",
    ]


def correspond(run: lib.Run):
    n_groups = run.budget(40, 700)
    groups, records = generate(run, n_groups, seed_offset=13)
    # round 3: the class-derivation stratum (random environments in which every class is derived, + the catalogue)
    dg, dr = generate(run, run.budget(10, 80), seed_offset=1333, derive=True)
    cg, cr = generate_catalogue(run)
    run.log(f"generated: {len(groups)} direct + {len(dg)} derived + {len(cg)} catalogue environments, "
            f"{len(records)} + {len(dr)} + {len(cr)} valid values")
    groups, records = groups + dg + cg, records + dr + cr
    _state["groups"], _state["records"] = groups, records
    # every call again on warm caches: pass-through must hold for the k-th call too.  The shared layer rebuilds a
    # failing group from env["defs"] alone (coremodel.replay_warm), which would lose the class derivations: the
    # derived groups get the same pass here, with replays that carry the module source (kind "history")
    coremodel.warm_replay(run, [g for g in groups if not isinstance(g, Group13)], "c13")
    warm_derived(run, [g for g in groups if isinstance(g, Group13)])
    evaluate(run, groups, records, "c13")
    run.log("model evaluated")
    # PassLaws / IdemLaws are theorems of the scalar model (Props/LeafBridge.v: C13_passthrough_from_scalar_model ...);
    # every scalar leaf call recorded on this run is re-evaluated on that scalar model
    lib.run_tie(run, leaftie, groups=groups[:n_groups], tag="c13", props=False, streams=False)
    lib.run_tie(run, routasttie, props=False)      # the __call__ bodies of the composite routine classes, parsed and translated on this run, ARE Core's steps (Props/RoutineAst.v)
    lib.run_tie(run, heaptie, props=False, n_groups=run.budget(10, 60), seed_offset=13)      # C13H_*: same object vs equal fresh copy per position
    _state["law_fails"] = sample_laws(run, groups, records)
    run.log("laws sampled")


# ----------------------------------------------------------------------------------
# the oracle
# ----------------------------------------------------------------------------------

def _pickle(v):
    try:
        return base64.b64encode(pickle.dumps(v)).decode()
    except Exception:       # noqa: BLE001
        return None


def region_of(g, tdesc, y):
    """which guard of the theorem the failing idempotence case falls under (None: inside the statement)"""
    if not G.optional_only(tdesc, g.env):
        return "general-union"
    if g.bad_defaults:
        plain = G.Validity(g.env, g.mod)(tdesc, y)
        modulo = G.Validity(g.env, g.mod, default_ok=True)(tdesc, y)
        if modulo and not plain:
            return "nonconforming-default"
    return None


def payload(kind, g, ri, x, got, extra=None):
    t_expr = src_ty(g.roots[ri], g.env)
    p = {"kind": kind, "type": repr(g.pytys[ri]), "input": repr(x)[:400], "got": got,
         "module_src": g.src, "module_name": g.env["module"], "type_expr": t_expr, "value_pickle": _pickle(x),
         "key": f"{kind}:{t_expr}:{repr(x)[:100]}"}
    p.update(extra or {})
    return p


def _history_of(g, rec, t, trace, x):
    """u(x) did not return x after the calls of `trace` (same process, caches cleared before the first).  Does it when
    called cold?  Then the failure needs its history: -> a "history" payload (shrunk to one earlier call where that is
    enough), whose replay runs those calls; None: the failure is there cold as well (ordinary payload)."""
    passes = lambda r: r[0] == "ok" and G.same(r[1], x)
    impl.clear_caches()
    if not passes(attempt(t, x)):
        return None
    steps = None
    for k in range(len(trace)):
        if any(trace[k] is e for e in trace[:k]):
            continue
        impl.clear_caches()
        attempt(t, trace[k])
        r = attempt(t, x)
        if not passes(r):
            steps = [trace[k], x]
            break
    if steps is None:
        impl.clear_caches()
        for e in trace:
            attempt(t, e)
        r = attempt(t, x)
        if passes(r):
            return None              # not reproducible from this record's own calls
        steps = list(trace[-11:]) + [x]
    if any(_pickle(e) is None for e in steps):
        return None
    t_expr = src_ty(g.roots[rec.ri], g.env)
    return {"kind": "history", "key": f"history:{t_expr}:{repr(x)[:100]}",
            "symptom": "unmarshal(T, v) returns v when called cold, and something else after earlier calls in the same "
                       "process (caches cleared only before the first call of the history)",
            "module_src": g.src, "module_name": g.env["module"], "type": repr(g.pytys[rec.ri]),
            "steps": [{"dir": "u", "type_expr": t_expr, "input": repr(e)[:300], "value_pickle": _pickle(e)} for e in steps],
            "input": repr(x)[:400], "cold": repr(x)[:400], "warm": (repr(r[1:]) if r[0] != "ok" else repr(r[1]))[:400]}


def check_record(rec, stats, fails):
    """the statement on one generated value and its input pool.  The caches are cleared once per record, so the calls of
    a record form a history (the k-th call for the same classes): a failure that is not there cold is reported with
    the calls it needs (kind "history")."""
    g, t = rec.group, rec.pytype
    impl.clear_caches()
    trace = []
    # (a) pass-through
    stats["passthrough"] += 1
    if not G.Validity(g.env, g.mod)(rec.tdesc, rec.value):
        stats["generator_not_valid"] += 1        # never expected: the generator builds valid values
    r = attempt(t, rec.value)
    if r[0] != "ok" or not G.same(r[1], rec.value):
        fails.append(payload("passthrough", g, rec.ri, rec.value, repr(r[1:])[:400] if r[0] != "ok" else repr(r[1])[:400]))
    trace.append(rec.value)
    # (b) idempotence on the whole pool
    for tag, x in rec.inputs:
        r1 = attempt(t, x)
        trace.append(x)
        stats["pool_inputs"] += 1
        if r1[0] != "ok":
            continue
        stats["idempotence"] += 1
        y = r1[1]
        r2 = attempt(t, y)
        if r2[0] == "ok" and G.same(r2[1], y):
            trace.append(y)
            continue
        h = _history_of(g, rec, t, trace, y)
        if h is not None:
            stats["history_fail"] += 1
            fails.append(h)
            impl.clear_caches()
            trace = []
            continue
        region = region_of(g, rec.tdesc, y)
        stats["idem_fail_" + (region or "inside")] += 1
        fails.append(payload("idempotence", g, rec.ri, x,
                             f"u(x) = {y!r}; u(u(x)) = {r2[1:] if r2[0] != 'ok' else r2[1]!r}"[:500],
                             {"tag": tag, "region": region,
                              "key": f"idempotence:{region}:{src_ty(g.roots[rec.ri], g.env)}:{repr(x)[:100]}"}))
        trace.append(y)


def run_corpus(stats, fails):
    for p in sorted(glob.glob(os.path.join(lib.VERIF, "corpus", "C13", "*.json"))):
        for i, entry in enumerate(json.load(open(p))):
            stats["corpus"] += 1
            r = replay(entry)
            if r.get("fails"):
                e = dict(entry)
                e.update({"kind": entry.get("kind", "passthrough"), "got": r.get("got"),
                          "key": f"corpus:{os.path.basename(p)}:{i}", "corpus": os.path.basename(p)})
                fails.append(e)


def search(run: lib.Run, broken):
    import collections
    stats = collections.Counter()
    fails = list(_state.get("law_fails", [])) + list(_state.get("history_fails", []))
    run_corpus(stats, fails)
    for rec in _state.get("records", []):
        check_record(rec, stats, fails)
    # oracle-only volume (no Coq): more when something is broken
    n_extra = run.budget(80, 2000) * (3 if broken else 1)
    groups, records = generate(run, n_extra, seed_offset=1313, model=False, values_per_root=4)
    for rec in records:
        check_record(rec, stats, fails)
    coreprop.close(groups)
    n_derived = run.budget(30, 300) * (3 if broken else 1)
    groups, records = generate(run, n_derived, seed_offset=131313, model=False, values_per_root=4, derive=True)
    stats["oracle_only_derived_groups"] = n_derived
    for k, v in derivation_dist(groups).items():
        stats["derived " + k] += v
    for rec in records:
        check_record(rec, stats, fails)
    coreprop.close(groups)
    coreprop.close(_state.get("groups", []))
    run.search_stats["oracle"] = {"evaluations": stats["passthrough"] + stats["idempotence"] + stats["corpus"],
                                  "distinct_nontrivial": stats["passthrough"] + stats["idempotence"],
                                  **dict(stats)}
    # smallest first
    fails.sort(key=lambda f: len(f.get("input", f.get("value", ""))))
    return fails


# ----------------------------------------------------------------------------------
# replay
# ----------------------------------------------------------------------------------

def _materialise(p):
    name = p.get("module_name") or "verif_core_c13_replay"
    src = p.get("module_src") or ""
    from universe import PRELUDE
    if not src.startswith(PRELUDE):
        src = PRELUDE + "import re\n" + src
    impl.drop_module(name)
    mod = impl.new_module(name, src)
    t = eval(p["type_expr"], mod.__dict__)
    if p.get("value_expr") is not None:
        v = eval(p["value_expr"], mod.__dict__)
    else:
        v = pickle.loads(base64.b64decode(p["value_pickle"]))
    return mod, t, v


def replay(p):
    """{'fails': bool, ...}: re-runs one reported case on the implementation"""
    if p.get("kind") == "history":
        return replay_history(p)
    if p.get("kind") == "obligation-or-correspondence-broken" or "type_expr" not in p:
        return {"fails": False, "note": "nothing to replay (no failing input recorded)"}
    mod, t, v = _materialise(p)
    impl.clear_caches()
    kind = p.get("kind", "passthrough")
    try:
        if kind == "law":
            law = p["law"]
            r = attempt(t, v)
            if law == "none_rejects":
                sup = set(coreprop.suppressed()["u"])
                return {"fails": not (r[0] == "raise" and r[1] in sup), "got": repr(r)[:300]}
            return {"fails": not (r[0] == "ok" and G.same(r[1], v)), "got": repr(r[1:])[:300]}
        if kind == "passthrough":
            r = attempt(t, v)
            return {"fails": not (r[0] == "ok" and G.same(r[1], v)), "input": repr(v)[:300], "got": repr(r[1:])[:300]}
        r1 = attempt(t, v)
        if r1[0] != "ok":
            return {"fails": False, "note": "first call raises", "got": repr(r1[1:])[:300]}
        r2 = attempt(t, r1[1])
        return {"fails": not (r2[0] == "ok" and G.same(r2[1], r1[1])), "first": repr(r1[1])[:300], "second": repr(r2[1:])[:300]}
    finally:
        impl.drop_module(mod.__name__)


def replay_history(p):
    """the last call of the history cold vs after the earlier calls (caches cleared once, before the first)"""
    from typelib import marshals
    from universe import PRELUDE
    name, src = p["module_name"], p["module_src"]
    if not src.startswith(PRELUDE):
        src = PRELUDE + "import re\n" + src
    impl.drop_module(name)
    mod = impl.new_module(name, src)
    try:
        steps = []
        for st in p["steps"]:
            if st.get("value_expr") is not None:
                x = eval(st["value_expr"], mod.__dict__)
            elif st.get("value_pickle") is not None:
                x = pickle.loads(base64.b64decode(st["value_pickle"]))
            else:
                return {"fails": False, "note": "an input of the history cannot be rebuilt (not picklable)"}
            steps.append((st["dir"], eval(st["type_expr"], mod.__dict__), x))

        def call(d, t, x):
            if d == "u":
                return attempt(t, x)[:2]
            try:
                with warnings.catch_warnings():
                    warnings.simplefilter("ignore")
                    return ("ok", marshals.marshal(x, t=t))
            except RecursionError:
                return ("raise", "ERecursion")
            except BaseException as e:       # noqa: BLE001
                return ("raise", impl.exc_kind(e))
        impl.clear_caches()
        cold = call(*steps[-1])
        impl.clear_caches()
        warm = None
        for st in steps:
            warm = call(*st)
        ok = cold[0] == warm[0] and (coreprop.same(cold[1], warm[1]) if cold[0] == "ok" else cold[1] == warm[1])
        return {"fails": not ok, "cold": repr(cold)[:300], "after_history": repr(warm)[:300]}
    finally:
        impl.drop_module(name)


def reproduces(entry) -> bool:
    return bool(replay(entry["replay"]).get("fails"))


def matches(entry, failure) -> bool:
    m = entry.get("matches", {})
    return failure.get("kind") == m.get("kind") and failure.get("region") == m.get("region")
