"""C08 -- union members are tried in declared order, None always honoured (DESIGN 7/C08).

Pipeline:
  prove       measure which exception kinds the two Union routines swallow (scripted member raising each
              kind on the live classes) -> GenSuppress.v; compile coq/dyn/C08/C08.v against it.
  correspond  (a) real UnionUnmarshaller/UnionMarshaller instantiated on a context of scripted stub members,
              (b) constructor order (self.stack) for every None position, (c) real members from the pool of 12,
              member outcomes measured with fresh factories and fed to the model as scripts;
              all compared inside Coq (vm_compute), mismatch indexes computed there.
  search      the statement itself, executed on the implementation without the model.
"""
import collections
import functools
import itertools
import json
import operator
import os
import random
import typing

import impl
import lib
from lib import coq_bool, coq_list, coq_nat

COQ_TARGETS = ["theories/Proofs/UnionLemmas.vo", "theories/Model/UnionEq.vo", "theories/Props/C08Bridge.vo"]
# the union step of the core value model IS this model (Props/C08Bridge.v): C08's statements hold of Core.unm / Core.mar
BRIDGE_THEOREMS = ["C08Bridge_embedding_faithful", "C08Bridge_unmarshal", "C08Bridge_marshal", "C08Bridge_first_acceptor",
                   "C08Bridge_none", "C08Bridge_raises_value", "C08Bridge_marshal_none", "C08Bridge_marshal_first_acceptor"]
THEOREMS = ["C08_every_rejection_swallowed", "C08_rejects_is_swallowed", "C08_first_acceptor", "C08_order",
            "C08_none", "C08_none_first_harmless", "C08_raises_value", "C08_value_only_if_all_reject",
            "C08_nonetype_routine", "C08m_none", "C08m_first_acceptor", "C08m_raises_value",
            "C08m_value_only_if_all_reject", "C08_pinned_rotation_refuted"]
NoneType = type(None)


# ----------------------------------------------------------------------------------
# exception kinds (constructors of Model/Union.v exn) and their representatives
# ----------------------------------------------------------------------------------

class CustomError(Exception):
    pass


class CustomBase(BaseException):
    pass


def _kinds():
    import decimal
    import re
    return [
        ("EValue", lambda: ValueError("v")),
        ("EUnicode", lambda: UnicodeDecodeError("utf-8", b"\xff", 0, 1, "invalid start byte")),
        ("EType", lambda: TypeError("t")),
        ("ESyntax", lambda: SyntaxError("s")),
        ("EAttribute", lambda: AttributeError("a")),
        ("EArith", lambda: decimal.InvalidOperation("d")),
        ("EOverflow", lambda: OverflowError("o")),
        ("EZeroDiv", lambda: ZeroDivisionError("z")),
        ("EKey", lambda: KeyError("k")),
        ("EIndex", lambda: IndexError("i")),
        ("EOS", lambda: OSError(75, "Value too large")),
        ("ERuntime", lambda: RuntimeError("r")),
        ("ERecursion", lambda: RecursionError("r")),
        ("EStopIter", lambda: StopIteration()),
        ("EAssert", lambda: AssertionError("a")),
        ("EMemory", lambda: MemoryError()),
        ("ERegex", lambda: re.error("bad pattern")),
        ("EOther", lambda: CustomError("c")),
        ("EKeyboard", lambda: KeyboardInterrupt()),
        ("ESysExit", lambda: SystemExit(3)),
        ("EGenExit", lambda: GeneratorExit()),
        ("EBaseOther", lambda: CustomBase("b")),
    ]


KINDS = _kinds()
KIND_NAMES = [k for k, _ in KINDS]
MAKE = dict(KINDS)
EXC_KINDS = [k for k in KIND_NAMES if k not in ("EKeyboard", "ESysExit", "EGenExit", "EBaseOther")]


def kind_of(e: BaseException) -> str:
    """most specific representative class in the MRO of e"""
    import re
    order = [("EUnicode", UnicodeError), ("EValue", ValueError), ("EType", TypeError), ("ESyntax", SyntaxError),
             ("EAttribute", AttributeError), ("EOverflow", OverflowError), ("EZeroDiv", ZeroDivisionError),
             ("EArith", ArithmeticError), ("EKey", KeyError), ("EIndex", IndexError), ("EOS", OSError),
             ("ERecursion", RecursionError), ("ERuntime", RuntimeError), ("EStopIter", StopIteration),
             ("EAssert", AssertionError), ("EMemory", MemoryError), ("ERegex", re.error), ("EOther", Exception),
             ("EKeyboard", KeyboardInterrupt), ("ESysExit", SystemExit), ("EGenExit", GeneratorExit)]
    for k, c in order:
        if isinstance(e, c):
            return k
    return "EBaseOther"


# ----------------------------------------------------------------------------------
# scripted stub members; markers for member types
# ----------------------------------------------------------------------------------

class M0: pass
class M1: pass
class M2: pass
class M3: pass
class M4: pass


MARKERS = [M0, M1, M2, M3, M4]


class Stub:
    """a member routine following a script; values: None and small positive ints"""
    def __init__(self, script):
        self.script = script

    def __call__(self, val):
        s = self.script
        if s[0] == "ok":
            return s[1]
        if s[0] == "raise":
            raise MAKE[s[1]]()
        if s[0] == "none_or":          # rejects None with kind s[1], answers s[2] otherwise
            if val is None:
                raise MAKE[s[1]]()
            return s[2]
        if s[0] == "only_none":        # answers s[1] on None, rejects the rest with kind s[2]
            if val is None:
                return s[1]
            raise MAKE[s[2]]()
        if s[0] == "echo":
            return val
        raise AssertionError(s)


def tok(v) -> int:
    if v is None:
        return 0
    assert isinstance(v, int) and 0 < v < 4000, v
    return v


def emit_res(r) -> str:
    return f"(Ok {coq_nat(r[1])})" if r[0] == "ok" else f"(Raise {r[1]})"


def emit_script(s) -> str:
    if s[0] == "ok":
        return f"SConst (Ok {coq_nat(tok(s[1]))})"
    if s[0] == "raise":
        return f"SConst (Raise {s[1]})"
    if s[0] == "none_or":
        return f"SNoneOr {s[1]} {coq_nat(tok(s[2]))}"
    if s[0] == "only_none":
        return f"SOnlyNone {coq_nat(tok(s[1]))} {s[2]}"
    if s[0] == "echo":
        return "SEcho"
    if s[0] == "real_none":
        return "SNoneType"
    raise AssertionError(s)


def emit_case(members, xt, obs) -> str:
    ms = coq_list([f"({coq_bool(f)}, {emit_script(s)})" for f, s in members], "(bool * script)")
    return f"({ms}, {coq_nat(xt)}, {emit_res(obs)})"


def spell(types, spelling):
    """the annotation object for the declared member tuple"""
    if spelling == "Union":
        return typing.Union[tuple(types)]
    if spelling == "Optional":
        assert types[-1] is NoneType and len(types) >= 2
        return typing.Optional[typing.Union[tuple(types[:-1])]]
    if spelling == "Or":
        return functools.reduce(operator.or_, [None if t is NoneType else t for t in types])
    raise AssertionError(spelling)


def spellings_for(types):
    sp = ["Union", "Or"]
    if types[-1] is NoneType:
        sp.append("Optional")
    return sp


def routine_classes(side):
    if side == "u":
        from typelib.unmarshals import routines
        return routines, routines.UnionUnmarshaller, routines.NoneTypeUnmarshaller
    from typelib.marshals import routines
    return routines, routines.UnionMarshaller, routines.NoOpMarshaller


def build_stub_union(side, members, spelling):
    """real Union routine over a context mapping marker types to stubs.
    members: [(is_none, script)]; a ("real_none",) script = the library's own routine for NoneType."""
    from typelib import ctx
    _, ucls, ncls = routine_classes(side)
    context = ctx.TypeContext()
    types = []
    mk = iter(MARKERS)
    for is_none, script in members:
        t = NoneType if is_none else next(mk)
        types.append(t)
        if script[0] == "real_none":
            context[t] = ncls(t, context)
        else:
            context[t] = Stub(script)
    ann = spell(types, spelling)
    impl.clear_caches()
    return ucls(ann, context), types, ann


def observe(fn, *a):
    try:
        return ("ok", fn(*a))
    except BaseException as e:      # noqa: BLE001 - KeyboardInterrupt & co are scripted kinds here
        return ("raise", kind_of(e), e)


# ----------------------------------------------------------------------------------
# reflect: measured suppress tables
# ----------------------------------------------------------------------------------

def measure_suppressed():
    tables, problems = {}, []
    for side in ("u", "m"):
        tab = {}
        for k in KIND_NAMES:
            votes = set()
            for members, x, hit in (
                ([(False, ("raise", k)), (False, ("ok", 7))], 3, 7),
                ([(False, ("raise", k)), (False, ("raise", k)), (False, ("ok", 8))], 3, 8),
                ([(False, ("none_or", k, 5)), (False, ("ok", 9))], None, 9),
            ):
                u, _, _ = build_stub_union(side, members, "Union")
                r = observe(u, x)
                if r[0] == "ok" and r[1] == hit:
                    votes.add(True)
                elif r[0] == "raise" and r[1] == k:
                    votes.add(False)
                else:
                    problems.append(f"{side}:{k}: unexpected outcome {r[:2]!r}")
            if len(votes) != 1:
                problems.append(f"{side}:{k}: suppression is not a function of the kind: {votes}")
            tab[k] = votes == {True}
        tables[side] = tab
    return tables, problems


def gen_suppress_v(tables) -> str:
    def fn(name, tab):
        arms = " ".join(f"| {k} => {coq_bool(tab[k])}" for k in KIND_NAMES)
        return f"Definition {name} (e : exn) : bool :=\n  match e with {arms} end.\n"
    return ("(* generated on this run: which exception kinds UnionUnmarshaller (sup_u) and UnionMarshaller (sup_m)\n"
            "   swallow, measured by injecting a scripted member routine raising each kind *)\n"
            "Require Import TL.Model.Union.\n" + fn("sup_u", tables["u"]) + fn("sup_m", tables["m"]))


_STATE: dict = {}


def prove(run: lib.Run):
    tables, problems = measure_suppressed()
    _STATE["tables"] = tables
    run.oblige("reflect:suppressed kinds measured on both Union routines", not problems, "; ".join(problems[:4]))
    run.extra_cov["suppressed_kinds"] = {s: [k for k in KIND_NAMES if t[k]] for s, t in tables.items()}
    ok = run.compile_dyn("GenSuppress.v", text=gen_suppress_v(tables))
    _STATE["gen_ok"] = ok
    if ok:
        ok2 = run.compile_dyn("C08.v", src=os.path.join(lib.DYN, "C08", "C08.v"), theorems=THEOREMS)
        if ok2 and run.tier == "thorough":
            rc, out, err = lib.sh(["coqchk", "-o", "-silent", "-Q", lib.THEORIES, "TL", "-Q", run.build, "TLRun", "TLRun.C08"],
                                  timeout=900, cwd=run.build)
            txt = out + err
            clean = rc == 0 and "Axioms: <none>" in txt and "type-in-type: <none>" in txt and \
                "unsafe (co)fixpoints: <none>" in txt and "positivity is assumed: <none>" in txt
            run.oblige("coqchk:-o TLRun.C08 (no axioms, nothing assumed)", clean, txt[-400:] if not clean else "")
            run.checker_cmds.append("coqchk -o -Q coq/theories TL -Q build/C08/thorough TLRun TLRun.C08")
            run.extra_cov["coqchk"] = " ".join(txt.split())[-300:]
    run.check_props("Props/C08Bridge.v", BRIDGE_THEOREMS)
    run.assumptions += [
        "C08: member routines, the value universe and serdes.decode are abstract (Section variables); the theorems "
        "quantify over all of them. That ordered_routines[i] behaves like a fresh unmarshaller(A_i) (context lookup) is "
        "tied by the real-member correspondence and the oracle, not proved",
        "C08: the NoneType member's routine enters as hypothesis none_member_ok (accepts None, rejects the rest), proved "
        "for the model of NoneTypeUnmarshaller under decode_ok (decode(None) is None; nothing else decodes to None)",
        "C08: exceptions are abstracted to 22 kinds by MRO; the suppressed set is measured with one representative per kind",
        "C08: typing's own normalisation (dedup, flattening, Optional[X] = Union[X, None]) is interpreter behaviour: the "
        "declared order is typing.get_args of the annotation object",
    ]


# ----------------------------------------------------------------------------------
# correspondence (a): scripted members
# ----------------------------------------------------------------------------------

def gen_stub_cases(rng: random.Random, n: int):
    """[(side, members, spelling, x)]; systematic part first (every kind x position x None position)."""
    cases = []
    for side in ("u", "m"):
        real = ("real_none",)
        for k in KIND_NAMES:
            for nmem in (2, 3):
                for pos in range(nmem):
                    mem = [(False, ("ok", 10 + i)) for i in range(nmem)]
                    mem[pos] = (False, ("raise", k))
                    cases.append((side, list(mem), "Union", 3))
                    # all reject with k
                    cases.append((side, [(False, ("raise", k))] * nmem, "Or", 3))
                    # with a None member at every position, None and non-None input
                    for npos in range(nmem + 1):
                        m2 = list(mem)
                        m2.insert(npos, (True, real))
                        for x in (None, 2):
                            cases.append((side, m2, rng.choice(spellings_for([NoneType if f else int for f, _ in m2])), x))
    while len(cases) < n:
        side = rng.choice("um")
        nmem = rng.choice([2, 2, 3, 3, 4, 5])
        npos = rng.choice([None] + list(range(nmem)))
        mem = []
        for i in range(nmem):
            if i == npos:
                r = rng.random()
                if r < 0.7:
                    s = ("real_none",)
                elif r < 0.8:
                    s = ("only_none", None, rng.choice(KIND_NAMES))
                else:
                    s = gen_script(rng, i)
                mem.append((True, s))
            else:
                mem.append((False, gen_script(rng, i)))
        x = rng.choice([None, None, 1, 2, 3])
        types = [NoneType if f else int for f, _ in mem]
        cases.append((side, mem, rng.choice(spellings_for(types)), x))
    return cases


def gen_script(rng, i):
    r = rng.random()
    if r < 0.30:
        return ("ok", rng.choice([None, 10 + i, 10 + i, 20]))
    if r < 0.65:
        return ("raise", rng.choice(KIND_NAMES if rng.random() < 0.5 else EXC_KINDS))
    if r < 0.80:
        return ("none_or", rng.choice(KIND_NAMES), 30 + i)
    if r < 0.92:
        return ("only_none", rng.choice([None, 40 + i]), rng.choice(EXC_KINDS))
    return ("echo",)


def model_script(side, s):
    """the script the model runs for a member: the library's own NoneType routine is NoneTypeUnmarshaller on the
    unmarshal side and NoOpMarshaller (echo) on the marshal side"""
    if s[0] == "real_none" and side == "m":
        return ("echo",)
    return s


def run_stub_case(case):
    side, members, spelling, x = case
    u, types, ann = build_stub_union(side, members, spelling)
    declared = list(typing.get_args(ann))
    r = observe(u, x)
    obs = ("ok", tok(r[1])) if r[0] == "ok" else ("raise", r[1])
    stack = [types.index(t) for t in u.stack]
    return obs, stack, declared == types


def eval_shards(run, prefix, okfn, coq_cases, per=500, ty="ucase"):
    """mismatching indexes of the (non-None) coq case strings, evaluated in shards"""
    hdr = ("From Coq Require Import List. Import ListNotations.\n"
           "Require Import TL.Model.Union TL.Model.UnionEq TLRun.GenSuppress.\n")
    files = {}
    for k in range(0, len(coq_cases), per):
        body = coq_cases[k:k + per]
        files[f"{prefix}_{k // per}.v"] = (hdr + f"Definition cases : list {ty} :=\n  " + coq_list(body).replace("); (", ");\n  (") +
                                           f".\nEval vm_compute in mismatches {okfn} cases.\n")
    res = run.coq_eval_many(files)
    bad = []
    for name, out in res.items():
        k = int(name[len(prefix) + 1:-2]) * per
        if out is None:
            run.oblige(f"evaluate:{name}", False, "model evaluation did not compile")
            bad += list(range(k, min(k + per, len(coq_cases))))
        else:
            bad += [k + j for j in lib.parse_nat_list(out[-1])]
    return sorted(bad)


def correspond(run: lib.Run):
    if not _STATE.get("gen_ok"):
        run.record_corr("union-stubs", 0, [{"error": "GenSuppress.v did not compile"}], 0, {})
        return
    # ---- (a) scripted members
    n = run.budget(2500, 24000)
    cases = gen_stub_cases(run.rng, n)
    by_side = {"u": [], "m": []}
    order_cases, order_desc = [], []
    dist = collections.Counter()
    descs = {"u": [], "m": []}
    normalised = 0
    for c in cases:
        side, members, spelling, x = c
        obs, stack, same = run_stub_case(c)
        normalised += not same
        mm = [(f, model_script(side, s)) for f, s in members]
        by_side[side].append(emit_case(mm, tok(x), obs))
        descs[side].append({"layer": "union-stubs", "side": side, "members": members, "spelling": spelling,
                            "input": x, "observed": obs, "stack": stack})
        dist[f"{side}:n={len(members)}:none@{next((i for i, (f, _) in enumerate(members) if f), '-')}"] += 1
        dist[f"obs:{obs[0]}:{obs[1] if obs[0] == 'raise' else ('None' if obs[1] == 0 else 'val')}"] += 1
        dist[f"spelling:{spelling}"] += 1
        dist[f"input:{'None' if x is None else 'obj'}"] += 1
        if side == "u":
            order_cases.append("(%s, %s)" % (coq_list([coq_bool(f) for f, _ in members], "bool"),
                                             coq_list([coq_nat(i) for i in stack], "nat")))
            order_desc.append({"layer": "union-order", "flags": [f for f, _ in members], "spelling": spelling, "stack": stack})
    bad_all = []
    for side, okfn in (("u", "(unm_case_ok sup_u)"), ("m", "(mar_case_ok sup_m)")):
        bad = eval_shards(run, f"cases_stub_{side}", okfn, by_side[side])
        bad_all += [descs[side][i] for i in bad]
    _STATE["stub_mismatch"] = bad_all
    distinct = len(set(by_side["u"])) + len(set(by_side["m"]))
    dist["annotations normalised by typing"] = normalised
    run.record_corr("union-stubs", len(cases), bad_all, distinct, dict(dist))
    run.samples.append(descs["u"][0])
    # ---- (b) constructor order
    uniq = sorted(set(order_cases))
    bad = eval_shards(run, "cases_order", "order_case_ok", uniq, ty="order_case")
    run.record_corr("union-order", len(order_cases), [{"case": uniq[i]} for i in bad], len(uniq),
                    {"distinct (flags, stack) pairs": len(uniq)})
    # ---- (c) real members
    real = real_observations(run)
    bad_real = []
    ndist = 0
    for side, okfn in (("u", "(unm_case_ok sup_u)"), ("m", "(mar_case_ok sup_m)")):
        first = real["uniq"][side]
        uniq = sorted(first)
        ndist += len(uniq)
        bad = eval_shards(run, f"cases_real_{side}", okfn, uniq)
        bad_real += [first[uniq[i]] for i in bad]
    _STATE["real_mismatch"] = bad_real
    run.record_corr("union-real-members", real["n"], bad_real, ndist,
                    dict(real["dist"], **{"distinct (member outcome pattern, None-ness, observed) triples": ndist}))
    if real["sample"]:
        run.samples.append(real["sample"])


def slim(o):
    return {k: v for k, v in o.items() if k not in ("coq",)}


# ----------------------------------------------------------------------------------
# real members: the pool of 12 and the input pool
# ----------------------------------------------------------------------------------

TYPES_SRC = '''
import dataclasses, datetime, decimal, enum, typing, uuid
from datetime import date, datetime as dt, timedelta, timezone
from decimal import Decimal
from uuid import UUID

@dataclasses.dataclass
class DC:
    a: int
    b: str = "x"

class En(enum.Enum):
    A = 1
    B = "b"

Lit = typing.Literal[1, "a"]
LitN = typing.Literal[2, None]

class Opaque:
    def __repr__(self):
        return "Opaque()"

TYPES = {"int": int, "str": str, "float": float, "Decimal": Decimal, "date": date, "datetime": dt, "UUID": UUID,
         "list[int]": list[int], "dict[str,int]": dict[str, int], "DC": DC, "En": En, "Lit": Lit,
         "None": type(None), "LitN": LitN}
'''
POOL12 = ["int", "str", "float", "Decimal", "date", "datetime", "UUID", "list[int]", "dict[str,int]", "DC", "En", "Lit"]

# expressions evaluated in the namespace of the types module (no time-of-day-only text: it is completed from now())
INPUTS = [
    "None", "0", "1", "-5", "2**70", "1.5", "float('inf')", "float('nan')", "1e18", "True",
    "''", "'abc'", "'a'", "'b'", "'1'", "'1.5'", "'null'", "'None'", "'true'", "'NaN'", "'Infinity'", "'1e999'",
    "'[1, 2]'", "'[\"a\"]'", "'{\"a\": 1}'", "'{\"a\": 1, \"b\": \"z\"}'", "'{\"x\": \"y\"}'", "'{\"x\": 2}'", "'[[[['", "'('",
    "'2020-01-02'", "'2020-01-02T03:04:05+00:00'", "'12345678-1234-5678-1234-567812345678'", "'P1D'",
    "b'abc'", "b'\\xff\\xfe'", "b'1'", "b'[1, 2]'", "bytearray(b'2')", "memoryview(b'3')",
    "[1, 2]", "['a']", "['1', 2.0]", "[]", "{}", "{'a': 1}", "{'a': '7', 'b': 'z'}", "{'x': 'y'}", "{'x': 2}", "(1, 'a')", "{1, 2}",
    "Decimal('1.5')", "Decimal('NaN')", "Decimal('Infinity')", "date(2020, 1, 2)",
    "dt(2020, 1, 2, 3, 4, 5, tzinfo=timezone.utc)", "UUID(int=5)", "DC(1, 'y')", "En.A", "En.B", "Opaque()",
    "timedelta(days=1)", "complex(1, 2)", "'x\\x00y'", "'\\xe9'", "10**30",
]


def types_ns():
    if "ns" not in _STATE:
        _STATE["ns"] = impl.new_module("verif_c08_types", TYPES_SRC).__dict__
    return _STATE["ns"]


def value_of(xexpr):
    """the input object for an expression of INPUTS; one object per expression and process (reprs of memoryview and
    of Opaque-like objects carry the address)"""
    vals = _STATE.setdefault("vals", {})
    if xexpr not in vals:
        vals[xexpr] = eval(xexpr, types_ns())
    return vals[xexpr]


def canon(v):
    """canonical key of a result value: class + repr (floats by hex)"""
    if v is None:
        return None
    if isinstance(v, float):
        return ("float", v.hex() if v == v else "nan")
    return (type(v).__module__ + "." + type(v).__qualname__, repr(v))


def member_outcome(side, tname, xexpr):
    """outcome of the member's own routine from a fresh factory, caches cleared; memoised per (side, type, input)"""
    memo = _STATE.setdefault("memo", {})
    key = (side, tname, xexpr)
    if key not in memo:
        from typelib import marshals, unmarshals
        ns = types_ns()
        t = ns["TYPES"][tname]
        x = value_of(xexpr)
        impl.clear_caches()
        if side == "u":
            r = observe(lambda: unmarshals.unmarshaller(t)(x))
        else:
            r = observe(lambda: marshals.marshaller(t)(x))
        memo[key] = ("ok", canon(r[1])) if r[0] == "ok" else ("raise", r[1], type(r[2]).__name__)
    return memo[key]


def union_outcomes(side, tnames, spelling, xexprs):
    """build the union routine once (caches cleared), run it on every input"""
    from typelib import marshals, unmarshals
    ns = types_ns()
    ann = spell([ns["TYPES"][n] for n in tnames], spelling)
    declared = [next(k for k, v in ns["TYPES"].items() if v == a and type(v) is type(a)) for a in typing.get_args(ann)]
    impl.clear_caches()
    rb = observe(lambda: (unmarshals.unmarshaller if side == "u" else marshals.marshaller)(ann))
    outs = []
    for xe in xexprs:
        if rb[0] != "ok":
            outs.append(("raise", rb[1], "construction:" + type(rb[2]).__name__))
            continue
        x = value_of(xe)
        r = observe(rb[1], x)
        outs.append(("ok", canon(r[1])) if r[0] == "ok" else ("raise", r[1], type(r[2]).__name__))
    return declared, outs


def emit_real(side, declared, member_outs, x_is_none, obs):
    toks = {None: 0}

    def t(key):
        if key not in toks:
            toks[key] = len(toks)
        return toks[key]

    ms = []
    for n, o in zip(declared, member_outs):
        ms.append((n == "None", ("ok_tok", t(o[1])) if o[0] == "ok" else ("raise", o[1])))
    ob = ("ok", t(obs[1])) if obs[0] == "ok" else ("raise", obs[1])
    mtxt = coq_list(["(%s, %s)" % (coq_bool(f), f"SConst (Ok {coq_nat(s[1])})" if s[0] == "ok_tok" else f"SConst (Raise {s[1]})")
                     for f, s in ms], "(bool * script)")
    return f"({mtxt}, {coq_nat(0 if x_is_none else 1)}, {emit_res(ob)})"


def union_plan(run):
    """[(side, member names, spelling)] : ordered tuples over the pool of 12, None at every position"""
    rng = random.Random(run.seed + 8)
    plan = []
    if run.tier == "thorough":
        tuples = [p for k in (2, 3, 4) for p in itertools.permutations(POOL12, k)]      # every ordered 2-4 tuple
    else:
        tuples = [p for p in itertools.permutations(POOL12, 2)]
        tuples = rng.sample(tuples, 60) + rng.sample(list(itertools.permutations(POOL12, 3)), 70) + \
            rng.sample(list(itertools.permutations(POOL12, 4)), 40)
    for tup in tuples:
        variants = [list(tup)]
        if len(tup) < 4:
            for npos in range(len(tup) + 1):
                v = list(tup)
                v.insert(npos, "None")
                variants.append(v)
        else:
            v = list(tup)
            v[rng.randrange(4)] = "None"
            variants = [rng.choice([variants[0], v])] if run.tier == "thorough" else variants + [v]
        if run.tier != "thorough":
            variants = rng.sample(variants, min(len(variants), 3))
        for v in variants:
            types = [NoneType if n == "None" else int for n in v]
            sps = spellings_for(types)
            for sp in (sps if run.tier == "thorough" and len(tup) == 2 else [rng.choice(sps)]):
                plan.append(("u", v, sp))
                if rng.random() < 0.5 or (run.tier == "thorough" and len(tup) == 2):
                    plan.append(("m", v, sp))
    # fixed extras: the shapes named in the property text / design notes
    for v in (["None", "int", "str"], ["int", "None", "str"], ["int", "str", "None"], ["Decimal", "str"], ["str", "None"],
              ["int", "Decimal"], ["LitN", "int"], ["int", "LitN"], ["LitN", "str", "None"], ["date", "datetime", "str"],
              ["float", "int", "None", "str"]):
        for sp in spellings_for([NoneType if n == "None" else int for n in v]):
            plan.append(("u", v, sp))
            plan.append(("m", v, sp))
    return plan


def real_observations(run):
    """observations of the implementation, made once per run and consumed twice: by the correspondence (c)
    (distinct Coq cases, evaluated by the model) and by the oracle (judged in Python, no model involved)"""
    if "real" in _STATE:
        return _STATE["real"]
    rng = random.Random(run.seed + 9)
    plan = union_plan(run)
    per_union = run.budget(14, len(INPUTS))
    dist = collections.Counter()
    uniq = {"u": {}, "m": {}}
    fails, n, nontriv, accepted, sample = [], 0, 0, 0, None
    for side, names, sp in plan:
        xs = INPUTS if per_union >= len(INPUTS) else (["None"] + rng.sample(INPUTS[1:], per_union - 1))
        declared, outs = union_outcomes(side, names, sp, xs)
        for xe, o in zip(xs, outs):
            mo = [member_outcome(side, n_, xe) for n_ in declared]
            ob = {"layer": "union-real-members", "side": side, "members": names, "declared": declared,
                  "spelling": sp, "input": xe, "member_outcomes": mo, "observed": o}
            n += 1
            uniq[side].setdefault(emit_real(side, declared, mo, xe == "None", o), ob)
            if len(fails) < 3000:
                fails += oracle_real([ob])
            sample = sample or ob
            accepted += o[0] == "ok"
            nontriv += any(m[0] == "ok" for m in mo) and any(m[0] != "ok" for m in mo)
            dist[f"{side}:n={len(names)}"] += 1
            dist[f"{side}:obs:{o[0]}" + (":" + o[1] if o[0] == "raise" else "")] += 1
            for m in mo:
                if m[0] == "raise":
                    dist["member-reject:" + m[2]] += 1
        dist[f"spelling:{sp}"] += 1
        dist["none@" + str(names.index("None") if "None" in names else "-")] += 1
        if declared != names:
            dist["normalised by typing"] += 1
    _STATE["real"] = {"uniq": uniq, "fails": fails, "n": n, "nontrivial": nontriv, "accepted": accepted,
                      "dist": dict(dist), "unions": len(plan), "sample": sample}
    return _STATE["real"]


# ----------------------------------------------------------------------------------
# the property oracle on the implementation (no model involved)
# ----------------------------------------------------------------------------------

def expected_real(o):
    """direct reading of the statement on one observation -> ('ok', key) | ('raise-value',) | None (statement silent)"""
    if o["input"] == "None" and "None" in o["declared"]:
        return ("ok", None)
    for m in o["member_outcomes"]:
        if m[0] == "ok":
            return ("ok", m[1])
        if m[1] not in EXC_KINDS:
            return None         # a member did not reject but was interrupted (BaseException): not covered
    return ("raise-value",)


def judge(exp, got):
    """None if fine, else symptom"""
    if exp is None:
        return None
    if exp[0] == "ok":
        if got[0] == "ok" and got[1] == exp[1]:
            return None
        if got[0] == "ok":
            return "result differs from the first accepting member in declared order"
        return "raised although a member accepts"
    if got[0] == "raise" and got[1] in ("EValue", "EUnicode"):
        return None
    if got[0] == "ok":
        return "returned a value although every member rejects"
    return "every member rejects but the error is not ValueError"


def oracle_real(obs):
    fails = []
    for o in obs:
        exp = expected_real(o)
        sym = judge(exp, o["observed"])
        if sym and o["input"] == "None" and "None" in o["declared"]:
            sym = "None is a member and the input is None, result is not None"
        if sym:
            fails.append({"kind": "real", "symptom": sym, "side": o["side"], "members": o["members"],
                          "declared_per_get_args": o["declared"], "spelling": o["spelling"], "input": o["input"], "expected": exp, "got": o["observed"],
                          "member_outcomes": o["member_outcomes"]})
    return fails


def expected_stub(side, members, x):
    nonepos = [i for i, (f, _) in enumerate(members) if f]
    if any(members[i][1][0] != "real_none" for i in nonepos):
        return None             # scripted NoneType routine: not the library's, the statement does not apply
    if x is None and nonepos:
        return ("ok", 0)
    for f, s in members:
        if s[0] == "real_none":
            if side == "m":
                return ("ok", tok(x))          # NoOpMarshaller accepts everything
            continue                           # NoneTypeUnmarshaller rejects every non-None input
        r = observe(Stub(s), x)
        if r[0] == "ok":
            return ("ok", tok(r[1]))
        if r[1] not in EXC_KINDS:
            return None
    return ("raise-value",)


def oracle_stub(cases):
    fails = []
    for side, members, spelling, x in cases:
        exp = expected_stub(side, members, x)
        if exp is None:
            continue
        u, _, _ = build_stub_union(side, members, spelling)
        r = observe(u, x)
        got = ("ok", tok(r[1])) if r[0] == "ok" else ("raise", r[1])
        sym = judge(exp, got)
        if sym:
            fails.append({"kind": "stub", "symptom": sym, "side": side, "members": members, "spelling": spelling,
                          "input": x, "expected": exp, "got": got})
    return fails


def replay(payload):
    """re-run one failing input on the implementation"""
    if payload.get("kind") == "stub":
        members = [(bool(f), tuple(s)) for f, s in payload["members"]]
        fs = oracle_stub([(payload["side"], members, payload["spelling"], payload["input"])])
    else:
        _STATE.pop("memo", None)
        side, names, sp, xe = payload["side"], payload["members"], payload["spelling"], payload["input"]
        declared, outs = union_outcomes(side, names, sp, [xe])
        o = {"side": side, "members": names, "declared": declared, "spelling": sp, "input": xe,
             "member_outcomes": [member_outcome(side, n, xe) for n in declared], "observed": outs[0]}
        fs = oracle_real([o])
    return {"fails": bool(fs), "failures": fs}


def failure_key(f):
    return json.dumps([f["kind"], f["side"], f["symptom"], f["members"], f["input"]], default=str)


def corpus_cases():
    d = os.path.join(lib.VERIF, "corpus", "C08")
    out = []
    if os.path.isdir(d):
        for fn in sorted(os.listdir(d)):
            if fn.endswith(".json"):
                out.append((fn, json.load(open(os.path.join(d, fn)))))
    return out


def search(run: lib.Run, broken):
    fails = []
    # corpus first
    ncorp = 0
    for fn, payload in corpus_cases():
        for p in (payload if isinstance(payload, list) else [payload]):
            ncorp += 1
            r = replay(p)
            for f in r["failures"]:
                f["corpus"] = fn
                fails.append(f)
    # real members: every observation of this run was judged when it was made
    real = real_observations(run)
    fails += real["fails"]
    nextra = 0
    if broken:
        # harder: the unions on which model and code disagreed, and the named shapes, on the whole input pool
        todo = {(m["side"], tuple(m["members"]), m["spelling"]) for m in _STATE.get("real_mismatch", [])[:40]}
        todo |= {(side, tuple(v), "Union") for side in "um" for v in (["None", "int", "str"], ["Decimal", "str"], ["str", "None"])}
        for side, names, sp in sorted(todo):
            declared, outs = union_outcomes(side, list(names), sp, INPUTS)
            for xe, o in zip(INPUTS, outs):
                nextra += 1
                fails += oracle_real([{"side": side, "members": list(names), "declared": declared, "spelling": sp,
                                       "input": xe, "member_outcomes": [member_outcome(side, n, xe) for n in declared],
                                       "observed": o}])
    # scripted members: the statement on every kind x position (always), more when something broke
    rng = random.Random(run.seed + 7)
    nstub = run.budget(1200, 6000) * (3 if broken else 1)
    scases = gen_stub_cases(rng, nstub)
    scases += [(m["side"], [(f, tuple(sc)) for f, sc in m["members"]], m["spelling"], m["input"])
               for m in _STATE.get("stub_mismatch", [])[:300]]
    fails += oracle_stub(scases)
    # shrink: per (kind of evidence, side, symptom) keep the smallest union, prefer real members
    best = {}
    prio = ["None is a member and the input is None, result is not None",
            "raised although a member accepts",
            "result differs from the first accepting member in declared order",
            "every member rejects but the error is not ValueError",
            "returned a value although every member rejects"]
    for f in fails:
        k = (f["side"], f["symptom"])
        size = (prio.index(f["symptom"]), f["side"] != "u", f["kind"] != "real", len(f["members"]), len(str(f["input"])))
        if k not in best or size < best[k][0]:
            best[k] = (size, f)
    out = [v[1] for v in sorted(best.values(), key=lambda v: v[0])]
    for f in out:
        f["key"] = failure_key(f)
        f["how_to_read"] = ("members = declared order; member_outcomes = each member's own routine (fresh factory) on the "
                            "input; expected = first acceptor / None rule / ValueError-iff-all-reject")
    run.search_stats["oracle"] = {
        "evaluations": real["n"] + nextra + len(scases) + ncorp,
        "distinct_nontrivial": real["nontrivial"],
        "unions": real["unions"], "real_cases": real["n"] + nextra, "real_accepted": real["accepted"],
        "stub_cases": len(scases), "corpus_cases": ncorp, "failures": len(fails),
        "rule": "real: ordered 2-4 tuples over the pool of 12, None at every position, spellings Union/Or/Optional, inputs "
                "from the pool; expected = None rule, else first success of the member's own fresh routine in declared "
                "order, else ValueError; non-trivial = some member accepts and some member rejects. stub: every exception "
                "kind at every position with/without a None member.",
    }
    if out:
        run.samples.append({"oracle_failure": out[0]})
    return out


# ----------------------------------------------------------------------------------
# known findings
# ----------------------------------------------------------------------------------

def reproduces(entry):
    return replay(entry["replay"])["fails"]


def matches(entry, failure):
    m = entry.get("matches", {})
    return bool(m) and all(failure.get(k) == v for k, v in m.items())
