"""C03 -- unmarshal never returns a value outside the target type (DESIGN 7/C03, rows #15 #22 of section 9).

Pipeline
  prove       Props/C03.v: whatever Core.unm returns conforms, for every input (C03_conforms, C03_conforms_fuel);
              on record: the two refutation witnesses against the frozen pre-repair semantics unm_pinned.
  correspond  the core correspondence (coreprop.generate + Coq evaluation of the reference semantics on runtime
              tables filled by the implementation's own leaf routines) on an input pool biased to C03: corrupted
              wire forms, JSON / literal text, unrelated objects, instances of other classes, unions of arbitrary
              members.
              + `conforms` (Coq) against the exact-class reading of the Python oracle on observed results and on
                deliberately damaged results (the checker is neither vacuous nor stricter than the oracle),
              + the leaf laws of the theorems sampled on every leaf call the mirror made.
  search      c03_oracle.check (independent structural checker on the real annotation objects) applied to every
              non-raising unmarshal(T, x) of the stream; failures grouped by symptom, shrunk; replay = module
              source + annotation source + input source.
"""
from __future__ import annotations

import contextlib
import copy
import datetime
import decimal
import fractions
import json
import os
import pathlib
import random
import uuid
import warnings

import collections

import c03_oracle as oracle
import c03_typeddicts
import coregen
import coremodel
import coreprop
import impl
import lib
import universe
from lib import coq_bool, coq_list, coq_nat

COQ_TARGETS = ["theories/Model/CoreC03.vo", "theories/Proofs/CoreC03.vo", "theories/Props/C03.vo"]
THEOREMS = ["C03_conforms", "C03_conforms_fuel", "C03_refuted_short_tuple", "C03_refuted_typeddict",
            "C03_pinned_is_false"]
STRICT_KINDS = False
_STATE: dict = {}


def prove(run: lib.Run):
    run.check_props("Props/C03.v", THEOREMS)


# ----------------------------------------------------------------------------------
# generation: environments, roots, adversarial inputs
# ----------------------------------------------------------------------------------

def env_fn(rng, gi):
    return coregen.gen_env(rng, ncls=rng.randint(1, 3), cyclic=(gi % 4 == 3), depth=2)


def roots_fn(rng, env, classes):
    """every class / alias, random annotations, and the shapes the statement names: a fixed tuple, a union of
    arbitrary members, an Enum / Literal leaf"""
    roots = [("name", n) for n in classes]
    roots += [coregen.gen_ty(rng, env, 2) for _ in range(2)]
    arity = rng.randint(1, 4)
    roots.append(("tuple", rng.choice(["tuple[{}]", "typing.Tuple[{}]"]),
                  [coregen.gen_ty(rng, env, 1, allow_union=True, member=True) for _ in range(arity)]))
    ms = []
    for _ in range(rng.randint(2, 4)):
        m = coregen.gen_ty(rng, env, rng.choice([0, 1, 1, 2]), False, False, None, 0, None, True)
        if m not in ms:
            ms.append(m)
    if rng.random() < 0.4:
        ms.insert(rng.randint(0, len(ms)), ("none",))
    if len(ms) >= 2:
        roots.append(("union", rng.choice(["|", "Union"]), ms))
    leaves = [n for n, d in env["defs"].items() if d[0] in ("enum", "literal")]
    if leaves:
        roots.append(("leaf", rng.choice(leaves)))
    if classes and rng.random() < 0.5:
        roots.append(("seq", "KList", "list[{}]", ("name", rng.choice(classes))))
    return roots


SCALARS = [0, 1, -3, 1.5, "zzz", "", "1", "a", None, True, False, b"raw"]
UNRELATED = [0, 1.5, "zzz", b"raw", None, True, [], {}, (), [1, 2, 3], {"q": 1}, (1, 2), "[1, 2", '{"a": }', "null", "[]",
             "{}", "[1]", '{"a": 1}', "(1,)", "\x00\x01", "héllo", b"\xff\xfe", object, [[]], [None], {"a": None},
             [[1, 2], [3, 4]], {1: 2}, "2020-01-01", 10 ** 30, -1, 3.0,
             datetime.datetime(2020, 1, 2, 3, 4, tzinfo=datetime.timezone.utc), datetime.date(2020, 1, 2),
             datetime.time(3, 4, 5, tzinfo=datetime.timezone.utc), datetime.timedelta(seconds=5), decimal.Decimal("1.5"),
             fractions.Fraction(1, 3), uuid.UUID(int=5), pathlib.PurePosixPath("a/b")]


def _retype(rng, w):
    """another value of a different shape: scalar <-> container, other scalar class"""
    if isinstance(w, (list, dict)):
        return rng.choice([0, "zzz", None, 1.5, True])
    r = rng.random()
    if r < 0.3:
        return [w]
    if r < 0.5:
        return {"a": w}
    if r < 0.6:
        return []
    cands = [s for s in SCALARS if type(s) is not type(w)]
    return rng.choice(cands)


def corrupt_at_random_position(rng, w, depth=0):
    """one systematic corruption (field dropped / renamed / retyped / added, element removed / added / retyped,
    nesting changed, scalar <-> container) at a random position of a wire value"""
    w = copy.deepcopy(w)
    kids = list(w.keys()) if isinstance(w, dict) else list(range(len(w))) if isinstance(w, list) else []
    if kids and depth < 4 and rng.random() < 0.55:
        k = rng.choice(kids)
        w[k] = corrupt_at_random_position(rng, w[k], depth + 1)
        return w
    if isinstance(w, dict):
        op = rng.choice(["drop", "rename", "retype", "add", "nest", "scalar", "items"])
        if op == "drop" and w:
            del w[rng.choice(list(w))]
        elif op == "rename" and w:
            k = rng.choice(list(w))
            w[str(k) + "_x"] = w.pop(k)
        elif op == "retype" and w:
            k = rng.choice(list(w))
            w[k] = _retype(rng, w[k])
        elif op == "add":
            w["zz"] = rng.choice(SCALARS)
        elif op == "nest":
            return [w]
        elif op == "items":
            return [[k, v] for k, v in w.items()]
        else:
            return _retype(rng, w)
        return w
    if isinstance(w, list):
        op = rng.choice(["remove", "remove-last", "add", "retype", "nest", "scalar", "dict"])
        if op == "remove" and w:
            w.pop(rng.randrange(len(w)))
        elif op == "remove-last" and w:
            w.pop()
        elif op == "add":
            w.insert(rng.randint(0, len(w)), rng.choice(SCALARS))
        elif op == "retype" and w:
            i = rng.randrange(len(w))
            w[i] = _retype(rng, w[i])
        elif op == "nest":
            return [w]
        elif op == "dict":
            return {str(i): v for i, v in enumerate(w)}
        else:
            return _retype(rng, w)
        return w
    return _retype(rng, w)


def adversarial(rng, value, wire, others, k):
    """inputs aimed at C03 for one (valid value, wire form)"""
    out = []
    if wire is not None:
        if isinstance(wire, list):
            for n in range(min(len(wire), 4)):
                out.append(("prefix", wire[:n]))
            out.append(("extra-element", wire + [rng.choice(SCALARS)]))
            if len(wire) == 1:
                out.append(("unnest", wire[0]))
        if isinstance(wire, dict):
            for key in list(wire)[:4]:
                out.append(("drop-key", {a: b for a, b in wire.items() if a != key}))
            out.append(("extra-key", {**wire, "zz": rng.choice(SCALARS)}))
            if wire:
                k0 = rng.choice(list(wire))
                out.append(("rename-key", {(str(a) + "_x" if a == k0 else a): b for a, b in wire.items()}))
                out.append(("retype-field", {a: (_retype(rng, b) if a == k0 else b) for a, b in wire.items()}))
            out.append(("values-only", list(wire.values())))
        out.append(("nest", [wire]))
        for _ in range(k):
            out.append(("corrupt", corrupt_at_random_position(rng, wire)))
    if others:
        out.append(("other-class", rng.choice(others)))
    out.append(("unrelated", rng.choice(UNRELATED)))
    rng.shuffle(out)
    out = out[:k + 3]
    texts = []
    for tag, x in out:
        if tag in ("unrelated", "other-class") or not coregen.jsonable(x) or isinstance(x, (str, bytes)):
            continue
        r = rng.random()
        if r < 0.25:
            texts.append((tag + "+json", json.dumps(x)))
        elif r < 0.35:
            texts.append((tag + "+literal", repr(x)))
        elif r < 0.42:
            texts.append((tag + "+json-bytes", json.dumps(x).encode()))
    return out + texts


# ---- instances of the target classes themselves, holding non-conforming field values ----

def _rebuild(cls, fields: dict):
    if hasattr(cls, "_fields") and issubclass(cls, tuple):
        return cls(*[fields[f] for f in cls._fields])
    return cls(**fields)


def _fields_of(reg, inst):
    n = reg.classes[type(inst)]
    return {f: getattr(inst, f) for f, _, _ in reg.env["defs"][n][3] if hasattr(inst, f)}


def _instance_paths(reg, v, path=(), depth=0):
    """paths to every instance of a generated structured class (not TypedDicts: those are dicts) inside v"""
    if depth > 6:
        return
    t = type(v)
    if t in reg.classes and reg.kind_of(v)[0] in ("obj", "named"):
        yield path
        for f, x in _fields_of(reg, v).items():
            yield from _instance_paths(reg, x, path + (("field", f),), depth + 1)
    elif t in (list, tuple, collections.deque):
        for i, x in enumerate(v):
            yield from _instance_paths(reg, x, path + (("idx", i),), depth + 1)
    elif t in (dict, collections.OrderedDict):
        for k, x in v.items():
            yield from _instance_paths(reg, x, path + (("key", k),), depth + 1)


def _map_at(reg, v, path, fn):
    """copy of v with fn applied to the object at path; containers and instances on the way are rebuilt"""
    if not path:
        return fn(v)
    (kind, k), rest = path[0], path[1:]
    t = type(v)
    if kind == "idx":
        l = list(v)
        l[k] = _map_at(reg, l[k], rest, fn)
        return t(l)
    if kind == "key":
        return t((a, (_map_at(reg, b, rest, fn) if a == k else b)) for a, b in v.items())
    fs = _fields_of(reg, v)
    fs[k] = _map_at(reg, fs[k], rest, fn)
    return _rebuild(t, fs)


_SUBCLASSES: dict = {}


def _subclass(cls):
    if cls not in _SUBCLASSES:
        sub = type("VerifSub" + cls.__name__, (cls,), {"_verif_sub": True})
        sub.__module__ = cls.__module__
        _SUBCLASSES[cls] = sub
    return _SUBCLASSES[cls]


def bad_instances(rng, reg, value, k):
    """copies of a valid value in which one instance of a structured class (at the root or nested) is replaced by an
    instance of THE SAME class (or a subclass) whose fields hold non-conforming values: the raw wire forms, None, a
    value of another class, a value nested one level too deep"""
    from typelib import marshals
    paths = list(_instance_paths(reg, value))
    if not paths:
        return []
    roots = [p for p in paths if p == ()]
    out = []
    for _ in range(k):
        path = () if (roots and rng.random() < 0.6) else rng.choice(paths)
        op = rng.choice(["wire-fields", "wire-fields", "none-field", "retyped-field", "nested-field", "all-none", "subclass"])

        def spoil(inst, op=op):
            fs = _fields_of(reg, inst)
            cls = type(inst)
            if op == "subclass":
                return _rebuild(_subclass(cls), fs)
            if not fs:
                return inst
            if op == "wire-fields":
                impl.clear_caches()
                try:
                    with warnings.catch_warnings():
                        warnings.simplefilter("ignore")
                        w = marshals.marshal(inst)
                except BaseException:
                    w = None
                if isinstance(w, dict):
                    fs = {f: copy.deepcopy(w.get(f, x)) for f, x in fs.items()}
                else:
                    f = rng.choice(list(fs))
                    fs[f] = None
            elif op == "all-none":
                fs = {f: None for f in fs}
            else:
                f = rng.choice(list(fs))
                fs[f] = None if op == "none-field" else _retype(rng, fs[f]) if op == "retyped-field" else [fs[f]]
            return _rebuild(cls, fs)

        try:
            x = _map_at(reg, value, path, spoil)
        except Exception:
            continue
        out.append(("bad-instance:" + op + ("@root" if path == () else "@nested"), x))
    return out


@contextlib.contextmanager
def record_leaf_calls(log):
    """every scalar-routine call the mirror makes (these fill Mirror.t.lu / Mirror.t.nu): keep the Python objects"""
    o_leaf, o_none = coremodel.Mirror.leaf, coremodel.Mirror.none_u

    def leaf(self, table, s, x, fn):
        v = o_leaf(self, table, s, x, fn)
        if table is self.t.lu:
            log.append(("leaf", self.reg, s, x, v))
        return v

    def none_u(self, x):
        v = o_none(self, x)
        log.append(("none", self.reg, None, x, v))
        return v

    coremodel.Mirror.leaf, coremodel.Mirror.none_u = leaf, none_u
    try:
        yield
    finally:
        coremodel.Mirror.leaf, coremodel.Mirror.none_u = o_leaf, o_none


def build_stream(run, n_groups, seed_offset, k_adv, judge=True):
    """generate groups and records (coreprop), add the adversarial pool, judge every observation with the oracle
    and sample the leaf laws.  Returns a dict."""
    rng = random.Random(run.seed * 7919 + seed_offset)
    log = []
    st = {"groups": [], "records": [], "failures": [], "law_failures": [], "tags": {}, "judged": 0, "accepted": 0,
          "unjudged": 0, "positions": 0, "laws": {"leaf_u_ok": 0, "none_u_none": 0}, "verdicts": {}, "entry_calls": {}}
    with record_leaf_calls(log):
        groups, records = coreprop.generate(run, n_groups, seed_offset=seed_offset, values_per_root=2,
                                            env_fn=env_fn, roots_fn=roots_fn)
        by_group = {}
        for rec in records:
            by_group.setdefault(id(rec.group), []).append(rec)
        for rec in records:
            others = [r.value for r in by_group[id(rec.group)] if r.ri != rec.ri]
            wire = rec.wire[1] if rec.wire and rec.wire[0] == "ok" else None
            pool = adversarial(rng, rec.value, wire, others, k_adv)
            pool += bad_instances(rng, rec.group.reg, rec.value, max(2, k_adv - 1))
            for tag, x in pool:
                try:
                    obs = rec.group.add("u", rec.ri, x)
                except Exception as e:       # an input the registry cannot encode
                    run.notes.append(f"adversarial input skipped: {e!r}"[:200])
                    continue
                rec.inputs.append((tag, x, obs))
    st["groups"], st["records"] = groups, records
    # ---- the oracle on every non-raising unmarshal ----
    if judge:
        for rec in records:
            ns = vars(rec.group.mod)
            for tag, x, obs in rec.inputs:
                st["tags"][tag] = st["tags"].get(tag, 0) + 1
                st["judged"] += 1
                if obs[0] != "ok":
                    continue
                st["accepted"] += 1
                problems, unj, pos = oracle.check(rec.pytype, obs[1], ns)
                st["unjudged"] += unj
                st["positions"] += pos
                if problems:
                    st["failures"].append(make_failure(rec, tag, x, obs[1], problems))
            # the other public entry points on the same inputs (all bad instances, the valid value, a sample of the rest)
            for tag, x, obs in rec.inputs:
                if not (tag.startswith("bad-instance") or tag == "valid" or rng.random() < 0.12):
                    continue
                for ei, entry in enumerate(entries_for(x)):
                    r = call_entry(entry, rec.pytype, x, clear=(ei == 0))     # one cold start per input
                    st["entry_calls"][entry] = st["entry_calls"].get(entry, 0) + 1
                    st["judged"] += 1
                    if r[0] != "ok":
                        continue
                    st["accepted"] += 1
                    problems, unj, pos = oracle.check(rec.pytype, r[1], ns)
                    st["unjudged"] += unj
                    st["positions"] += pos
                    if problems:
                        f = make_failure(rec, tag, x, r[1], problems)
                        f["entry"] = entry
                        st["failures"].append(f)
    # ---- leaf laws ----
    for kind, reg, s, x, v in log:
        if kind == "none":
            st["laws"]["none_u_none"] += 1
            if v is not None:
                st["law_failures"].append({"law": "none_u_none", "type": "None", "input": repr(x)[:200], "result": repr(v)[:200]})
            continue
        st["laws"]["leaf_u_ok"] += 1
        t = reg.leaf_py[s]
        try:
            ok = oracle.leaf_ok(t, v)
        except oracle.Unjudged:
            continue
        if not ok:
            st["law_failures"].append({"law": "leaf_u_ok", "type": repr(t), "input": repr(x)[:200],
                                       "result": f"{type(v).__name__}: {v!r}"[:200]})
    return st


def make_failure(rec, tag, x, result, problems):
    g = rec.group
    try:
        xsrc = oracle.pysrc(x)
    except Exception:
        xsrc = None
    return {"kind": "nonconforming-result", "tag": tag, "entry": "unmarshals.unmarshal",
            "symptom_class": oracle.symptom_class(problems[0]),
            "annotation": universe.src_ty(rec.tdesc, g.env), "annotation_repr": repr(rec.pytype)[:300],
            "module_source": g.src, "input": xsrc, "input_repr": repr(x)[:400],
            "observed": repr(result)[:400], "problems": problems[:4], "_x": x, "_rec": rec}


# ----------------------------------------------------------------------------------
# Coq evaluation
# ----------------------------------------------------------------------------------

def collect_leaf_table(reg, d, v, tbl, depth=0):
    """every (leaf type, value) pair the Coq checker can ask about when it checks v against d"""
    if depth > 40:
        return
    k = d[0]
    if k == "leaf":
        s = reg.leaves[d[1]]
        try:
            b = oracle.leaf_ok(reg.leaf_py[s], v)
        except oracle.Unjudged:
            b = True
        tbl[(s, reg.enc(v))] = b
        return
    if k == "none":
        return
    kind = reg.kind_of(v)
    if k == "seq":
        if kind[0] == "seq":
            for x in v:
                collect_leaf_table(reg, d[3], x, tbl, depth + 1)
    elif k == "map":
        if kind[0] == "dict":
            for a, b in v.items():
                collect_leaf_table(reg, d[3], a, tbl, depth + 1)
                collect_leaf_table(reg, d[4], b, tbl, depth + 1)
    elif k == "tuple":
        if kind == ("seq", "KTuple"):
            for t, x in zip(d[2], v):
                collect_leaf_table(reg, t, x, tbl, depth + 1)
    elif k == "union":
        for t in d[2]:
            collect_leaf_table(reg, t, v, tbl, depth + 1)
    elif k in ("name", "ref", "aliasstr"):
        n = d[1] if k != "aliasstr" else d[2]
        df = reg.env["defs"][n]
        if df[0] == "alias":
            collect_leaf_table(reg, df[2] if isinstance(df[1], str) else df[1], v, tbl, depth + 1)
            return
        fields = {f: t for f, t, _ in df[3]}
        if df[1] == "typeddict" and kind[0] == "dict":
            for a, b in v.items():
                if type(a) is str and a in fields:
                    collect_leaf_table(reg, fields[a], b, tbl, depth + 1)
        elif df[1] == "namedtuple" and kind == ("named", n):
            for (f, t, _), x in zip(df[3], v):
                collect_leaf_table(reg, t, x, tbl, depth + 1)
        elif df[1] in ("dataclass", "plain") and kind == ("obj", n):
            for f, t, _ in df[3]:
                if hasattr(v, f):
                    collect_leaf_table(reg, t, getattr(v, f), tbl, depth + 1)
    elif k in ("newtype", "alias"):
        collect_leaf_table(reg, d[2], v, tbl, depth + 1)
    elif k in ("final", "classvar"):
        collect_leaf_table(reg, d[1], v, tbl, depth + 1)


def damage(rng, v, depth=0):
    """a deliberately damaged copy of a result (None when nothing applies)"""
    t = type(v)
    if t in (list, tuple) and v and depth < 3 and rng.random() < 0.5:
        i = rng.randrange(len(v))
        c = damage(rng, v[i], depth + 1)
        if c is not None:
            return t(list(v[:i]) + [c[0]] + list(v[i + 1:])), c[1]
    if t is dict and v and depth < 3 and rng.random() < 0.5:
        k = rng.choice(list(v))
        c = damage(rng, v[k], depth + 1)
        if c is not None:
            return {a: (c[0] if a == k else b) for a, b in v.items()}, c[1]
    if t is tuple:
        return (v[:-1], "tuple-shortened") if v and rng.random() < 0.6 else (v + (object(),), "tuple-extended")
    if t is list:
        return (tuple(v), "list->tuple") if rng.random() < 0.5 else (v + [object()], "foreign-element")
    if t is dict:
        if v and rng.random() < 0.5:
            k = next(iter(v))
            return {a: b for a, b in v.items() if a != k}, "key-dropped"
        return {**v, "zz": object()}, "key-added"
    if t in (set, frozenset):
        return list(v), "set->list"
    if v is None:
        return 0, "None->0"
    if t in (int, str, float, bool):
        return [v], "scalar->list"
    return None


def verdict_cases(rng, g, recs, limit):
    """(root index, value, expected verdict, what) for observed results and damaged copies of them"""
    out, seen = [], set()
    cand = [(rec, obs[1]) for rec in recs for _, _, obs in rec.inputs if obs[0] == "ok"]
    rng.shuffle(cand)
    for rec, res in cand:
        if len(out) >= limit:
            break
        ns = vars(g.mod)
        vals = [(res, "observed")]
        dm = damage(rng, res)
        if dm is not None:
            vals.append(dm)
        for v, what in vals:
            try:
                key = (rec.ri, g.reg.enc(v))
            except Exception:
                continue
            if key in seen:
                continue
            seen.add(key)
            c = oracle.Checker(ns, exact=True)
            expected = c.check(rec.pytype, v, "$")
            if c.unjudged:
                continue
            out.append((rec.ri, v, expected, what))
    return out


def emit_group(g, name, vcases, strict):
    reg = g.reg
    vrows, tbl = [], {}
    for ri, v, expected, what in vcases:
        collect_leaf_table(reg, g.roots[ri], v, tbl)
        vrows.append(f"({reg.emit_ty(g.roots[ri])}, {reg.enc(v)}, {coq_bool(expected)})")
    # NB: enc() above may register new atoms; emit the runtime tables afterwards
    base = g.emit(name, strict)
    lo = coq_list([f"({coq_nat(s)}, {k}, {coq_bool(b)})" for (s, k), b in tbl.items()], "(nat * pv * bool)")
    extra = (f"Definition lo := mk_leaf_ok {lo}.\n"
             f"Definition verdicts : list (ty * pv * bool) :=\n  {coq_list(vrows, '(ty * pv * bool)')}.\n"
             f"Definition bad_verdict := mismatches (verdict_ok rt E lo {coremodel.FUEL}) verdicts.\n")
    return base.replace(f"End {name}.\n", extra + f"End {name}.\n")


def evaluate(run, st, tag, verdict_limit):
    """-> (bad [(g, i)], bad_verdict [(g, vcase)], n_verdicts)"""
    rng = random.Random(run.seed + 17)
    groups = st["groups"]
    recs_of = {}
    for rec in st["records"]:
        recs_of.setdefault(id(rec.group), []).append(rec)
    files, order, chunk, size = {}, [], [], 0
    packed = []
    for g in groups:
        if chunk and size + len(g.cases) > 450:
            packed.append(chunk)
            chunk, size = [], 0
        chunk.append(g)
        size += len(g.cases)
    if chunk:
        packed.append(chunk)
    vc_of = {}
    for fi, chunk in enumerate(packed):
        text = coremodel.HEADER + "From Coq Require Import Arith Bool.\nRequire Import TL.Model.CoreC03.\n"
        names = []
        for gi, g in enumerate(chunk):
            nm = f"G{fi}_{gi}"
            vc = verdict_cases(rng, g, recs_of.get(id(g), []), verdict_limit)
            vc_of[id(g)] = vc
            text += emit_group(g, nm, vc, STRICT_KINDS or getattr(g, 'strict_kinds', False))
            names.append(nm)
        for nm in names:
            text += f"Eval vm_compute in {nm}.bad.\nEval vm_compute in {nm}.bad_verdict.\n"
        fname = f"cases_{tag}_{fi}.v"
        files[fname] = text
        order.append((fname, chunk))
    results = run.coq_eval_many(files, timeout=900)
    bad, bad_verdict = [], []
    nverd = sum(len(v) for v in vc_of.values())
    for fname, chunk in order:
        res = results[fname]
        if res is None or len(res) != 2 * len(chunk):
            run.oblige(f"evaluate:{fname}", False, "model evaluation did not compile")
            for g in chunk:
                bad += [(g, i) for i in range(len(g.cases))]
            continue
        for gi, g in enumerate(chunk):
            bad += [(g, i) for i in lib.parse_nat_list(res[2 * gi])]
            bad_verdict += [(g, vc_of[id(g)][i]) for i in lib.parse_nat_list(res[2 * gi + 1])]
    return bad, bad_verdict, nverd


def ensure_stream(run):
    if "main" not in _STATE:
        n = run.budget(40, 420)
        _STATE["main"] = build_stream(run, n, seed_offset=3, k_adv=run.budget(4, 6))
    return _STATE["main"]


def correspond(run: lib.Run):
    st = ensure_stream(run)
    groups = st["groups"]
    coremodel.warm_replay(run, groups, "c03")      # conformance must hold for the k-th call of any history too
    bad, bad_verdict, nverd = evaluate(run, st, "c03", run.budget(24, 30))
    ncases = sum(len(g.cases) for g in groups)
    distinct = len({(g.env["module"], c[0], c[1], c[2]) for g in groups for c in g.cases})
    raised = sum(1 for g in groups for c in g.cases if "Raise" in c[3])
    rootkinds = {}
    for g in groups:
        for r in g.roots:
            rootkinds[r[0]] = rootkinds.get(r[0], 0) + 1
    dist = {"groups": len(groups), "marshal_cases": sum(1 for g in groups for c in g.cases if c[0] == "m"),
            "unmarshal_cases": sum(1 for g in groups for c in g.cases if c[0] == "u"),
            "observed_raise": raised, "observed_ok": ncases - raised, "input_tags": st["tags"], "root_kinds": rootkinds,
            "rule": "Coq evaluates Core.unm / Core.mar on the runtime tables; a case is non-trivial when distinct by "
                    "(module, direction, root, encoded input)"}
    dist.update(coreprop.hash_order_dist(groups))      # the hash-order stratum of coreprop.generate
    run.record_corr("core-unm-mar", ncases, [g.cases[i][4] for g, i in bad], distinct, dist)
    _STATE["mismatch"] = [(g, i) for g, i in bad]
    if groups and groups[0].cases:
        run.samples.append(groups[0].cases[0][4])
    # Coq `conforms` vs exact-class oracle verdicts
    vb = [{"type": repr(g.pytys[vc[0]])[:200], "value": repr(vc[1])[:300], "python_verdict": vc[2], "what": vc[3]}
          for g, vc in bad_verdict]
    run.record_corr("conforms-verdicts", nverd, vb, nverd,
                    {"rule": "Coq conforms on (root annotation, value) must equal the exact-class reading of the Python "
                             "oracle; values = observed unmarshal results and deliberately damaged copies"})
    # leaf laws
    for k, n in st["laws"].items():
        run.laws[k] = run.laws.get(k, 0) + n
    run.record_corr("leaf-laws", sum(st["laws"].values()), st["law_failures"], sum(st["laws"].values()),
                    {"rule": "every scalar-routine call made while filling the runtime tables: result is an instance of "
                             "the leaf type (declared member for Enum / Literal); the None routine returns None"})


# ----------------------------------------------------------------------------------
# replay / search
# ----------------------------------------------------------------------------------

_replay_counter = [0]


ENTRIES = ("unmarshals.unmarshal", "typelib.unmarshal", "typelib.unmarshaller", "typelib.codec.unmarshal",
           "typelib.decode", "typelib.codec.decode")


def entries_for(x):
    """the public entry points other than unmarshals.unmarshal that accept x"""
    out = ["typelib.unmarshal", "typelib.unmarshaller", "typelib.codec.unmarshal"]
    if type(x) in (str, bytes) and x[:1] in ("[", "{", b"[", b"{"):
        out += ["typelib.decode", "typelib.codec.decode"]
    return out


def call_entry(entry, t, x, clear=True):
    """-> ('ok', result) | ('raise', text)"""
    import typelib
    from typelib import unmarshals
    if clear:
        impl.clear_caches()
    try:
        with warnings.catch_warnings():
            warnings.simplefilter("ignore")
            if entry == "unmarshals.unmarshal":
                return ("ok", unmarshals.unmarshal(t, x))
            if entry == "typelib.unmarshal":
                return ("ok", typelib.unmarshal(t, x))
            if entry == "typelib.unmarshaller":
                return ("ok", typelib.unmarshaller(t)(x))
            if entry == "typelib.codec.unmarshal":
                return ("ok", typelib.codec(t).unmarshal(x))
            if entry == "typelib.decode":
                return ("ok", typelib.decode(t, x))
            if entry == "typelib.codec.decode":
                return ("ok", typelib.codec(t).decode(x))
            raise ValueError(entry)
    except RecursionError:
        return ("raise", "RecursionError")
    except BaseException as e:
        return ("raise", f"{type(e).__name__}: {e}"[:300])


def run_case(module_source, annotation, input_src, entry="unmarshals.unmarshal"):
    """exec the module, evaluate annotation and input in it, unmarshal through the entry point, judge"""
    _replay_counter[0] += 1
    name = f"verif_c03_replay_{os.getpid()}_{_replay_counter[0]}"
    mod = impl.new_module(name, module_source)
    try:
        ns = vars(mod)
        t = eval(annotation, ns)
        x = eval(input_src, ns)
        res = call_entry(entry, t, x)
        if res[0] != "ok":
            return {"fails": False, "raised": res[1], "entry": entry}
        r = res[1]
        problems, unj, _ = oracle.check(t, r, ns)
        return {"fails": bool(problems), "observed": repr(r)[:400], "problems": problems[:4], "entry": entry,
                "symptom_class": oracle.symptom_class(problems[0]) if problems else None}
    finally:
        impl.drop_module(name)
        impl.clear_caches()


def typeddict_stream(run, per_module):
    """the oracle on the systematic TypedDict environments of c03_typeddicts (Required / NotRequired / totality /
    inheritance x real, postponed and quoted annotations x root and nested positions x dropped / renamed keys)"""
    from typelib import unmarshals
    rng = random.Random(run.seed + 29)
    stats = {"evaluations": 0, "accepted": 0, "modules": 0, "positions": 0}
    fails = []
    for src, rows in c03_typeddicts.cases(rng, per_module):
        _replay_counter[0] += 1
        name = f"verif_c03_td_{os.getpid()}_{_replay_counter[0]}"
        mod = impl.new_module(name, src)
        stats["modules"] += 1
        try:
            ns = vars(mod)
            for ann, inp, tag in rows:
                t, x = eval(ann, ns), eval(inp, ns)
                impl.clear_caches()
                stats["evaluations"] += 1
                try:
                    with warnings.catch_warnings():
                        warnings.simplefilter("ignore")
                        r = unmarshals.unmarshal(t, x)
                except BaseException:
                    continue
                stats["accepted"] += 1
                problems, _, pos = oracle.check(t, r, ns)
                stats["positions"] += pos
                if problems:
                    fails.append({"kind": "nonconforming-result", "tag": tag,
                                  "symptom_class": oracle.symptom_class(problems[0]), "annotation": ann,
                                  "annotation_repr": repr(t)[:300], "module_source": src, "input": inp,
                                  "input_repr": inp[:400], "observed": repr(r)[:400], "problems": problems[:4], "_x": x})
        finally:
            impl.drop_module(name)
            impl.clear_caches()
    return fails, stats


def replay(payload):
    r = run_case(payload["module_source"], payload["annotation"], payload["input"], payload.get("entry", "unmarshals.unmarshal"))
    r["required"] = "unmarshal(T, x) raises or returns a value that structurally conforms to T"
    return r


def corpus_cases():
    d = os.path.join(lib.VERIF, "corpus", "C03")
    out = []
    if os.path.isdir(d):
        for fn in sorted(os.listdir(d)):
            if fn.endswith(".json"):
                payload = json.load(open(os.path.join(d, fn)))
                for p in (payload if isinstance(payload, list) else [payload]):
                    out.append((fn, p))
    return out


def finish_failure(f):
    """shrink the input of one failure and turn it into a replayable payload"""
    x = f.pop("_x", None)
    f.pop("_rec", None)
    if f.get("input") is not None:
        want = f["symptom_class"]

        def still(c):
            try:
                src = oracle.pysrc(c)
            except Exception:
                return False
            r = run_case(f["module_source"], f["annotation"], src, f.get("entry", "unmarshals.unmarshal"))
            return r["fails"] and r.get("symptom_class") == want

        try:
            small = oracle.shrink(x, still)
            r = run_case(f["module_source"], f["annotation"], oracle.pysrc(small), f.get("entry", "unmarshals.unmarshal"))
            if r["fails"]:
                f["input"], f["input_repr"] = oracle.pysrc(small), repr(small)[:400]
                f["observed"], f["problems"] = r["observed"], r["problems"]
        except Exception:
            pass
    f["key"] = json.dumps([f["symptom_class"], f["annotation"], f["input"] or f["input_repr"]])
    f["required"] = "unmarshal(T, x) raises or returns a value that structurally conforms to T"
    f["how_to_read"] = ("exec module_source, T = eval(annotation), x = eval(input) in that module; problems = positions "
                        "of typelib.unmarshal(T, x) that do not conform (path, symptom, annotation there, value there)")
    return f


def search(run: lib.Run, broken):
    fails = []
    ncorp = 0
    for fn, p in corpus_cases():
        ncorp += 1
        r = run_case(p["module_source"], p["annotation"], p["input"], p.get("entry", "unmarshals.unmarshal"))
        if r["fails"]:
            fails.append({"kind": "nonconforming-result", "tag": "corpus:" + fn, "symptom_class": r["symptom_class"],
                          "annotation": p["annotation"], "module_source": p["module_source"], "input": p["input"],
                          "input_repr": p["input"], "observed": r["observed"], "problems": r["problems"]})
    td_fails, td_stats = typeddict_stream(run, run.budget(60, None))
    fails += td_fails
    st = ensure_stream(run)
    fails += st["failures"]
    evaluations = st["judged"] + ncorp + td_stats["evaluations"]
    accepted = st["accepted"] + td_stats["accepted"]
    positions = st["positions"] + td_stats["positions"]
    extra = None
    if broken:
        # harder: the disagreeing cases were judged with the rest of the stream; widen the stream
        extra = build_stream(run, run.budget(25, 120), seed_offset=11, k_adv=run.budget(6, 8))
        fails += extra["failures"]
        evaluations += extra["judged"]
        accepted += extra["accepted"]
        positions += extra["positions"]
        coreprop.close(extra["groups"])
    # a sampled leaf-law violation is a violation of the statement at a leaf annotation
    for lf in st["law_failures"] + (extra["law_failures"] if extra else []):
        fails.append({"kind": "leaf-law", "tag": "leaf", "symptom_class": "leaf routine returned a non-instance: " + lf["law"],
                      "annotation": lf["type"], "module_source": None, "input": None, "input_repr": lf["input"],
                      "observed": lf["result"], "problems": [lf]})
    # group by symptom, keep the smallest, shrink
    best = {}
    for f in fails:
        k = f["symptom_class"]
        size = (f.get("input") is None, len(f["annotation"]) + len(f["input_repr"]))
        if k not in best or size < best[k][0]:
            best[k] = (size, f)
    out = [finish_failure(v[1]) for v in sorted(best.values(), key=lambda v: v[0])]
    run.search_stats["oracle"] = {
        "evaluations": evaluations, "distinct_nontrivial": accepted, "accepted_results_checked": accepted,
        "positions_checked": positions, "unjudged_positions": st["unjudged"], "corpus_cases": ncorp,
        "failures": len(fails), "failure_classes": sorted(best), "typeddict_stream": td_stats, "entry_point_calls": st["entry_calls"],
        "input_tags": st["tags"],
        "rule": "every unmarshal(T, x) of the generated stream (valid values, wire forms, JSON / literal text, corrupted "
                "wire forms, unrelated objects, instances of other classes) that returns is checked by the independent "
                "structural checker c03_oracle.check; non-trivial = the call returned a value",
    }
    if out:
        run.samples.append({"oracle_failure": {k: v for k, v in out[0].items() if k != "module_source"}})
    coreprop.close(st["groups"])
    return out


# ----------------------------------------------------------------------------------
# known findings
# ----------------------------------------------------------------------------------

def reproduces(entry):
    return replay(entry["replay"])["fails"]


def matches(entry, failure):
    m = entry.get("matches", {})
    return bool(m) and all(failure.get(k) == v for k, v in m.items())
