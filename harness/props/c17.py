"""C17 -- type predicates agree with Python's own type semantics (DESIGN 7/C17)."""
from __future__ import annotations

import json
import os
import itertools
import random
import re

import impl
import lib
import ginspecttie
import dispatchtie
import c17_hints
from lib import coq_bool, coq_list, coq_string
import c17_cat
from c17_cat import Cat, MODNAME

COQ_TARGETS = ["theories/Model/Inspect.vo", "theories/Model/InspectEq.vo", "theories/Model/InspectCache.vo",
               "theories/Model/InspectSpec.vo", "theories/Proofs/InspectLemmas.vo"]
COQ_TARGETS = COQ_TARGETS + [t for t in ginspecttie.COQ_TARGETS if t not in COQ_TARGETS]
COQ_TARGETS = COQ_TARGETS + [t for t in dispatchtie.COQ_TARGETS if t not in COQ_TARGETS]
COQ_TARGETS = COQ_TARGETS + [t for t in c17_hints.COQ_TARGETS if t not in COQ_TARGETS]

# Work-around (lib.py is not mine): base_make hands coq_makefile an ABSOLUTE project path, so the generated
# dependency file names absolute .vo paths while the make targets are relative: make does not connect them and
# compiles the requested targets in parallel without order.  Each invocation therefore gets one dependency level
# further; retry (bounded by the depth of my Require chain) before recording the obligation.
_orig_base_make = lib.Run.base_make


_CHAIN = ["Model/Inspect", "Model/InspectCache", "Model/InspectSpec", "Model/InspectEq", "Proofs/InspectLemmas",
          "Model/InspectHints", "Proofs/InspectHintsLemmas"]


def _drop_stale_vo():
    """without usable dependencies make does not rebuild a .vo whose REQUIRED file changed: from the first of my
    files that is newer than its .vo, remove that .vo and all later ones of the chain (under the build lock)"""
    import fcntl
    with open(os.path.join(lib.COQ, ".lock"), "w") as lock:
        fcntl.flock(lock, fcntl.LOCK_EX)
        try:
            stale, newest = False, 0.0
            for f in _CHAIN:
                v, vo = os.path.join(lib.THEORIES, f + ".v"), os.path.join(lib.THEORIES, f + ".vo")
                # stale: no .vo, source newer than it, or an earlier file of the chain was compiled after it
                if not stale and (not os.path.exists(vo) or max(os.path.getmtime(v), newest) > os.path.getmtime(vo)):
                    stale = True
                if not stale:
                    newest = max(newest, os.path.getmtime(vo))
                if stale and os.path.exists(vo):
                    os.unlink(vo)
        finally:
            fcntl.flock(lock, fcntl.LOCK_UN)


def _base_make_retry(self, targets=()):
    ok = False
    if self.prop == "C17":
        _drop_stale_vo()
    for _ in range(6):
        n = len(self.obligations)
        ok = _orig_base_make(self, targets)
        if ok or self.prop != "C17":
            break
        del self.obligations[n:]
    else:
        ok = _orig_base_make(self, targets)
    return ok


if getattr(lib.Run.base_make, "__name__", "") != "_base_make_retry":
    lib.Run.base_make = _base_make_retry

ACCESSORS = ["origin", "args", "name", "qualname", "unwrap", "resolve_supertype"]
TY_PREDS = [
    "isbuiltintype", "isstdlibtype", "isbuiltinsubtype", "isstdlibsubtype", "isoptionaltype", "isuniontype",
    "isfinal", "isliteral", "isdatetype", "isdatetimetype", "istimetype", "istimedeltatype", "isdecimaltype",
    "isfractiontype", "isuuidtype", "isiterabletype", "isiteratortype", "istupletype", "issequencetype",
    "iscollectiontype", "issubscriptedcollectiontype", "ismappingtype", "isenumtype", "isclassvartype",
    "should_unwrap", "isfromdictclass", "isfrozendataclass", "istypeddict", "istypedtuple", "isnamedtuple",
    "isfixedtupletype", "isforwardref", "isabstract", "istexttype", "isstringtype", "isbytestype", "isnumbertype",
    "isintegertype", "isfloattype", "isstructuredtype", "isgeneric", "issubscriptedgeneric", "iscallable",
    "isunresolvable", "isnonetype", "ispatterntype", "ispathtype", "istypealiastype",
]
INST_PREDS = ["ishashable", "isproperty", "isdescriptor", "issimpleattribute", "isbuiltininstance", "isstdlibinstance"]
DESCR = frozenset(("__get__", "__set__", "__delete__", "__set_name__"))

# function lists per case kind
FUNCS = {
    "ty": ACCESSORS + TY_PREDS,
    "cls": ACCESSORS + TY_PREDS + INST_PREDS,
    "inst": INST_PREDS,
}


def coq_fn(n):
    return f"F_{n}" if n in ACCESSORS else f"(F_pred P_{n})"


# ----------------------------------------------------------------------------------
# reflect: class lattice + the module-level tables of inspection.py -> Coq
# ----------------------------------------------------------------------------------

def _issub(a, b):
    try:
        return issubclass(a, b)
    except TypeError:
        return False


def reflect_tables(cat: Cat):
    """Returns (coq text, problems).  Reads the live module; typelib is consulted only for its tables."""
    import dataclasses
    import inspect
    import typing as tp
    from typelib.py import inspection as I
    problems = list(cat.problems)
    # every class the tables mention must be a catalogue class
    for tabname in ("BUILTIN_TYPES", "STDLIB_TYPES", "_COLLECTIONS", "_MAPPING_TYPES", "_ABCS"):
        for c in getattr(I, tabname):
            if not isinstance(c, type):
                problems.append(f"{tabname} contains a non-class {c!r}")
            else:
                cat.ensure_class(c)
            if isinstance(c, type) and (issubclass(c, type) or c.__module__ == "typing"):
                problems.append(f"{tabname} contains a metaclass/typing-internal class {c!r} (type_of in the model ignores those)")
    for tabname in ("BUILTIN_TYPES_TUPLE", "STDLIB_TYPES_TUPLE"):
        if set(getattr(I, tabname)) != set(getattr(I, tabname.replace("_TUPLE", ""))):
            problems.append(f"{tabname} differs from its frozenset")
    for k, v in I.GENERIC_TYPE_MAP.items():
        for x in (k, v):
            if isinstance(x, type):
                cat.ensure_class(x)
    for x in I._UNRESOLVABLE:
        if isinstance(x, type):
            cat.ensure_class(x)

    names = list(cat.classes)
    rows = []
    for a in names:
        ca = cat.classes[a]
        supers = [cat.cid[b] for b in names if _issub(ca, cat.classes[b])]
        try:
            inst = cat.make_instance(a)
            has_inst = True
        except Exception:
            inst, has_inst = None, False
        cat.has_instance[a] = has_inst
        mod = getattr(ca, "__module__", "")
        trepr = ca.__qualname__ if mod == "builtins" else f"{mod}.{ca.__qualname__}"
        flags = [
            hasattr(ca, "__total__"), hasattr(ca, "_fields"), bool(getattr(ca, "__annotations__", False)),
            hasattr(ca, "from_dict"),
            bool(getattr(getattr(ca, "__dataclass_params__", None), "frozen", False)),
            inspect.isabstract(ca), getattr(ca, "__hash__", None) is not None,
            bool(set(dir(ca)) & DESCR), bool(has_inst and (set(dir(inst)) & DESCR)),
            bool(has_inst and inspect.isroutine(inst)),
            isinstance(ca, __import__('abc').ABCMeta), tp.is_typeddict(ca), bool(_issub(ca, tuple) and hasattr(ca, "_fields")),
        ]
        rows.append("(%d%%N, Build_clsinfo %s %s %s %s %s)" % (
            cat.cid[a], coq_list([f"{i}%N" for i in supers], "N"), coq_string(str(ca)), coq_string(ca.__qualname__),
            coq_string(trepr), " ".join(coq_bool(f) for f in flags)))
    tal = ["(%d%%N, (%s, %d%%N))" % (cat.tid[k], coq_string(k), cat.cid[cat.ensure_class(v.__origin__)])
           for k, v in cat.talias.items()]
    if len(cat.classes) != len(names):
        problems.append("a typing alias has an origin class outside the catalogue: "
                        + ", ".join(sorted(set(cat.classes) - set(names))))

    def E(o):
        return cat.emit(cat.describe(o))

    def cl(o):
        return f"{cat.cid[cat.cls_name(o)]}%N"

    try:
        gmap = coq_list([f"({E(k)}, {E(v)})" for k, v in I.GENERIC_TYPE_MAP.items()], "(ity * ity)")
        unres = coq_list([E(x) for x in I._UNRESOLVABLE], "ity")
    except (ValueError, KeyError) as e:
        problems.append(f"table entry outside the modelled universe: {e}")
        gmap, unres = "[]", "[]"
    text = (
        "(* generated from the live typelib.py.inspection module and the interpreter on this run *)\n"
        "From Coq Require Import List NArith ZArith String.\nImport ListNotations.\nRequire Import TL.Model.Inspect.\n"
        "Local Open Scope string_scope.\n"
        "Definition tbl : tables := {|\n  t_cls := [\n    " + ";\n    ".join(rows) + "];\n"
        "  t_talias := [" + ";\n    ".join(tal) + "];\n"
        "  t_generic_map := " + gmap + ";\n"
        "  t_builtin := " + coq_list([cl(c) for c in I.BUILTIN_TYPES_TUPLE], "N") + ";\n"
        "  t_stdlib := " + coq_list([cl(c) for c in I.STDLIB_TYPES_TUPLE], "N") + ";\n"
        "  t_unresolvable := " + unres + ";\n"
        "  t_collections := " + coq_list(sorted(cl(c) for c in I._COLLECTIONS if isinstance(c, type)), "N") + ";\n"
        "  t_mapping_types := " + coq_list([cl(c) for c in I._MAPPING_TYPES if isinstance(c, type)], "N") + ";\n"
        "  t_abcs := " + coq_list(sorted(cl(c) for c in I._ABCS if isinstance(c, type)), "N") + " |}.\n"
        "(* names for the classes and typing aliases of this run (used by the witnesses in C17.v) *)\n"
        + "".join(f"Definition k_{k} : cls := {cat.cid[k]}%N.\n" for k in cat.classes)
        + "".join(f"Definition al_{k} : N := {cat.tid[k]}%N.\n" for k in cat.talias))
    return text, problems


# ----------------------------------------------------------------------------------
# the catalogue
# ----------------------------------------------------------------------------------

def C(n):
    return ("cls", n)


NONE_T = C("NoneType")


# classes whose class object carries a class-level __args__ member (getattr(obj, "__args__", ()) is then a
# descriptor and isoptionaltype raises): they stay in the lattice (origin() returns types.UnionType) but are
# not catalogue cases
SKIP_CLASSES = ("UnionType", "GenericAlias")


def pipe_ok(args):
    """`a | b | ...` yields a types.UnionType only for classes and builtin generic aliases"""
    return all(a[0] in ("cls", "csub", "alias", "aliasstr") for a in args) and args[0][0] != "none"


def catalogue(cat: Cat, rng: random.Random, tier: str):
    out: list[tuple[str, tuple]] = []
    seen = set()

    def add(d, kind=None):
        if d[0] == "union" and d[1] == "U" and len(d[2]) == 2 and d[2][1] == NONE_T:
            d = ("union", "O", d[2])      # Union[X, None] IS the object Optional[X]
        k = repr(d)
        if k in seen:
            return
        seen.add(k)
        out.append((kind or ("cls" if d[0] == "cls" else "ty"), d))

    T = ("typevar", "T", None, [])
    TB = ("typevar", "TB", C("int"), [])
    TU = ("typevar", "TU", C("UData"), [])
    TC = ("typevar", "TC", None, [C("int"), C("str")])
    li = ("csub", "list", [C("int")])
    Li = ("tsub", "List", [C("int")])
    for n in list(cat.classes):
        if n not in SKIP_CLASSES:
            add(C(n))
    add(("none",)); add(("ellipsis",))
    for s in c17_cat.SPECIALS:
        add(("special", s))
    p1 = [[C("int")], [C("UData")], [T], [li], [TB]]
    p2 = [[C("str"), C("int")], [C("str"), C("UData")], [C("int"), TC]]
    p3 = [[C("int"), C("int"), C("int")]]
    ptuple = [[C("int"), C("str")], [C("int"), ("ellipsis",)], [], [C("int")], [C("UData"), ("ellipsis",)]]
    for k, v in cat.talias.items():
        add(("typing", k))
        if k == "Callable":
            continue
        n = getattr(v, "_nparams", None)
        oname = cat.cls_name(v.__origin__)
        lists = ptuple if k == "Tuple" else {1: p1, 2: p2, 3: p3}.get(n, [])
        for a in lists:
            add(("tsub", k, a))
            try:
                v.__origin__[tuple(cat.build(x) for x in a)]
                add(("csub", oname, a))
            except TypeError:
                pass
    for a in p1[:3]:
        add(("usub", "UGeneric", a)); add(("csub", "UGenList", a))
    # unions
    members = [[C("int"), NONE_T], [NONE_T, C("int")], [C("int"), C("str")], [C("str"), C("int")],
               [C("int"), C("str"), NONE_T], [NONE_T, C("int"), C("str")], [C("UData"), NONE_T],
               [NONE_T, C("UData")], [li, NONE_T], [C("date"), NONE_T], [C("int"), li], [C("UData"), C("UNamed")],
               [Li, NONE_T], [("newtype", "NU", C("int")), NONE_T], [C("UData"), C("int"), NONE_T],
               [NONE_T, C("UData"), C("int")], [C("Decimal"), C("str")]]
    unions = []
    for m in members:
        unions.append(("union", "U", m))
        if len(m) == 2 and m[1] == NONE_T:
            unions.append(("union", "O", m))
        if pipe_ok(m):
            unions.append(("union", "P", m))
    for u in unions:
        add(u)
    lits = [[["i", 1]], [["s", "a"]], [["i", 1], ["s", "a"]], [["n"]], [["s", ""], ["n"]], [["n"], ["i", 1]],
            [["b", True]], [["y", "x"]], [["i", 1], ["n"]], [["i", 1], ["s", "a"], ["n"]]]
    for l in lits:
        add(("literal", l))
    for x in (C("int"), C("UData"), li, C("str")):
        add(("final", x)); add(("classvar", x))
    add(("classvar", T))
    # wrappers
    cnt = [0]

    def nm(p):
        cnt[0] += 1
        return f"{p}{cnt[0]}"

    cores = [C(n) for n in cat.classes if n not in SKIP_CLASSES]
    for c in cores:
        add(("newtype", nm("N"), c))
    rich = [c for c in cores if cat.cid[c[1]] < 100 or cat.classes[c[1]].__module__ == MODNAME]
    gens = [li, Li, ("csub", "dict", [C("str"), C("int")]), ("tsub", "Dict", [C("str"), C("int")]),
            ("tsub", "Mapping", [C("str"), C("int")]), ("csub", "abcMapping" if "abcMapping" in cat.classes else "Mapping", [C("str"), C("int")]),
            ("tsub", "Sequence", [C("int")]), ("csub", "Sequence", [C("int")]),
            ("csub", "tuple", [C("int"), C("str")]), ("csub", "tuple", [C("int"), ("ellipsis",)]),
            ("tsub", "Tuple", [C("int"), C("str")]), ("typing", "List"), ("typing", "Mapping"),
            ("union", "O", [C("int"), NONE_T]), ("union", "P", [C("int"), NONE_T]), ("union", "U", [C("int"), C("str")]),
            ("literal", [["i", 1]]), ("final", C("str")), ("classvar", C("str")), ("special", "Final"),
            ("special", "ClassVar"), ("csub", "Pattern", [C("str")]), ("tsub", "Pattern", [C("str")]),
            ("callT", [C("int")], C("str")), ("none",), T, ("fref", "UData", None)]
    for c in rich + gens:
        add(("newtype", nm("N"), ("newtype", nm("N"), c)))
        add(("alias", nm("A"), c))
        add(("alias", nm("A"), ("newtype", nm("N"), c)))
        add(("newtype", nm("N"), ("alias", nm("A"), c)))
        add(("alias", nm("A"), ("alias", nm("A"), c)))
    for c in gens:
        add(("newtype", nm("N"), c))
    # every NewType / alias stack of depth 3 and 4: the wrapper-resolution loop alternates between the two kinds, and a
    # stack such as alias -> NewType -> alias needs three rounds (seeded change C17-r3m2 straightened the loop)
    deep_cores = [C("int"), C("str"), C("date"), C("UData"), li, ("csub", "dict", [C("str"), C("int")]),
                  ("tsub", "Mapping", [C("str"), C("int")])]
    for depth in (3, 4):
        for shape in itertools.product(("newtype", "alias"), repeat=depth):
            for c in deep_cores:
                d = c
                for w in reversed(shape):
                    d = (w, nm("N" if w == "newtype" else "A"), d)
                add(d)
    add(("aliasstr", "ASU", "UData")); add(("aliasstr", "ASI", "int")); add(("aliasstr", "ASL", "list[int]"))
    add(("newtype", nm("N"), ("aliasstr", "ASU", "UData")))
    add(("final", ("newtype", nm("N"), C("int")))); add(("classvar", ("alias", nm("A"), C("int"))))
    # qualifiers over a Literal, direct and through NewType / alias chains (should_unwrap / unwrap)
    for lit in (("literal", [["b", True]]), ("literal", [["i", 1], ["s", "a"]]), ("literal", [["n"], ["i", 1]])):
        for q in ("classvar", "final"):
            add((q, lit))
            add((q, ("newtype", nm("N"), lit)))
            add((q, ("alias", nm("A"), lit)))
            add((q, ("alias", nm("A"), ("newtype", nm("N"), lit))))
            add(("newtype", nm("N"), (q, lit)))
            add(("alias", nm("A"), (q, lit)))
            add(("newtype", nm("N"), ("newtype", nm("N"), (q, lit))))
    for q in ("classvar", "final"):
        for inner in (C("int"), li, ("union", "O", [C("int"), NONE_T])):
            add(("newtype", nm("N"), (q, inner)))
            add(("alias", nm("A"), (q, inner)))
            add(("newtype", nm("N"), ("alias", nm("A"), (q, inner))))
    add(("final", ("final", C("int")))) if False else None
    for r in (("fref", "UData", None), ("fref", "UData", MODNAME), ("fref", "Literal[1]", None), ("fref", "a.b.C", None),
              ("fref", "list[int]", None), ("fref", "typing.List", None)):
        add(r)
    for tv in (T, TB, TU, TC):
        add(tv)
    add(("csub", "dict", [C("str"), TB])); add(("tsub", "List", [TC])); add(("csub", "list", [TU]))
    for c in (("callT", [C("int")], C("str")), ("callT", None, C("str")), ("callB", [C("int")], C("str")),
              ("callB", None, C("str")), ("callT", [], C("int")), ("callT", [C("int"), T], li)):
        add(c)
    add(("routine", "ufunc"))
    add(("csub", "list", [("union", "P", [C("int"), NONE_T])]))
    add(("tsub", "List", [("union", "O", [C("int"), NONE_T])]))
    add(("csub", "dict", [C("str"), ("csub", "list", [C("UData")])]))
    add(("union", "P", [C("int"), ("alias", "AP", C("str"))]))
    for n in cat.classes:
        if cat.has_instance.get(n) and n not in SKIP_CLASSES and n != "type":
            add(("inst", n), "inst")
    if tier == "thorough":
        for _ in range(1500):
            add(random_desc(cat, rng, 3, nm))
    return out


def random_desc(cat: Cat, rng: random.Random, depth: int, nm):
    """random wrapper chains (<= 4) over random cores, nested parameterisations"""
    names = [n for n in cat.classes if n not in SKIP_CLASSES and n != "Generic"]

    def core(d):
        r = rng.random()
        if d <= 0 or r < 0.35:
            return C(rng.choice(names))
        if r < 0.55:
            k = rng.choice(["List", "Set", "FrozenSet", "Sequence", "Iterable", "Collection", "Deque", "MutableSequence",
                            "AbstractSet", "Iterator"])
            a = [core(d - 1)]
            if rng.random() < 0.5:
                return ("tsub", k, a)
            return ("csub", cat.cls_name(cat.talias[k].__origin__), a)
        if r < 0.7:
            k = rng.choice(["Dict", "Mapping", "MutableMapping", "DefaultDict", "OrderedDict"])
            a = [C(rng.choice(["str", "int"])), core(d - 1)]
            if rng.random() < 0.5:
                return ("tsub", k, a)
            return ("csub", cat.cls_name(cat.talias[k].__origin__), a)
        if r < 0.8:
            a = [core(d - 1) for _ in range(rng.randint(1, 3))]
            if rng.random() < 0.4:
                a = a[:1] + [("ellipsis",)]
            return ("tsub", "Tuple", a) if rng.random() < 0.5 else ("csub", "tuple", a)
        if r < 0.92:
            ms = []
            for _ in range(rng.randint(2, 3)):
                m = C(rng.choice(names[:40]))
                if m not in ms and m != NONE_T:
                    ms.append(m)
            if rng.random() < 0.6:
                ms.insert(rng.randint(0, len(ms)), NONE_T)
            if len(ms) < 2:
                return ms[0]
            sp = rng.choice(["U", "P"])
            if sp == "U" and len(ms) == 2 and ms[1] == NONE_T:
                sp = "O"          # Union[X, None] IS Optional[X]
            return ("union", sp, ms)
        return ("literal", [rng.choice([["i", 1], ["s", "a"], ["n"], ["b", True]])])

    d = core(depth)
    for _ in range(rng.randint(0, 4)):
        r = rng.random()
        if r < 0.5:
            d = ("newtype", nm("N"), d)
        elif r < 0.9:
            d = ("alias", nm("A"), d)
        elif d[0] not in ("final", "classvar"):
            d = (rng.choice(["final", "classvar"]), d)
    return d


# ----------------------------------------------------------------------------------
# observation of the implementation
# ----------------------------------------------------------------------------------

def exn_coq(e):
    if isinstance(e, TypeError):
        return "rT"
    if isinstance(e, AttributeError):
        return "rA"
    return "(ORaise EOther)"


def observe(cat: Cat, fname: str, obj):
    """-> (coq obs term, printable)"""
    from typelib.py import inspection as I
    f = getattr(I, fname)
    try:
        r = f(obj)
    except Exception as e:  # noqa: BLE001 - every exception kind is an observation
        return exn_coq(e), f"raise {type(e).__name__}"
    if fname in ("origin", "unwrap", "resolve_supertype"):
        return f"(OTy {cat.emit(cat.describe(r))})", repr(r)
    if fname == "args":
        return "(OTys %s)" % coq_list([cat.emit(cat.describe(x)) for x in r], "ity"), repr(r)
    if fname in ("name", "qualname"):
        return f"(OStr {coq_string(r)})", r
    return ("bT" if r else "bF"), repr(r)


def run_cases(cat: Cat, cases):
    """cases: list of (kind, desc) -> list of dict(kind, desc, obs=[coq terms], shown=[...], error)"""
    rows = []
    for kind, d in cases:
        row = {"kind": kind, "desc": d, "obs": [], "shown": [], "error": None}
        try:
            obj = cat.build(d)
            if kind != "inst":
                back = cat.describe(obj)
                if c17_cat.norm(back) != c17_cat.norm(d):
                    row["error"] = f"description does not round-trip: {back!r}"
        except Exception as e:  # noqa: BLE001
            row["error"] = f"cannot build: {e!r}"
            rows.append(row)
            continue
        impl.clear_caches()
        for fname in FUNCS[kind]:
            try:
                o, s = observe(cat, fname, obj)
            except (ValueError, KeyError, AssertionError) as e:
                o, s = None, f"unencodable: {e}"
                row["error"] = row["error"] or f"{fname}: {s}"
            row["obs"].append(o)
            row["shown"].append(s)
        rows.append(row)
    return rows


def eval_shards(run: lib.Run, cat: Cat, rows, prefix, extra_require=""):
    """Evaluate the model on every row; returns list of (row index, fn index) mismatches"""
    bad = []
    files = {}
    index = {}
    hdr = ("From Coq Require Import List NArith ZArith String.\nImport ListNotations.\n"
           "Require Import TL.Model.Inspect TL.Model.InspectEq TLRun.GenInspectTables.\n" + extra_require +
           "Local Open Scope string_scope.\n")
    by_kind: dict[str, list[int]] = {}
    for i, r in enumerate(rows):
        if r["error"] or any(o is None for o in r["obs"]) or not r["obs"]:
            bad.append((i, -1))
            continue
        by_kind.setdefault(r["kind"], []).append(i)
    for kind, idxs in by_kind.items():
        fns = coq_list([coq_fn(n) for n in FUNCS[kind]], "fn")
        for s in range(0, len(idxs), 250):
            part = idxs[s:s + 250]
            name = f"{prefix}_{kind}_{s // 250}.v"
            body = ";\n  ".join("(%s, %s)" % (cat.emit(rows[i]["desc"]), coq_list(rows[i]["obs"], "obs")) for i in part)
            files[name] = (hdr + f"Definition fns : list fn := {fns}.\nDefinition cases : list case :=\n  [ {body} ].\n"
                           "Eval vm_compute in mismatches tbl fns cases.\n")
            index[name] = part
    res = run.coq_eval_many(files, timeout=900)
    for name, out in res.items():
        if out is None:
            run.oblige(f"evaluate:{name}", False, "model evaluation did not compile")
            bad += [(i, -1) for i in index[name]]
            continue
        for a, b in re.findall(r"\((\d+),\s*(\d+)\)", out[-1]):
            bad.append((index[name][int(a)], int(b)))
    return sorted(set(bad))


_CAT = None


def get_cat() -> Cat:
    global _CAT
    if _CAT is None:
        _CAT = Cat()
        _CAT.has_instance = {}
    return _CAT


THEOREMS = ["C17_tables_ok", "C17_agrees", "C17_total", "C17_spelling_origin", "C17_spelling", "C17_spelling_union",
            "C17_abstract_unmapped", "C17_origin_concrete", "C17_stable",
            "C17_refuted_spelling_subscripted", "C17_refuted_cache_spelling"]


def local_findings():
    p = os.path.join(lib.VERIF, "findings.d", "C17.json")
    return json.load(open(p)).get("open", []) if os.path.exists(p) else []


def prove(run: lib.Run):
    # lib.Run.findings() reads known_findings.json only; until the lead merges findings.d/C17.json the entries
    # of that file are added here (same format, de-duplicated by id)
    base = run.findings

    def merged():
        mine = [e for e in local_findings() if e["property"] == "C17"]
        ids = {e["id"] for e in mine}          # findings.d/C17.json is the source of truth for C17 entries
        return [e for e in base() if e["id"] not in ids] + mine
    run.findings = merged
    cat = get_cat()
    text, problems = reflect_tables(cat)
    run.oblige("reflect:inspection tables mention only catalogue classes; model constants match", not problems,
               "; ".join(problems[:4]))
    ok = run.compile_dyn("GenInspectTables.v", text=text)
    if ok:
        run.compile_dyn("C17.v", src=os.path.join(lib.DYN, "C17", "C17.v"), theorems=THEOREMS)
    run.extra_cov["classes"] = len(cat.classes)
    run.extra_cov["typing_aliases"] = len(cat.talias)
    run.assumptions += [
        "C17: the class lattice (issubclass for every pair of the ~150 catalogue classes), str()/__qualname__ and the "
        "attribute flags of classes are READ from the interpreter on every run, not derived",
        "C17: str()/repr() of typing objects, typing.get_origin/get_args, issubclass on non-classes (incl. the "
        "types.GenericAlias __bases__ forwarding) are modelled by hand in Model/Inspect.v and tied by the exhaustive "
        "correspondence (every public function x every catalogue object)",
        "C17: the memoisation model covers the cache of the asked predicate itself (exact for histories whose calls return "
        "and whose later calls hit that cache); inner caches (origin, name, ...) are not modelled",
    ]


def history_cases(cat: Cat):
    I = C("int"); S = C("str"); U = C("UData")
    pairs = [(("union", "O", [I, NONE_T]), ("union", "P", [I, NONE_T])),
             (("union", "P", [I, NONE_T]), ("union", "O", [I, NONE_T])),
             (("union", "P", [U, NONE_T]), ("union", "P", [NONE_T, U])),
             (("union", "P", [NONE_T, U]), ("union", "P", [U, NONE_T])),
             (("union", "U", [I, S]), ("union", "P", [I, S])),
             (("union", "P", [S, I]), ("union", "U", [I, S])),
             (("union", "U", [I, S, NONE_T]), ("union", "P", [NONE_T, I, S])),
             (("union", "O", [I, NONE_T]), ("union", "O", [I, NONE_T])),
             (C("int"), C("str"))]
    return pairs


def correspond_history(run: lib.Run, cat: Cat):
    from typelib.py import inspection as I
    cases, coq = [], []
    for da, db in history_cases(cat):
        a, b = cat.build(da), cat.build(db)
        for p in TY_PREDS:
            f = getattr(I, p)
            impl.clear_caches()
            outs = []
            for x in (a, b, a):
                try:
                    outs.append("bT" if f(x) else "bF")
                except Exception as e:  # noqa: BLE001
                    outs.append(exn_coq(e))
            if outs[0] not in ("bT", "bF"):
                continue        # a first call that raises leaves only inner caches behind (not modelled)
            cases.append({"pred": p, "history": [da, db, da], "observed": outs})
            coq.append("(P_%s, %s, %s)" % (p, coq_list([cat.emit(da), cat.emit(db), cat.emit(da)], "ity"),
                                            coq_list(outs, "obs")))
    hdr = ("From Coq Require Import List NArith ZArith String.\nImport ListNotations.\n"
           "Require Import TL.Model.Inspect TL.Model.InspectEq TLRun.GenInspectTables.\nLocal Open Scope string_scope.\n")
    res = run.coq_eval("cases_history.v", hdr + "Definition cases : list hist_case :=\n " + coq_list(coq).replace("; (P_", ";\n  (P_")
                       + ".\nEval vm_compute in hist_mismatches tbl cases.\n")
    if res is None:
        run.oblige("evaluate:cases_history.v", False, "model evaluation did not compile")
        bad = list(range(len(cases)))
    else:
        bad = lib.parse_nat_list(res[-1])
    # args() carries no cache: histories over ==-equal, differently ordered / spelled annotations get cold answers
    L = lambda *ls: ("literal", [list(x) for x in ls])
    apairs = history_cases(cat) + [
        (("union", "U", [I_, S_]), ("union", "U", [S_, I_])) for I_, S_ in [(C("int"), C("str"))]] + [
        (("union", "O", [C("int"), NONE_T]), ("union", "U", [NONE_T, C("int")])),
        (("union", "P", [C("int"), C("str")]), ("union", "P", [C("str"), C("int")])),
        (("union", "U", [C("int"), C("str"), NONE_T]), ("union", "U", [NONE_T, C("str"), C("int")])),
        (L(("i", 1), ("n",)), L(("n",), ("i", 1))), (L(("i", 1), ("s", "a")), L(("s", "a"), ("i", 1)))]
    acases, acoq = [], []
    for da, db in apairs:
        a, b = cat.build(da), cat.build(db)
        impl.clear_caches()
        try:
            obs = [[cat.describe(x) for x in I.args(o)] for o in (a, b, a, b)]
        except Exception as e:  # noqa: BLE001
            acases.append({"history": [da, db], "error": repr(e)}); acoq.append(None)
            continue
        acases.append({"fn": "args", "history": [da, db, da, db], "observed": obs})
        acoq.append("(%s, %s)" % (coq_list([cat.emit(x) for x in (da, db, da, db)], "ity"),
                                  coq_list([coq_list([cat.emit(x) for x in o], "ity") for o in obs], "(list ity)")))
    abad = [i for i, c in enumerate(acoq) if c is None]
    live = [i for i, c in enumerate(acoq) if c is not None]
    ares = run.coq_eval("cases_args_history.v", hdr + "Definition cases : list args_hist_case :=\n " +
                        coq_list([acoq[i] for i in live]) + ".\nEval vm_compute in args_hist_mismatches cases.\n")
    if ares is None:
        run.oblige("evaluate:cases_args_history.v", False, "model evaluation did not compile")
        abad = list(range(len(acases)))
    else:
        abad += [live[j] for j in lib.parse_nat_list(ares[-1])]
    run.record_corr("inspect-args-history", len(acases), [acases[i] for i in sorted(abad)], len(acases),
                    {"pairs": len(apairs)})
    flips = sum(1 for c in cases if len(set(c["observed"])) > 1)
    run.record_corr("inspect-history", len(cases), [cases[i] for i in bad], len(cases),
                    {"pairs": len(history_cases(cat)), "histories_with_a_flip": flips})


def correspond(run: lib.Run):
    cat = get_cat()
    if not os.path.exists(os.path.join(run.build, "GenInspectTables.vo")):
        run.record_corr("inspect", 0, [{"error": "tables did not compile"}], 0, {})
        return
    cases = catalogue(cat, run.rng, run.tier)
    rows = run_cases(cat, cases)
    bad = eval_shards(run, cat, rows, "cases")
    mism = []
    for i, j in bad:
        r = rows[i]
        mism.append({"desc": r["desc"], "fn": FUNCS[r["kind"]][j] if j >= 0 else None,
                     "observed": r["shown"][j] if 0 <= j < len(r["shown"]) else None, "error": r["error"]})
    dist: dict[str, int] = {}
    for k, d in cases:
        dist[d[0]] = dist.get(d[0], 0) + 1
    nev = sum(len(r["obs"]) for r in rows)
    run.record_corr("inspect", nev, mism, nev, dist)
    run.extra_cov["catalogue_objects"] = len(cases)
    run.samples.append({"desc": rows[0]["desc"], "observed": dict(zip(FUNCS[rows[0]["kind"]], rows[0]["shown"]))})
    run._c17_rows = rows
    run._c17_bad = bad
    correspond_history(run, cat)
    lib.run_tie(run, dispatchtie, streams=True, core=False)      # first-match dispatch over _HANDLERS by this model's predicates (dyn/Dispatch)
    lib.run_tie(run, ginspecttie)      # the graph model's copies of the inspection predicates agree with this model (dyn/GraphInspect)
    lib.run_tie(run, c17_hints)        # get_type_hints / signature helpers: the field-list theorem and its streams (dyn/C17/C17Hints.v)


# ----------------------------------------------------------------------------------
# the property oracle on the implementation (c17_oracle.py), known findings, replay
# ----------------------------------------------------------------------------------

def spelling_pairs(cat: Cat, cases):
    """(tag, desc a, desc b): two spellings of one annotation, taken from the catalogue"""
    out = []
    descs = {repr(d): d for _, d in cases}
    for _, d in cases:
        if d[0] == "tsub" and d[1] in cat.talias and d[1] != "Callable":
            other = ("csub", cat.cls_name(cat.talias[d[1]].__origin__), d[2])
            if repr(other) in descs:
                out.append(("generic-spelling", d, other))
        if d[0] == "typing" and d[1] != "Callable":
            out.append(("bare-spelling", d, C(cat.cls_name(cat.talias[d[1]].__origin__))))
        if d[0] == "union" and d[1] in ("U", "O"):
            other = ("union", "P", d[2])
            if repr(other) in descs:
                out.append(("union-spelling", d, other))
                out.append(("union-spelling", other, d))
        if d[0] == "union" and len(d[2]) >= 2:
            rot = (d[0], d[1] if d[1] != "O" else "U", d[2][1:] + d[2][:1])
            try:
                cat.build(rot)
                out.append(("union-order", d, rot))
            except Exception:  # noqa: BLE001
                pass
        if d[0] == "literal" and len(d[1]) >= 2:
            out.append(("literal-order", d, ("literal", d[1][1:] + d[1][:1])))
    return out


def failure_key(f):
    return json.dumps([f["site"], f["symptom"], f["input"]], default=str)


def search(run: lib.Run, broken):
    import c17_oracle as O
    cat = get_cat()
    cases = catalogue(cat, random.Random(run.seed + 7), run.tier)
    fails, nobj, ncalls = [], 0, 0
    # corpus first
    cdir = os.path.join(lib.VERIF, "corpus", "C17")
    corpus = []
    if os.path.isdir(cdir):
        for fn in sorted(os.listdir(cdir)):
            if fn.endswith(".json"):
                corpus.append(json.load(open(os.path.join(cdir, fn))))
    for e in corpus:
        fails += replay(e)["failures"]
    for kind, d in cases:
        try:
            obj = cat.build(d)
        except Exception:  # noqa: BLE001
            continue
        fs = O.check_object(d, obj, kind)
        nobj += 1
        fails += fs
    pairs = spelling_pairs(cat, cases)
    for tag, da, db in pairs:
        a, b = cat.build(da), cat.build(db)
        if tag in ("union-order", "literal-order"):
            # ==-equal annotations that differ in member ORDER, asked in sequence in one process
            fails += O.check_history_pair(da, a, db, b, O.ACCESSORS_HISTORY, tag)
            fails += O.check_history_pair(db, b, da, a, O.ACCESSORS_HISTORY, tag)
        if tag == "union-spelling":
            fails += O.check_history_pair(da, a, db, b, O.ACCESSORS_HISTORY, tag)
        if tag == "literal-order":
            fails += O.check_history_pair(da, a, db, b, O.SPECIAL_FORM_PREDS, tag)
        elif tag == "union-order":
            fails += O.check_history_pair(da, a, db, b, O.UNION_ORDER_FREE, tag)
            fails += O.check_spelling_pair(da, a, db, b, O.UNION_ORDER_FREE, tag)
        elif tag == "bare-spelling":
            fails += O.check_spelling_pair(da, a, db, b, list(O.ORIGIN_FAMILY) + ["issequencetype", "iscollectiontype"], tag)
        else:
            fails += O.check_spelling_pair(da, a, db, b, O.SPELLING_FREE + ["origin"] if tag == "generic-spelling" else O.UNION_SPELLING_FREE, tag)
    try:
        fails += c17_hints.search(run)          # the hints oracle (typing / dataclasses / inspect vs the signature helpers)
    except Exception as e:  # noqa: BLE001 - a crashing oracle must not hide the other failures
        run.notes.append(f"hints oracle crashed: {e!r}")
        run.oblige("hints:oracle ran to completion", False, repr(e)[:300])
    for f in fails:
        f["key"] = failure_key(f)
    # keep the smallest input per (site, symptom, regions)
    best = {}
    for f in fails:
        k = (f["site"], f["symptom"], tuple(f.get("regions", [])), tuple(f.get("extra_regions", [])))
        size = len(json.dumps(f["input"], default=str))
        if k not in best or size < best[k][0]:
            best[k] = (size, f)
    out = [v[1] for v in sorted(best.values(), key=lambda v: v[0])]
    run.search_stats["oracle"] = {
        "evaluations": nobj * 40 + len(pairs) * 20, "distinct_nontrivial": nobj, "objects": nobj,
        "spelling_pairs": len(pairs), "failures": len(fails), "distinct_failure_classes": len(out),
        "corpus": len(corpus),
        "rule": "every catalogue object x every predicate with a runtime counterpart, each called twice; every "
                "(typing, builtin) spelling pair and every union in its spellings and rotations, cold and as a 2-call history",
    }
    if out:
        run.samples.append({"oracle_failure": out[0]})
    return out


def replay(payload):
    import c17_oracle as O
    if payload.get("kind") == "hints":
        return c17_hints.replay(payload)
    cat = get_cat()
    inp = payload["input"]
    site = payload.get("site")
    fs = []
    if payload.get("symptom", "").startswith(("depends on the spelling", "answer depends on which",
                                              "disagrees with typing.get_args on the object itself")):
        da, db = [_tuplify(x) for x in inp]
        a, b = cat.build(da), cat.build(db)
        fs = O.check_spelling_pair(da, a, db, b, [site], "replay") + O.check_history_pair(da, a, db, b, [site], "replay")
    else:
        d = _tuplify(inp)
        kind = "inst" if d[0] == "inst" else "ty"
        fs = O.check_object(d, cat.build(d), kind)
    fs = [f for f in fs if f["site"] == site] if site else fs
    if payload.get("symptom"):
        fs = [f for f in fs if f["symptom"] == payload["symptom"]]
    return {"fails": bool(fs), "failures": fs}


def _tuplify(x):
    if isinstance(x, list) and x and isinstance(x[0], str) and x[0] in (
            "cls", "none", "ellipsis", "special", "typing", "tsub", "csub", "usub", "union", "literal", "final", "classvar",
            "newtype", "alias", "aliasstr", "fref", "typevar", "callT", "callB", "routine", "inst", "value", "arglist"):
        k = x[0]
        if k in ("tsub", "csub", "usub", "union"):
            return (k, x[1], [_tuplify(y) for y in x[2]])
        if k in ("final", "classvar"):
            return (k, _tuplify(x[1]))
        if k in ("newtype", "alias"):
            return (k, x[1], _tuplify(x[2]))
        if k == "typevar":
            return (k, x[1], None if x[2] is None else _tuplify(x[2]), [_tuplify(y) for y in x[3]])
        if k in ("callT", "callB"):
            return (k, None if x[1] is None else [_tuplify(y) for y in x[1]], _tuplify(x[2]))
        return tuple(x)
    return x


def reproduces(entry):
    return replay(entry["replay"])["fails"]


def matches(entry, failure):
    m = entry.get("matches", {})
    if "sites" in m and failure.get("site") not in m["sites"]:
        return False
    if "symptoms" in m and failure.get("symptom") not in m["symptoms"]:
        return False
    regs = set(failure.get("regions", [])) | set(failure.get("extra_regions", []))
    if "region" in m and m["region"] not in regs:
        return False
    if "regions" in m and not (set(m["regions"]) & regs):
        return False
    return True
