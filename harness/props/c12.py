"""C12 -- results depend only on (type, input), never on call history (DESIGN 7/C12).

prove      : Props/C12.v (generic memo theorem, history independence under c12_guard, refutations) and the per-run
             dyn/C12/C12.v which depends on the cache parameters reflected from the live module.
correspond : random histories executed in ONE process (a forked cold interpreter) vs the model's `step`
             (Model/Cache.v evaluated by vm_compute); the model's world tables (what the uncached bodies compute on
             atoms) are measured in a cold process on every run.
search     : the statement itself: every operation of a history alone in a cold process vs the same operation at the
             end of the history; returned containers never shared between calls; inputs never mutated.
"""
from __future__ import annotations

import json
import os
import random
import subprocess
import threading
from concurrent.futures import ThreadPoolExecutor

import lib
import refstie
import cachetie
import heaptie
from lib import coq_list

import c12_acceptors
import c12_families

COQ_TARGETS = ["theories/Proofs/CacheLemmas.vo", "theories/Proofs/CacheMemo.vo", "theories/Model/CacheToy.vo"]
COQ_TARGETS = COQ_TARGETS + [t for t in refstie.COQ_TARGETS if t not in COQ_TARGETS]
COQ_TARGETS = COQ_TARGETS + [t for t in cachetie.COQ_TARGETS if t not in COQ_TARGETS]
COQ_TARGETS = COQ_TARGETS + [t for t in heaptie.COQ_TARGETS if t not in COQ_TARGETS]
WORKER = os.path.join(lib.VERIF, "harness", "c12_worker.py")
THEOREMS = ["C12_memo_transparent", "C12_memo_transparent_immutable", "C12_history_independent",
            "C12_inputs_untouched",
            "C12_refuted_union_order", "C12_refuted_predicate_spelling", "C12_full_refuted"]
MAXIDX = 32


# ----------------------------------------------------------------------------------
# cold interpreters
# ----------------------------------------------------------------------------------
class Pool:
    """N fork-servers (each a freshly started interpreter that never calls typelib itself)."""

    def __init__(self, n):
        self.procs = [subprocess.Popen([lib.PY, WORKER], stdin=subprocess.PIPE, stdout=subprocess.PIPE,
                                       stderr=subprocess.DEVNULL, text=True, cwd=lib.VERIF, env=lib.env_for_impl())
                      for _ in range(n)]
        self.locks = [threading.Lock() for _ in range(n)]

    def ask(self, i, req):
        p = self.procs[i]
        with self.locks[i]:
            p.stdin.write(json.dumps(req) + "\n")
            p.stdin.flush()
            line = p.stdout.readline()
        if not line:
            raise RuntimeError("c12 worker died")
        r = json.loads(line)
        if "error" in r:
            raise RuntimeError("c12 worker: " + r["error"] + "\n" + r.get("trace", ""))
        return r

    def map(self, reqs):
        n = len(self.procs)
        out = [None] * len(reqs)

        def work(i):
            for j in range(i, len(reqs), n):
                out[j] = self.ask(i, reqs[j])

        with ThreadPoolExecutor(max_workers=n) as ex:
            list(ex.map(work, range(n)))
        return out

    def close(self):
        for p in self.procs:
            try:
                p.stdin.close()
                p.wait(timeout=10)
            except Exception:  # noqa: BLE001
                p.kill()


def fresh(req, timeout=120):
    """one request in a really fresh interpreter (no fork)"""
    rc, out, err = lib.sh([lib.PY, WORKER, "--fresh"], timeout=timeout, cwd=lib.VERIF, env=lib.env_for_impl(),
                          input=json.dumps(req))
    if rc != 0:
        raise RuntimeError("fresh worker failed: " + err[-800:])
    return json.loads(out.strip().split("\n")[-1])


# ----------------------------------------------------------------------------------
# the universe
# ----------------------------------------------------------------------------------
S = lambda n: ["S", n]  # noqa: E731
INT, FLT, STR, BYT, NON, DTT, TDT = S("int"), S("float"), S("str"), S("bytes"), S("none"), S("datetime"), S("timedelta")
DAT, TIM, DEC, FRA = S("date"), S("time"), S("decimal"), S("fraction")
BL, BD = ["BL"], ["BD"]


def U(style, *ms):
    return ["U", style, list(ms)]


TYPES = [
    INT, FLT, STR, BYT, DTT, TDT, BL, BD,
    ["L", INT], ["L", STR], ["L", DTT], ["L", BL], ["D", INT], ["D", BL], ["D", DTT], ["D", STR],
    U("typing", INT, STR), U("typing", STR, INT), U("pipe", INT, STR), U("pipe", STR, INT),
    U("optional", INT, NON), U("pipe", INT, NON), U("typing", INT, NON), U("optional", STR, NON),
    U("typing", INT, STR, NON), U("pipe", STR, INT, NON), U("typing", DTT, STR), U("typing", STR, DTT),
    ["L", U("typing", INT, STR)], ["L", U("pipe", STR, INT)], ["D", U("typing", STR, INT)], ["D", U("pipe", INT, STR)],
    ["L", U("optional", INT, NON)], ["L", ["L", INT]], ["D", ["L", INT]],
    # round 3: the other ISO-text temporals and the string-marshalled numbers
    DAT, TIM, DEC, FRA, ["L", TIM], ["D", DAT], ["L", DEC], ["D", TIM], U("typing", TIM, STR), U("optional", DAT, NON),
    U("typing", DEC, STR), ["L", FRA],
]
# equal-but-distinct objects of the quantifier
DT_A = ["dt", "2020-01-01T12:00:00", 0]
DT_B = ["dt", "2020-01-01T17:00:00", 300]         # the same instant as DT_A
DT_C = ["dt", "2021-06-01T00:30:00", 60]
TD_A, TD_B = ["td", 0, 3600, 0], ["td", 1, 0, 0]
TM_A, TM_B, TM_C = ["tm", "12:00:00", 0], ["tm", "13:00:00", 60], ["tm", "08:30:00", None]     # TM_A == TM_B
DA_A = ["date", "2020-01-01"]
DT_D = ["dt", "2020-01-02T00:30:00", 750]         # the instant of DT_A on the next calendar day
DEC_A, DEC_B, FRA_A = ["dec", "1.5"], ["dec", "1.50"], ["frac", 3, 2]                        # DEC_A == DEC_B == FRA_A == 1.5
TMTXT = [["s", "12:00:00+00:00"], ["y", "13:00:00+01:00"]]      # only ever under time / str / bytes (no wall clock)
NUMS = [["i", 5], ["i", 1], ["f", (1.0).hex()], ["b", True], ["i", 0], ["f", (2.5).hex()]]
STRS = [["s", "5"], ["s", "abc"], ["s", "1"], ["s", "x"]]
BYTS = [["y", "5"], ["y", "abc"]]
DTTXT = [["s", "2020-01-01T12:00:00+00:00"], ["s", "2020-01-01T17:00:00+05:00"], ["y", "2020-01-01T12:00:00+00:00"]]
TDTXT = [["s", "PT1H"], ["y", "PT1H"]]
ATOMS = NUMS + STRS + BYTS + [["n"], DT_A, DT_B, DT_C, TD_A, TD_B] + DTTXT + TDTXT + [DA_A, DT_D, DEC_A, DEC_B, FRA_A]
JSON_TEXTS_UNUSED = ["[1,2]", "[5,1]", '["5","abc"]', '{"a":1}', '{"a":[1]}', "[[1],[5,1]]", '{"a":"5","b":1}', "[]", "{}",
              '{"a":[1],"b":[5,1]}', "5", '"abc"', "null", '["2020-01-01T12:00:00+00:00"]']


JS_NUM = [["i", 5], ["i", 1], ["i", 0], ["f", (2.5).hex()]]
JS_STR = [["s", "5"], ["s", "abc"], ["s", "x"]]


def gen_val(rng, t, js=False):
    """a value (spec) shaped for annotation t; js: only what JSON text can carry"""
    k = t[0]
    if k == "S":
        if js:
            pools = {"int": JS_NUM[:3] + JS_STR[:1], "float": JS_NUM, "str": JS_STR + JS_NUM[:1], "bytes": JS_STR,
                     "none": [["n"]], "datetime": DTTXT[:2], "timedelta": TDTXT[:1] + JS_NUM[:1],
                     "date": [["s", "2020-01-01"]] + DTTXT[:2], "time": TMTXT[:1],
                     "decimal": [["s", "1.5"], ["s", "1.50"]] + JS_NUM, "fraction": [["s", "3/2"], ["s", "1.5"]] + JS_NUM[:3]}
            if t[1] == "time":
                return rng.choice(pools[t[1]])
            return rng.choice(pools[t[1]]) if rng.random() < 0.85 else rng.choice(JS_NUM + JS_STR + [["n"]])
        pools = {"int": NUMS + STRS[:1] + BYTS[:1], "float": NUMS, "str": STRS + NUMS[:2], "bytes": BYTS + STRS[:1],
                 "none": [["n"]], "datetime": [DT_A, DT_B, DT_C] + DTTXT, "timedelta": [TD_A, TD_B] + TDTXT + NUMS[:1],
                 "date": [DA_A, DT_A, DT_B, DT_D, ["s", "2020-01-01"]] + DTTXT[:2] + NUMS[:1],
                 "time": [TM_A, TM_B, TM_C, DT_A, DT_B] + TMTXT + DTTXT[:2],
                 "decimal": [DEC_A, DEC_B, FRA_A, ["s", "1.5"], ["s", "1.50"]] + NUMS,
                 "fraction": [FRA_A, DEC_A, DEC_B, ["s", "3/2"], ["s", "1.5"]] + NUMS}
        if t[1] == "time":         # times of day only where no routine completes them with the current date
            return rng.choice(pools[t[1]])
        return rng.choice(pools[t[1]]) if rng.random() < 0.85 else rng.choice(ATOMS)
    if k == "BL":
        return rng.choice([["l", [rng.choice(JS_NUM + JS_STR[1:2]) for _ in range(rng.randint(0, 3))]],
                           ["l", [["l", [["i", 1]]]]], ["d", [[["s", "a"], ["i", 1]]]], ["l", [["i", 1], ["i", 2]]]])
    if k == "BD":
        return ["d", [[["s", c], rng.choice(JS_NUM[:2] + [["l", [["i", 1]]]])] for c in "ab"[:rng.randint(0, 2)]]]
    if k == "L":
        v = ["l", [gen_val(rng, t[1], js) for _ in range(rng.randint(0, 3))]]
        if v[1] and is_pairish(v[1][0]):
            v[1].pop(0)
        return v
    if k == "D":
        return ["d", [[["s", c], gen_val(rng, t[1], js)] for c in "ab"[:rng.randint(0, 2)]]]
    if k == "U":
        return gen_val(rng, rng.choice(t[2]), js)
    raise ValueError(t)


def plain(v):
    if v[0] == "l":
        return [plain(x) for x in v[1]]
    if v[0] == "d":
        return {plain(a): plain(b) for a, b in v[1]}
    return {"i": lambda: v[1], "s": lambda: v[1], "n": lambda: None, "f": lambda: float.fromhex(v[1]),
            "b": lambda: bool(v[1])}[v[0]]()


def gen_text(rng, t):
    txt = json.dumps(plain(gen_val(rng, t, js=True)), separators=(",", ":"))
    return txt if all(32 <= ord(c) < 127 for c in txt) else "[]"


def gen_input(rng, t, opk):
    if opk in ("decode", "cdecode"):
        txt = gen_text(rng, t)
        return ["y", txt] if rng.random() < 0.7 else ["s", txt]
    if opk == "unmarshal" and t[0] not in ("S", "U") and rng.random() < 0.65:
        txt = gen_text(rng, t)
        return ["s", txt] if rng.random() < 0.6 else ["y", txt]
    return gen_val(rng, t)


def is_pairish(v):
    return (v[0] in ("l", "d") and len(v[1]) == 2) or (v[0] in ("s", "y") and len(v[1]) == 2)


def root_bytes(t):
    return t == BYT


def gen_history(rng, maxlen):
    n = rng.randint(3, maxlen)
    fam = rng.sample(TYPES, rng.randint(2, 4))
    if rng.random() < 0.6:      # make ==-equal spellings meet
        u = rng.choice([t for t in TYPES if "U" in json.dumps(t)])
        fam += [u] + [t for t in TYPES if t != u and same_key(t, u)][:2]
    ops, ninp, nres = [], 0, []
    held = []
    for i in range(n):
        r = rng.random()
        t = rng.choice(fam)
        if r < 0.09:
            ops.append({"op": rng.choice(["build_u", "build_m", "build_c"]), "t": t})
        elif r < 0.20 and nres:
            ops.append({"op": "mutres", "i": rng.choice(nres), "path": rng.choice([[], [], [0], [1], [0, 0]])})
        elif r < 0.25 and ninp:
            ops.append({"op": "mutin", "i": rng.randrange(ninp), "path": rng.choice([[], [0]])})
        elif r < 0.28:
            ops.append({"op": "clear"})
        else:
            opk = rng.choices(["unmarshal", "marshal", "encode", "decode", "cencode", "cdecode"],
                              [40, 22, 9, 12, 5, 6])[0]
            if opk in ("encode", "decode", "cencode", "cdecode") and root_bytes(t):   # identity coder, not JSON
                opk = "unmarshal"
            if held and rng.random() < 0.4:
                t0, opk, x, j = rng.choice(held)
                t = rng.choice([u for u in TYPES if same_key(u, t0)])     # the same key, maybe another spelling
                if rng.random() < 0.5 and x[0] in ("l", "d") and opk in ("unmarshal", "marshal", "encode", "cencode"):
                    xs = {"old": j}
                else:
                    xs = {"new": x}
                    ninp += 1
            else:
                x = gen_input(rng, t, opk)
                xs = {"new": x}
                held.append((t, opk, x, ninp))
                ninp += 1
            ops.append({"op": opk, "t": t, "x": xs})
            if opk in ("unmarshal", "marshal", "decode", "cdecode"):
                nres.append(i)
    # scenarios of the quantifier that random choice meets too rarely: a result that may be the cache's object is
    # mutated and the same text is read again; equal instants with different offsets follow each other
    r = rng.random()
    if r < 0.3:
        t1 = rng.choice([BL, BD, ["L", BL], ["D", BL], ["L", INT], ["L", ["L", INT]]])
        txt = gen_text(rng, t1)
        x = rng.choice([["s", txt], ["y", txt]])
        ops.append({"op": "unmarshal", "t": t1, "x": {"new": x}})
        ops.append({"op": "mutres", "i": len(ops) - 1, "path": rng.choice([[], [0], [1]])})
        fam2 = [t1, t1, BD] if t1[0] in ("BD", "D") else [t1, t1, BL]
        ops.append({"op": "unmarshal", "t": rng.choice(fam2), "x": {"new": x}})
    elif r < 0.5:
        pair, tys = rng.choice([
            ([DT_A, DT_B], [DTT, STR, BYT, ["L", DTT], U("typing", DTT, STR)]),
            ([DT_A, DT_D], [DAT, DTT, TIM, STR, ["L", DAT], ["D", DAT], U("optional", DAT, NON)]),
            ([TM_A, TM_B], [TIM, STR, BYT, ["L", TIM], ["D", TIM], U("typing", TIM, STR)]),
            ([DEC_A, DEC_B, FRA_A], [DEC, FRA, STR, FLT, ["L", DEC], U("typing", DEC, STR)])])
        a, b = rng.sample(pair, 2)
        t1 = rng.choice(tys)
        wrap = (lambda v: ["l", [v]]) if t1[0] == "L" else (lambda v: ["d", [[["s", "a"], v]]]) if t1[0] == "D" else (lambda v: v)
        k1 = "unmarshal" if t1 in (STR, BYT, FLT) else rng.choice(["marshal", "marshal", "unmarshal"])
        ops.append({"op": k1, "t": t1, "x": {"new": wrap(a)}})
        if rng.random() < 0.3:
            ops.append({"op": rng.choice(["clear", "build_u"]), "t": t1})
        ops.append({"op": rng.choice([k1, "encode"]) if k1 == "marshal" else k1, "t": t1, "x": {"new": wrap(b)}})
    return ops


# ---- structured / cyclic types: outside the model, oracle only -----------------------------------------
def sp(v):
    if isinstance(v, bool):
        return ["b", v]
    if isinstance(v, int):
        return ["i", v]
    if isinstance(v, str):
        return ["s", v]
    if v is None:
        return ["n"]
    if isinstance(v, list):
        return ["l", [sp(x) for x in v]]
    if isinstance(v, dict):
        return ["d", [[sp(a), sp(b)] for a, b in v.items()]]
    raise ValueError(v)


C = lambda n: ["C", n]  # noqa: E731
XPOOL = {   # type -> (plain wire values, dicts that build an instance for marshal)
    json.dumps(C("P")): ([{"a": "1", "b": "5"}, {"a": 2, "b": "x"}], [{"a": 1, "b": "5"}, {"a": 1, "b": 5}]),
    json.dumps(C("Q")): ([{"a": "1", "b": "5"}, {"a": 2, "b": 5}], [{"a": 1, "b": "5"}, {"a": 1, "b": 5}]),
    json.dumps(C("Node")): ([{"v": 1, "nxt": {"v": "2"}, "kids": [{"v": 3, "kids": [{"v": 4}]}]}, {"v": "7"}],
                            [{"v": 1, "nxt": {"v": 2}, "kids": [{"v": 3}]}]),
    json.dumps(C("Tree")): ([{"name": "r", "sub": {"x": {"name": "c", "sub": {"y": {"name": 5}}}}}], [{"name": "r", "sub": {"x": {"name": "c"}}}]),
    json.dumps(C("Box")): ([{"items": [1, 2], "meta": {"k": [1]}, "any_": [1]}, {"items": "[1,2]", "meta": "{\"k\":[1]}"}],
                           [{"items": [1, [2]], "meta": {"k": [1]}, "any_": [3]}]),
    json.dumps(C("TD")): ([{"x": "1", "y": ["a", 5]}], []),
    json.dumps(C("Color")): ([1, "blue", "1"], [1, "blue"]),
    json.dumps(C("NT")): ([{"k": "a", "n": "1"}], [{"k": "a", "n": 1}]),
    json.dumps(["T", [INT, STR]]): ([[1, "a"], ["5", 5]], []),
    json.dumps(["SET", INT]): ([[1, 2, 2], ["5"]], []),
    json.dumps(["LIT", [1, "a"]]): ([1, "a", True, "1"], []),
    json.dumps(["L", C("Node")]): ([[{"v": 1, "kids": [{"v": 2}]}]], []),
    json.dumps(["D", C("P")]): ([{"k": {"a": "1", "b": 5}}], []),
    json.dumps(["OPT", C("Node")]): ([None, {"v": 1, "nxt": {"v": 2}}], []),
    json.dumps(["L", C("Q")]): ([[{"a": 1, "b": "5"}]], []),
    json.dumps(["L", C("P")]): ([[{"a": 1, "b": "5"}]], []),
}
XTYPES = [json.loads(k) for k in XPOOL]
# Python-literal (non-JSON) texts: strload falls back to ast.literal_eval, which builds tuples and sets that hold
# lists / dicts; and the targets that pass loaded sub-objects through
LITERAL_TEXTS = ['[1, 2], {"k": [3]}', '([1], {"a": [2]})', "(1, [2, 3])", "((1, [2]), [3])", "[(1, [2])]",
                 "{'a': (1, [2])}", "{(1, 2), (3, 4)}", "{1, 2}", "([1, 2],)", "1, 2", "{'a': {5, 7}}", "([{'k': [1]}], 2)"]
PASS_TYPES = [["BT"], ["T", [BL, BD]], ["TV", ["ANY"]], BL, BD, ["BS"], ["ANY"], ["OBJ"], ["T", [["ANY"], ["ANY"]]],
              ["L", ["BT"]], ["D", ["BT"]], ["L", ["ANY"]] if False else ["TV", BL]]


def literal_scenario(rng):
    """read a literal text, deep-mutate the result, read it again (same or another pass-through target)"""
    txt = rng.choice(LITERAL_TEXTS)
    x = ["s", txt] if rng.random() < 0.7 else ["y", txt]
    t1 = rng.choice(PASS_TYPES)
    ops = [{"op": "unmarshal", "t": t1, "x": {"new": x}}]
    k = 0
    for _ in range(rng.randint(1, 2)):
        ops.append({"op": "mutres", "i": k, "path": rng.choice([[0], [1], [1, 0], [0, 1], [], [0, 0]])})
    if rng.random() < 0.2:
        ops.append({"op": "build_u", "t": rng.choice(PASS_TYPES)})
    ops.append({"op": "unmarshal", "t": rng.choice([t1, t1, rng.choice(PASS_TYPES)]), "x": {"new": x}})
    return ops


# every field-discovery route of serdes as SOURCE objects, each class read at least twice per history with different
# instances (state captured in a closure that get_items_iter memoises per class, or cached per class anywhere else)
SRC_CLASSES = ["SrcDC", "SrcAnn", "SrcSlots", "SrcSlotsPriv", "SrcVars", "SrcSig", "SrcSlotsDict", "SrcNT", "SrcMap", "XY", "P"]
SRC_TARGETS = [C("XY"), ["D", INT], ["L", INT], BD, BL, ["T", [INT, INT]], C("TD"), ["D", STR]]


def src_value(rng, kind):
    a, b = rng.choice([1, 2, 5]), rng.choice([0, 3, 7])
    if kind in SRC_CLASSES:
        d = {"a": a, "b": b} if kind == "P" else {"x": a, "y": b}
        return ["obj", kind, sp(d)]
    if kind == "dict":
        return sp({"x": a, "y": b})
    if kind == "odict":
        return ["odict", sp([["x", a], ["y", b]])]
    if kind == "pairs-list":
        return ["l", [["t", [["s", "x"], ["i", a]]], ["t", [["s", "y"], ["i", b]]]]]
    if kind == "pairs-tuple":
        return ["t", [["l", [["s", "x"], ["i", a]]], ["l", [["s", "y"], ["i", b]]]]]
    if kind == "pairs-iter":
        return ["iter", ["l", [["t", [["s", "x"], ["i", a]]], ["t", [["s", "y"], ["i", b]]]]]]
    if kind == "iter":
        return ["iter", sp([a, b, 4])]
    if kind == "deque":
        return ["deque", sp([a, b])]
    if kind == "fset":
        return ["fset", sp([a, b + 20])]      # no hash-slot collision: iteration order independent of insertion order
    if kind == "set":
        return ["set", [["i", a], ["i", b + 20]]]
    raise ValueError(kind)


SRC_KINDS = SRC_CLASSES + ["dict", "odict", "pairs-list", "pairs-tuple", "pairs-iter", "iter", "deque", "fset", "set"]


def source_scenario(rng):
    kinds = rng.sample(SRC_KINDS, rng.randint(1, 3))
    ops = []
    for rep in range(rng.randint(2, 4)):
        for kind in kinds:
            x = src_value(rng, kind)
            opk = rng.choices(["marshal", "unmarshal", "iteritems", "itervalues", "encode"], [30, 35, 15, 12, 8])[0]
            if opk in ("marshal", "encode"):
                t = C(kind) if kind in SRC_CLASSES and rng.random() < 0.7 else rng.choice([BD, BL, ["D", INT], ["L", INT]])
                ops.append({"op": opk, "t": t, "x": {"new": x}})
            elif opk == "unmarshal":
                ops.append({"op": opk, "t": rng.choice(SRC_TARGETS), "x": {"new": x}})
            else:
                ops.append({"op": opk, "x": {"new": x}})
        r = rng.random()
        if r < 0.15:
            ops.append({"op": rng.choice(["build_u", "build_m"]), "t": rng.choice(SRC_TARGETS)})
        elif r < 0.2:
            ops.append({"op": "clear"})
    return ops


def gen_history_x(rng, maxlen):
    r0 = rng.random()
    if r0 < 0.25:
        return literal_scenario(rng)
    if r0 < 0.6:
        return source_scenario(rng)
    n = rng.randint(3, maxlen)
    fam = rng.sample(XTYPES, rng.randint(2, 4)) + rng.sample(TYPES, 2)
    ops, nres, ninp = [], [], 0
    for i in range(n):
        r = rng.random()
        t = rng.choice(fam)
        if r < 0.10:
            ops.append({"op": rng.choice(["build_u", "build_m", "build_c"]), "t": t})
        elif r < 0.24 and nres:
            ops.append({"op": "mutres", "i": rng.choice(nres), "path": rng.choice([[], [0], [1], [0, 0], [2]])})
        elif r < 0.27:
            ops.append({"op": "clear"})
        else:
            k = json.dumps(t)
            if k in XPOOL:
                wire, objs = XPOOL[k]
                opk = rng.choices(["unmarshal", "decode", "cdecode", "marshal", "encode"], [45, 12, 8, 25 if objs else 0, 10 if objs else 0])[0]
                if opk in ("marshal", "encode"):
                    d = rng.choice(objs)
                    x = ["obj", t[1], sp(d)] if t[0] == "C" else sp(d)
                else:
                    w = rng.choice(wire)
                    txt = json.dumps(w, separators=(",", ":"))
                    if opk != "unmarshal":
                        x = ["y", txt]
                    else:
                        x = rng.choice([sp(w), ["s", txt], ["y", txt]]) if not isinstance(w, (int, str)) or w is None else sp(w)
            else:
                opk = rng.choice(["unmarshal", "marshal", "encode", "decode"])
                x = gen_input(rng, t, opk)
            ops.append({"op": opk, "t": t, "x": {"new": x}})
            ninp += 1
            if opk in ("unmarshal", "marshal", "decode", "cdecode"):
                nres.append(i)
    return ops


def key_norm(t):
    if t[0] in ("L", "D"):
        return [t[0], key_norm(t[1])]
    if t[0] == "U":
        return ["U", sorted(json.dumps(key_norm(m)) for m in t[2])]
    return t


def same_key(a, b):
    return key_norm(a) == key_norm(b)


def atoms_of_val(v, acc):
    if v[0] == "l":
        for x in v[1]:
            atoms_of_val(x, acc)
    elif v[0] == "d":
        for a, b in v[1]:
            atoms_of_val(a, acc)
            atoms_of_val(b, acc)
    else:
        acc[json.dumps(v)] = v


# ----------------------------------------------------------------------------------
# Coq emission
# ----------------------------------------------------------------------------------
class Atoms:
    def __init__(self, specs):
        self.ids = {json.dumps(s): i for i, s in enumerate(specs)}
        self.specs = list(specs)

    def id(self, sp):
        k = json.dumps(sp)
        if k not in self.ids:
            self.ids[k] = len(self.specs)
            self.specs.append(sp)
        return self.ids[k]


STY_OF = {"int": "SInt", "float": "SFloat", "str": "SStr", "bytes": "SBytes", "none": "SNone",
          "datetime": "SDateTime", "timedelta": "STimeDelta", "date": "SDate", "time": "STime",
          "decimal": "SDecimal", "fraction": "SFraction"}
STYS = list(STY_OF.values())
TEMPORAL_STYS = ["SDateTime", "STimeDelta", "SDate", "STime"]


def emit_ann(t):
    k = t[0]
    if k == "S":
        return "(AS %s)" % STY_OF[t[1]]
    if k == "BL":
        return "ABareList"
    if k == "BD":
        return "ABareDict"
    if k == "L":
        return "(AList %s)" % emit_ann(t[1])
    if k == "D":
        return "(ADict %s)" % emit_ann(t[1])
    return "(AUnion %s)" % coq_list([emit_ann(m) for m in t[2]], "ann")


def emit_val(v, A):
    if v[0] == "l":
        return "(VL PFresh %s)" % coq_list([emit_val(x, A) for x in v[1]], "val")
    if v[0] == "d":
        return "(VD PFresh %s)" % coq_list(["(%d%%N, %s)" % (A.id(a), emit_val(b, A)) for a, b in v[1]], "(N * val)")
    return "(VA %d%%N)" % A.id(v)


def emit_tree(t):
    if t[0] == "a":
        return "(VA %d%%N)" % t[1]
    if t[0] == "l":
        return "(VL PFresh %s)" % coq_list([emit_tree(x) for x in t[1]], "val")
    return "(VD PFresh %s)" % coq_list(["(%d%%N, %s)" % (a, emit_tree(b)) for a, b in t[1]], "(N * val)")


def emit_op(o, A):
    k = o["op"]
    if k.startswith("build"):
        return "(%s %s)" % ({"build_u": "OBuildU", "build_m": "OBuildM", "build_c": "OBuildC"}[k], emit_ann(o["t"]))
    if k == "mutres":
        return "(OMutResult %d %s)" % (o["i"], coq_list([str(i) for i in o["path"]], "nat"))
    if k == "mutin":
        return "(OMutInput %d %s)" % (o["i"], coq_list([str(i) for i in o["path"]], "nat"))
    if k == "clear":
        return "OClear"
    c = {"unmarshal": "OUnmarshal", "marshal": "OMarshal", "encode": "OEncode", "decode": "ODecode",
         "cencode": "OCEncode", "cdecode": "OCDecode"}[k]
    x = o["x"]
    i = "(INew %s)" % emit_val(x["new"], A) if "new" in x else "(IOld %d)" % x["old"]
    return "(%s %s %s)" % (c, emit_ann(o["t"]), i)


def emit_obs(o, A):
    if o[0] == "unit":
        return "OUnit"
    if o[0] == "raise":
        return "(OVal (Raise %s))" % o[1]
    return "(OVal (Ok %s))" % emit_val(o[1], A)


def emit_res(r, tree=False):
    if r[0] == "ok":
        return "(Ok %s)" % (emit_tree(r[1]) if tree else "%d%%N" % r[1])
    if r[0] == "raise":
        return "(Raise %s)" % r[1]
    return "Unmodelled"


def emit_world(w) -> str:
    T = w["tables"]

    def tbl(name, d, ty, f):
        items = ["(%s%%N, %s)" % (a, f(v)) for a, v in sorted(d.items(), key=lambda kv: int(kv[0]))]
        return "Definition %s : list (N * %s) := %s.\n" % (name, ty, coq_list(items, "(N * %s)" % ty).replace("; (", ";\n (")) \
            if False else "Definition %s : list (N * %s) :=\n %s.\n" % (name, ty, coq_list(items, "(N * (%s))" % ty))

    b = lambda v: "true" if v else "false"  # noqa: E731
    out = ["(* generated on this run from cold measurements of the live typelib *)",
           "From Coq Require Import List NArith Bool. Import ListNotations.",
           "Require Import TL.Model.Cache.",
           "Definition lk {A} (t : list (N * A)) (d : A) (a : N) : A :=",
           "  match find (fun e => N.eqb (fst e) a) t with Some e => snd e | None => d end."]
    out.append(tbl("T_text", T["text"], "bool", b))
    out.append(tbl("T_temporal", T["temporal"], "bool", b))
    out.append(tbl("T_isdelta", T["isdelta"], "bool", b))
    out.append(tbl("T_isnone", T["isnone"], "bool", b))
    out.append(tbl("T_len2", T["len2"], "bool", b))
    out.append(tbl("T_eqc", T["eqc"], "N", lambda v: "%d%%N" % v))
    out.append(tbl("T_strload", {a: v for a, v in T["strload"].items() if v[0] == "ok"}, "val", lambda v: emit_tree(v[1])))
    for name in ("iso", "decode", "json", "jkey"):
        out.append(tbl("T_" + name, T[name], "res N", emit_res))
    out.append(tbl("T_chars", T["chars"], "res (list N)",
                   lambda v: "(Ok %s)" % coq_list(["%d%%N" % i for i in v[1]], "N") if v[0] == "ok" else emit_res(v)))
    for name in ("loads", "castl", "castd"):
        out.append(tbl("T_" + name, T[name], "res val", lambda v: emit_res(v, True)))
    for s in TEMPORAL_STYS:
        out.append(tbl("T_parse_" + s, T["parse"][s], "res N", emit_res))
        out.append(tbl("T_post_" + s, T["post"][s], "res N", emit_res))
    stys = STYS
    tsel = lambda pre: " | ".join("%s => lk %s%s Unmodelled a" % (s, pre, s) for s in TEMPORAL_STYS)  # noqa: E731
    for s in stys:
        out.append(tbl("T_lu_" + s, T["leaf_u"][s], "res N", emit_res))
        out.append(tbl("T_lm_" + s, T["leaf_m"][s], "res N", emit_res))
    sel = lambda pre: "match t with " + " | ".join("%s => %s%s" % (s, pre, s) for s in stys) + " end"  # noqa: E731
    mx = lambda v: "None" if v is None else "(Some %d%%N)" % v  # noqa: E731
    out.append("Definition W : world := {|\n"
               "  w_text := lk T_text false; w_temporal := lk T_temporal false; w_isdelta := lk T_isdelta true; w_isnone := lk T_isnone false;\n"
               "  w_eqc := fun a => lk T_eqc a a; w_strload := fun a => lk T_strload (VA a) a;\n"
               "  w_iso := lk T_iso Unmodelled; w_decode := lk T_decode Unmodelled;\n"
               "  w_parse := fun a t => match t with %s | _ => Unmodelled end;\n"
               "  w_post := fun t a => match t with %s | _ => Unmodelled end;\n"
               "  w_chars := lk T_chars Unmodelled; w_len2 := lk T_len2 false;\n"
               "  w_leaf_u := fun t => lk (%s) Unmodelled; w_leaf_m := fun t => lk (%s) Unmodelled;\n"
               "  w_cast := fun b => lk (if b then T_castl else T_castd) Unmodelled;\n"
               "  w_json := lk T_json Unmodelled; w_jkey := lk T_jkey Unmodelled; w_loads := lk T_loads Unmodelled;\n"
               "  w_index := fun i => nth i %s 0%%N; w_marker := %d%%N; w_zz := %d%%N; w_none := %d%%N;\n"
               "  w_max_load := %s; w_max_iso := %s; w_max_parse := %s |}.\n"
               % (tsel("T_parse_"), tsel("T_post_"), sel("T_lu_"), sel("T_lm_"), coq_list(["%d%%N" % i for i in w["index"]], "N"), w["marker"], w["zz"],
                  w["none"], mx(w["max"]["load"]), mx(w["max"]["iso"]), mx(w["max"]["parse"])))
    return "\n".join(out)


# ----------------------------------------------------------------------------------
# prove
# ----------------------------------------------------------------------------------
_state: dict = {}


_lib_findings = lib.Run.findings


def local_findings(run):
    """findings.d/C12.json is the source the lead merges into known_findings.json (harness/mkfindings.py).  For this
    property it is read directly, so that an entry that was moved to "fixed" here stops suppressing at once even
    while known_findings.json still lists it.  lib.py is not edited: the method is wrapped in the C12 process only."""
    p = os.path.join(lib.VERIF, "findings.d", "C12.json")
    if run.prop == "C12" and os.path.exists(p):
        return [e for e in json.load(open(p)).get("open", []) if e["property"] == run.prop]
    return _lib_findings(run)


lib.Run.findings = local_findings


def prove(run: lib.Run):
    run.check_props("Props/C12.v", THEOREMS)
    # reflected cache parameters: which functions are cached at all, their maxsize / typed flags
    try:
        params = fresh({"kind": "world", "atoms": [], "maxidx": 1})
        _state["fresh_ok"] = True
    except Exception as e:  # noqa: BLE001
        run.oblige("reflect:cache parameters", False, repr(e)[:300])
        return
    typed = params["typed"]
    run.oblige("reflect:value caches compare keys by == only (typed=False), as the model's atom_eqv does",
               typed == [False, False, False], f"typed flags {typed}")
    run.assumptions += [
        "C12: functools.cache/lru_cache return the value stored under the first ==/hash-equal key and never store an "
        "exception (memo_get/memo_put); maxsize is reflected, eviction order is not exercised by the tie",
        "C12: what the uncached bodies compute on atoms (int(), str(), pendulum.parse, json, strload/isoformat/"
        "dateparse.__wrapped__) is the model's `world`: universally quantified in the theorems, measured in a cold "
        "process on every run for the correspondence",
        "C12: Delayed* proxies (cyclic types), TypeContext alias memo, get_items_iter and the inspection predicates "
        "are outside the model's universe; they are exercised only by the cold-vs-warm oracle",
    ]


# ----------------------------------------------------------------------------------
# correspond
# ----------------------------------------------------------------------------------
def correspond(run: lib.Run):
    nh = run.budget(400, 3000)
    maxlen = run.budget(12, 40)
    rng = random.Random(run.seed)
    hists = corpus_histories() + [gen_history(rng, maxlen) for _ in range(nh)]
    # round 3: the equal-value families of the quantifier, enumerated (the part the model can express: declared scalar
    # types of the model at the root / in a list / dict / Optional, members that are atoms)
    fam = c12_families.family_histories(run.tier != "quick", model=True)
    n_random = len(hists)
    hists += [ops for _, ops in fam]
    # round 4: same-class inputs that different members of one union take, through one union routine (the part over
    # the model's universe: unions of its scalar types / of lists and dicts of them)
    acc = c12_acceptors.acceptor_histories(run.tier != "quick", model=True)
    hists += [ops for _, ops in acc]
    _state["hists"] = hists
    _state["n_random"] = n_random
    pool = Pool(run.budget(12, 14))
    _state["pool"] = pool
    check_catalogue(run, pool)
    atoms = {}
    for a in ATOMS:
        atoms[json.dumps(a)] = a
    for h in hists:
        for o in h:
            if "x" in o and "new" in o["x"]:
                atoms_of_val(o["x"]["new"], atoms)
    w = pool.ask(0, {"kind": "world", "atoms": list(atoms.values()), "maxidx": MAXIDX})
    run.oblige("world: the rebuild step of temporal unmarshallers is a function of the parsed value",
               not w["tables"].get("inconsistent"), json.dumps(w["tables"].get("inconsistent"))[:200])
    A = Atoms(w["atoms"])
    ok = run.compile_dyn("GenWorld.v", text=emit_world(w))
    # the warm runs
    run.log("world measured (%d atoms), GenWorld.v compiled" % len(A.specs))
    runs = pool.map([{"kind": "history", "ops": h} for h in hists])
    _state["runs"] = runs
    run.log("%d histories executed" % len(hists))
    dist = {"ops": {}, "len": {}, "obs": {"ok": 0, "raise": 0, "unit": 0}}
    for h, r in zip(hists, runs):
        dist["len"][len(h)] = dist["len"].get(len(h), 0) + 1
        for o, ob in zip(h, r["obs"]):
            dist["ops"][o["op"]] = dist["ops"].get(o["op"], 0) + 1
            dist["obs"][ob[0]] += 1
    if not ok:
        run.record_corr("cache-histories", len(hists), [{"error": "GenWorld.v did not compile"}], 0, dist)
        return
    hdr = ("From Coq Require Import List NArith Bool. Import ListNotations.\n"
           "Require Import TL.Model.Cache TLRun.GenWorld.\n")
    files, shard = {}, 250
    for k in range(0, len(hists), shard):
        cs = []
        for h, r in zip(hists[k:k + shard], runs[k:k + shard]):
            cs.append("(%s,\n   %s)" % (coq_list([emit_op(o, A) for o in h], "op"),
                                        coq_list([emit_obs(o, A) for o in r["obs"]], "out")))
        files["cases_%d.v" % (k // shard)] = hdr + "Definition cases : list (list op * list out) :=\n " + \
            coq_list(cs, "(list op * list out)").replace("; ((", ";\n ((") + ".\nEval vm_compute in bad_cases W 0 cases.\n"
    res = run.coq_eval_many(files, timeout=900)
    run.log("model evaluated on %d shards" % len(files))
    bad = []
    for name, out in res.items():
        k = int(name[6:-2]) * shard
        if out is None:
            run.oblige(f"evaluate:{name}", False, "model evaluation did not compile")
            bad.append({"shard": name, "error": "no result"})
            continue
        import re
        for ci, oi in re.findall(r"\((\d+),\s*(\d+)\)", out[-1]):
            ci, oi = int(ci) + k, int(oi)
            bad.append({"history": ci, "op_index": oi, "op": hists[ci][oi], "observed": runs[ci]["obs"][oi],
                        "ops": hists[ci][:oi + 1]})
    nontriv = len({json.dumps(h) for h in hists if any(o["op"] in ("mutres", "clear") or "old" in o.get("x", {}) for o in h)})
    nontriv += len({json.dumps(h) for h in hists[n_random:]})
    dist["atoms"] = len(A.specs)
    dist["equal_value_family_histories"] = len(fam)
    dist["union_acceptor_histories"] = len(acc)
    dist["union_acceptor_unions"] = len(c12_acceptors.catalogue(True))
    dist["equal_value_families"] = {}
    for lab, _ in fam:
        k = lab.split("/")[0]
        dist["equal_value_families"][k] = dist["equal_value_families"].get(k, 0) + 1
    run.record_corr("cache-histories", len(hists), bad, nontriv, dist)
    _state["corr_bad"] = bad
    run.samples.append({"history": hists[len(corpus_histories())][:4], "observed": runs[len(corpus_histories())]["obs"][:4]})
    # the memo layers in front of reference resolution (string-keyed factory caches, module discovery): Props/C11Refs.v
    lib.run_tie(run, refstie)
    # the cached system refines the STATELESS core model on every history (Props/C12Bridge.v); histories vs Core by vm_compute
    lib.run_tie(run, cachetie)
    # 'returned mutable containers are never shared ...; inputs are never mutated': C12H_results_separate / _inputs_never_mutated
    lib.run_tie(run, heaptie, props=False, n_groups=run.budget(10, 60), seed_offset=12)


def check_catalogue(run, pool):
    """the catalogue of equal-value families is what it claims on this interpreter: members pairwise == and hash equal
    (families not marked eq=False), pairwise distinct objects, specs canonical (spec -> object -> spec)"""
    fams = c12_families.all_members()
    r = pool.ask(0, {"kind": "family", "families": [m for _, _, m in fams]})["families"]
    bad = []
    for (name, eq, ms), a in zip(fams, r):
        k = len(ms)
        if eq and not all(a["eq"][i][j] for i in range(k) for j in range(k)):
            bad.append(name + ": not all ==/hash equal")
        if not all(a["canon"]):
            bad.append(name + ": non-canonical spec")
        if not all(a["distinct"][i][j] for i in range(k) for j in range(k) if i != j):
            bad.append(name + ": members are one object")
    run.oblige("catalogue: the members of every equal-value family are distinct objects that compare and hash equal "
               "on this interpreter", not bad, "; ".join(bad)[:300] or "%d families, %d members" % (len(fams), sum(len(m) for _, _, m in fams)))


def corpus_histories(oracle_only=False):
    """corpus entries marked "oracle_only" use types / values outside the Coq model (tuples, sets, classes)"""
    d = os.path.join(lib.VERIF, "corpus", "C12")
    out = []
    if os.path.isdir(d):
        for fn in sorted(os.listdir(d)):
            if fn.endswith(".json"):
                c = json.load(open(os.path.join(d, fn)))
                if bool(c.get("oracle_only")) == oracle_only:
                    out.append(c["ops"])
    return out


# ----------------------------------------------------------------------------------
# the property oracle
# ----------------------------------------------------------------------------------
def cold_request(op, snap):
    o = {k: v for k, v in op.items() if k != "x"}
    o["x"] = {"new": snap}
    return {"kind": "cold", "op": o}


_cold_cache: dict = {}
VALUE_OPS = ("unmarshal", "marshal", "encode", "decode", "cencode", "cdecode", "iteritems", "itervalues")


def oracle(pool, hists, runs, stats):
    """cold-vs-warm for every value operation of every history + the side conditions observed by the warm run"""
    reqs, where = [], []
    for hi, (h, r) in enumerate(zip(hists, runs)):
        for oi, o in enumerate(h):
            if o["op"] in VALUE_OPS and "[\"o\"" not in json.dumps(r["snap"][oi]):
                reqs.append(cold_request(o, r["snap"][oi]))
                where.append((hi, oi))
    # identical cold requests are asked once (also across the streams of one run)
    uniq = {}
    for q in reqs:
        uniq.setdefault(json.dumps(q, sort_keys=True), q)
    keys = [k for k in uniq if k not in _cold_cache]
    _cold_cache.update(zip(keys, pool.map([uniq[k] for k in keys])))
    answers = _cold_cache
    stats["cold_ops"] = len(reqs)
    stats["distinct_cold_ops"] = len(keys)
    diffs = []
    for (hi, oi), q in zip(where, reqs):
        cold = answers[json.dumps(q, sort_keys=True)]["obs"]
        warm = runs[hi]["obs"][oi]
        if cold != warm:
            diffs.append((hi, oi, cold, warm))
    stats["histories_with_difference"] = len({d[0] for d in diffs})
    stats["differing_operations"] = len(diffs)
    diag = pool.map([{"kind": "diagnose", "ops": hists[hi], "at": oi, "cold": cold} for hi, oi, cold, warm in diffs])
    fails = []
    for (hi, oi, cold, warm), d in zip(diffs, diag):
        fails.append({"symptom": "result differs from the same operation in a cold process", "history": hists[hi][:oi + 1],
                      "at": oi, "op": hists[hi][oi], "input_now": runs[hi]["snap"][oi], "warm": warm, "cold": cold,
                      "cause": d["cause"], "facts": d["facts"]})
    for hi, r in enumerate(runs):
        for f in r["oracle"]:
            fails.append(dict(f, history=hists[hi][:f["at"] + 1], op=hists[hi][f["at"]],
                              cause="strload" if f.get("strload_owned") else "unknown", facts={}))
    return fails


def shrink(pool, f):
    """drop operations of the history while the same symptom (and cause) persists at the last operation"""
    if f["symptom"] != "result differs from the same operation in a cold process":
        return f
    ops = list(f["history"])
    changed = True
    while changed and len(ops) > 2:
        changed = False
        for i in range(len(ops) - 1):
            cand = ops[:i] + ops[i + 1:]
            if any(("i" in o and o["op"] in ("mutres", "mutin")) or "old" in o.get("x", {}) for o in cand[i:]):
                continue     # indexes would shift
            r = pool.ask(0, {"kind": "history", "ops": cand})
            last = len(cand) - 1
            if cand[last]["op"] not in VALUE_OPS:
                continue
            cold = pool.ask(0, cold_request(cand[last], r["snap"][last]))["obs"]
            if cold != r["obs"][last]:
                ops = cand
                changed = True
                break
    if len(ops) < len(f["history"]):
        r = pool.ask(0, {"kind": "history", "ops": ops})
        last = len(ops) - 1
        cold = pool.ask(0, cold_request(ops[last], r["snap"][last]))["obs"]
        d = pool.ask(0, {"kind": "diagnose", "ops": ops, "at": last, "cold": cold})
        f = dict(f, history=ops, at=last, warm=r["obs"][last], cold=cold, input_now=r["snap"][last],
                 cause=d["cause"], facts=d["facts"])
    return f


def failure_key(f):
    return json.dumps([f["symptom"], f.get("cause"), f["op"]["op"], f["op"].get("t"),
                       sorted(k for k, v in f.get("facts", {}).items() if v)])


def search(run: lib.Run, broken):
    pool = _state.get("pool") or Pool(8)
    hists, runs = _state.get("hists"), _state.get("runs")
    if hists is None:
        rng = random.Random(run.seed)
        hists = corpus_histories() + [gen_history(rng, 12) for _ in range(60)]
        runs = pool.map([{"kind": "history", "ops": h} for h in hists])
    stats = {"histories": len(hists)}
    fails = oracle(pool, hists, runs, stats)
    # structured and cyclic types (Delayed* proxies, TypeContext memo, get_items_iter): oracle only
    rngx = random.Random(run.seed + 3)
    xh = corpus_histories(oracle_only=True) + [gen_history_x(rngx, run.budget(12, 30)) for _ in range(run.budget(150, 2500))]
    xr = pool.map([{"kind": "history", "ops": h} for h in xh])
    stx = {}
    fails += oracle(pool, xh, xr, stx)
    stats["structured_histories"] = len(xh)
    stats["structured_cold_ops"] = stx["cold_ops"]
    stats["structured_differing_operations"] = stx["differing_operations"]
    stats["cold_ops"] += stx["cold_ops"]
    stats["distinct_cold_ops"] += stx["distinct_cold_ops"]
    # round 3: the equal-value families over the whole universe (every declared scalar type, seven positions); the
    # histories the correspondence already ran (and the oracle above re-ran cold) are not repeated
    done = {json.dumps(h) for h in hists}
    fh = [ops for _, ops in c12_families.family_histories(run.tier != "quick") if json.dumps(ops) not in done]
    run.log("oracle: random and structured streams done")
    fr = pool.map([{"kind": "history", "ops": h} for h in fh])
    stf = {}
    fails += oracle(pool, fh, fr, stf)
    run.log("oracle: %d equal-value family histories, %d cold operations" % (len(fh), stf["cold_ops"]))
    stats["equal_value_family_histories"] = len(fh) + sum(1 for h in hists[_state.get("n_random", len(hists)):])
    stats["equal_value_family_cold_ops"] = stf["cold_ops"]
    stats["equal_value_family_differing_operations"] = stf["differing_operations"]
    stats["cold_ops"] += stf["cold_ops"]
    stats["distinct_cold_ops"] += stf["distinct_cold_ops"]
    # round 4: same-class inputs with different acceptors through one union routine, whole universe (fixed tuples,
    # structured classes, sets, enums, Literal as members; four positions)
    done = {json.dumps(h) for h in hists}
    ah = [ops for _, ops in c12_acceptors.acceptor_histories(run.tier != "quick") if json.dumps(ops) not in done]
    ar = pool.map([{"kind": "history", "ops": h} for h in ah])
    sta = {}
    fails += oracle(pool, ah, ar, sta)
    run.log("oracle: %d union-acceptor histories, %d cold operations" % (len(ah), sta["cold_ops"]))
    stats["union_acceptor_histories"] = len(ah)
    stats["union_acceptor_cold_ops"] = sta["cold_ops"]
    stats["union_acceptor_differing_operations"] = sta["differing_operations"]
    stats["cold_ops"] += sta["cold_ops"]
    stats["distinct_cold_ops"] += sta["distinct_cold_ops"]
    if broken and run.tier == "quick":      # look harder
        rng = random.Random(run.seed + 7)
        more = [gen_history(rng, 16) for _ in range(300)]
        mruns = pool.map([{"kind": "history", "ops": h} for h in more])
        st2 = {}
        fails += oracle(pool, more, mruns, st2)
        stats["extra_histories"] = len(more)
        stats["cold_ops"] += st2["cold_ops"]
    # validate the fork-cold interpreter against really fresh interpreters on a sample
    sample = [(h, r) for h, r in zip(hists, runs)][:run.budget(6, 30)]
    sample += list(zip(fh, fr))[::max(1, len(fh) // run.budget(5, 25))]
    mism = 0
    for h, r in sample:
        for oi, o in enumerate(h):
            if o["op"] in VALUE_OPS and "[\"o\"" not in json.dumps(r["snap"][oi]):
                q = cold_request(o, r["snap"][oi])
                if fresh(q)["obs"] != pool.ask(0, q)["obs"]:
                    mism += 1
                break
    run.oblige("oracle: a forked cold interpreter answers like a freshly started one (sample)", mism == 0, f"{mism} differ")
    # everything that no listed finding explains is kept (shrunk, de-duplicated); of the explained ones a few
    # representatives per (symptom, cause, facts) are passed on so that the KNOWN-FINDING lines are printed
    entries = run.findings()
    unexplained, explained = {}, {}
    for f in fails:
        hit = any(matches(e, f) for e in entries)
        k = failure_key(f) if not hit else json.dumps([f["symptom"], f.get("cause"), sorted(k for k, v in f.get("facts", {}).items() if v)])
        d = explained if hit else unexplained
        if k not in d or len(f["history"]) < len(d[k]["history"]):
            d[k] = f
    stats["failures_by_cause"] = {}
    for f in fails:
        kk = f["symptom"][:30] + " / " + str(f.get("cause"))
        stats["failures_by_cause"][kk] = stats["failures_by_cause"].get(kk, 0) + 1
    stats["unexplained_failures"] = sum(1 for f in fails if not any(matches(e, f) for e in entries))
    out = []
    for k, f in sorted(unexplained.items(), key=lambda kv: len(kv[1]["history"]))[:10]:
        g = shrink(pool, f)
        g["key"] = failure_key(g)
        out.append(g)
    for k, f in sorted(explained.items(), key=lambda kv: len(kv[1]["history"]))[:12]:
        f["key"] = k
        out.append(f)
    stats.update({"evaluations": stats.get("cold_ops", 0), "distinct_nontrivial": stats.get("distinct_cold_ops", 0),
                  "failures": len(fails), "distinct_failures": len(out),
                  "rule": "every value operation of every history is re-run alone in a cold (forked, never-used) "
                          "interpreter on the input's content at call time and compared by canonical encoding; "
                          "non-trivial = distinct cold requests"})
    run.search_stats["oracle"] = stats
    if out:
        run.samples.append({"oracle_failure": {k: v for k, v in out[0].items() if k != "history"}})
    pool.close()
    _state.pop("pool", None)
    return out


# ----------------------------------------------------------------------------------
# replay / known findings
# ----------------------------------------------------------------------------------
def replay(payload):
    if str(payload.get("kind", "")).startswith("refs-"):
        return refstie.replay(payload)
    """payload: {"history":[ops...]} : the last operation is compared with its cold run"""
    pool = Pool(1)
    if payload.get("kind") == "predicate":
        try:
            a = pool.ask(0, dict(payload, types=payload["types"]))["answers"]
            b = pool.ask(0, dict(payload, types=payload["types"][::-1]))["answers"][::-1]
            bad = a != b
            return {"fails": bad, "asked_in_order": a, "asked_in_reverse_order": b,
                    "failures": [{"symptom": "cached predicate answers depend on which equal spelling was asked first",
                                  "cause": "inspection", "op": {"op": "predicate"}, "facts": {}}] if bad else []}
        finally:
            pool.close()
    ops = payload.get("history") or payload["ops"]
    try:
        r = pool.ask(0, {"kind": "history", "ops": ops})
        last = len(ops) - 1
        fails = [dict(f, op=ops[f["at"]]) for f in r["oracle"]]
        res = {"observed": r["obs"]}
        if ops[last]["op"] in VALUE_OPS:
            cold = pool.ask(0, cold_request(ops[last], r["snap"][last]))["obs"]
            res["cold"] = cold
            if cold != r["obs"][last]:
                d = pool.ask(0, {"kind": "diagnose", "ops": ops, "at": last, "cold": cold})
                fails.append({"symptom": "result differs from the same operation in a cold process", "warm": r["obs"][last],
                              "cold": cold, "cause": d["cause"], "facts": d["facts"], "op": ops[last]})
        res["fails"] = bool(fails)
        res["failures"] = fails
        return res
    finally:
        pool.close()


def reproduces(entry):
    if str(entry.get("replay", {}).get("kind", "")).startswith("refs-"):
        return refstie.reproduces(entry)
    r = replay(entry["replay"])
    return any(matches(entry, f) for f in r["failures"])


def matches(entry, failure):
    if str(failure.get("kind", "")).startswith("refs-") or str(entry.get("replay", {}).get("kind", "")).startswith("refs-"):
        return str(failure.get("kind", "")).startswith("refs-") and refstie.matches(entry, failure)
    m = entry.get("matches", {})
    if failure.get("cause") not in m.get("causes", []):
        return False
    if failure["symptom"] not in m.get("symptoms", []):
        return False
    if failure["op"]["op"] not in m.get("ops", []):
        return False
    fact = m.get("fact")
    if fact and failure["symptom"].startswith("result differs") and not failure.get("facts", {}).get(fact):
        return False
    return True
