"""C07 -- recursive and mutually recursive types work at every depth (DESIGN 7/C07).

Theorems: Props/C07.v (build is total along every order accepted by the graph contract; no raw level; the
mechanism computes the member-wise reference semantics for values of every depth).  Tie: all cycle
topologies over up to 3 classes with edges {Optional[X], list[X], dict[str, X], tuple[X, ...], X | None},
every class and every container of a cyclic class as root, values of nesting depth 0..D; the mechanism
model runs along the observed node orders.  Oracle: round trip, conformance and "no raw level" on the
implementation at every depth; construction terminates.
Round 3 (harness/c07_spell.py): the TEXT of a recursive definition is a dimension of the programs quantified over:
recursive string-valued aliases (alone, mutually recursive, in cycles through classes) and cyclic classes with string
annotations, each written in every legal spelling (bare / typing. / t. / from-imported / collections.abc. / quoted
inside / quoted as a whole), classes presenting their hints at class level, only in the __init__ signature, or
nested in another class.  Both strata: the three mechanism streams (since Model/Build.v handles alias objects of the
environment: notes/buildalias.md) + order_ok on every observed order, the orders of what the lazy proxies resolve included.
"""
from __future__ import annotations

import itertools
import json
import random
import signal
import warnings

import bridgetie
import c07_spell
import coregen
import coremodel
import coreprop
import impl
import lib
import c17_hints
import universe

COQ_TARGETS = ["theories/Props/C07.vo", "theories/Model/BuildTables.vo", "theories/Model/CoreTables.vo",
               "theories/Props/C05Bridge.vo", "theories/Model/GraphBridgeEq.vo"]
COQ_TARGETS = COQ_TARGETS + [t for t in c17_hints.COQ_TARGETS if t not in COQ_TARGETS]
THEOREMS = ["C07_build_total", "C07_no_raw_level", "C07_all_depths", "C07_string_alias_lazy", "C07_all_depths_complete"]
EDGES = ["opt", "list", "dict", "tuple", "bar"]


def prove(run: lib.Run):
    run.check_props("Props/C07.v", THEOREMS)
    run.assumptions += [
        "C07: 'below the interpreter's recursion limit' is not modelled: the Coq model has fuel, not a stack; "
        "the tie runs the implementation at the default recursion limit up to depth D",
        "C07: graph.static_order enters as the contract orders_contract (C09); decided on every observed order",
    ]


def edge_ty(kind, tgt):
    inner = ("name", tgt)
    if kind == "plain":
        return inner
    return {"opt": ("union", "Optional", [inner, ("none",)]),
            "bar": ("union", "|", [inner, ("none",)]),
            "list": ("seq", "KList", "list[{}]", inner),
            "dict": ("map", "KDict", "dict[{}, {}]", ("leaf", "str"), inner),
            "tuple": ("seq", "KTuple", "tuple[{}, ...]", inner)}[kind]


def topologies(ncls, rng, limit):
    """cyclic digraphs over ncls classes: every class gets 1..2 outgoing edges (kind, target)"""
    per_class = []
    for _ in range(ncls):
        opts = [[(k, t)] for k in EDGES for t in range(ncls)]
        opts += [[(k1, t1), (k2, t2)] for (k1, t1), (k2, t2) in
                 itertools.combinations([(k, t) for k in EDGES for t in range(ncls)], 2)]
        per_class.append(opts)
    total = 1
    for o in per_class:
        total *= len(o)
    if total <= limit:
        yield from itertools.product(*per_class)
    else:
        for _ in range(limit):
            yield tuple(rng.choice(o) for o in per_class)


def make_env(topo, rng, flavours=("dataclass", "dataclass", "namedtuple", "typeddict", "plain"), plain=True):
    env = {"module": coregen.new_module_name("c07"), "defs": {}}
    env["defs"]["EnA"] = ("enum", [("RED", "1"), ("BLUE", "2")])
    for n, edges in enumerate(topo):
        flavour = rng.choice(flavours)
        opts = rng.choice(["", "frozen=True", "slots=True"]) if flavour == "dataclass" else ""
        fields = [("val", rng.choice([("leaf", "int"), ("leaf", "Decimal"), ("leaf", "EnA"), ("leaf", "date")]), None)]
        edges = list(edges)
        # a bare class member (no Optional / container around it): only towards a later class, so that every value
        # is finite; the cycle closes through the other edges
        if plain and n < len(topo) - 1 and rng.random() < 0.4:
            edges.insert(rng.randint(0, len(edges)), ("plain", rng.randrange(n + 1, len(topo))))
        for i, (kind, tgt) in enumerate(edges):
            fields.append((f"e{i}", edge_ty(kind, tgt), None))
        env["defs"][n] = ("class", flavour, opts, fields)
    return env


def roots_for(env, ncls):
    roots = [("name", n) for n in range(ncls)]
    c = ("name", 0)
    roots += [("seq", "KList", "list[{}]", c), ("map", "KDict", "dict[{}, {}]", ("leaf", "str"), c),
              ("union", "Optional", [c, ("none",)]), ("seq", "KTuple", "tuple[{}, ...]", c)]
    return roots


def leaf_value(rng, t):
    return coregen.gen_value(rng, t, None, None)


def deep_value(rng, env, mod, n, depth):
    """an instance of class n whose edges are followed `depth` levels deep (built bottom-up, iteratively)"""
    import collections
    EnA = getattr(mod, "EnA")

    def leafv(t):
        if t == ("leaf", "EnA"):
            return rng.choice(list(EnA))
        return coregen.gen_value(rng, t, env, mod)

    def minimal(cn):
        d = env["defs"][cn]
        kw = {f: (leafv(t) if f == "val" else empty_edge(_kind(t), t)) for f, t, _ in d[3]}
        return getattr(mod, coregen.cname(cn))(**kw)

    def empty_edge(kind, t=None):
        if kind == "plain":
            return minimal(t[1])
        return {"opt": None, "bar": None, "list": [], "dict": {}, "tuple": ()}[kind]

    def wrap_edge(kind, child):
        return {"opt": child, "bar": child, "list": [child], "dict": {"k": child}, "tuple": (child,),
                "plain": child}[kind]

    # choose a path of classes of the requested length by following first edges
    path = [n]
    for _ in range(depth):
        d = env["defs"][path[-1]]
        edges = [(f, t) for f, t, _ in d[3] if f.startswith("e")]
        f, t = edges[0]
        tgt = _target(t)
        path.append(tgt)
    child = None
    for level, cn in enumerate(reversed(path)):
        d = env["defs"][cn]
        cls = getattr(mod, coregen.cname(cn))
        kw = {}
        first = True
        for f, t, _ in d[3]:
            if f == "val":
                kw[f] = leafv(t)
            else:
                kind = _kind(t)
                if first and child is not None:
                    kw[f] = wrap_edge(kind, child)
                else:
                    kw[f] = empty_edge(kind, t)
                first = False
        child = cls(**kw)
    return child


def _target(t):
    if t[0] == "name":
        return t[1]
    if t[0] == "union":
        return t[2][0][1]
    if t[0] == "seq":
        return t[3][1]
    if t[0] == "map":
        return t[4][1]
    raise ValueError(t)


def _kind(t):
    if t[0] == "name":
        return "plain"
    if t[0] == "union":
        return "opt" if t[1] == "Optional" else "bar"
    if t[0] == "seq":
        return "list" if t[1] == "KList" else "tuple"
    return "dict"


def wrap_root(root, v):
    k = root[0]
    if k == "name":
        return v
    if k == "seq":
        return [v] if root[1] == "KList" else (v,)
    if k == "map":
        return {"r": v}
    if k == "union":
        return v
    raise ValueError(root)


def build_groups(run):
    rng = random.Random(run.seed * 7 + 3)
    D = run.budget(12, 100)
    depths = sorted(set([0, 1, 2, 3, 5, 8, D] + ([20, 40, 70] if run.tier == "thorough" else [])))
    plan = [(1, run.budget(15, 15)), (2, run.budget(10, 120)), (3, run.budget(6, 80))]
    groups, records = [], []
    for ncls, limit in plan:
        for topo in topologies(ncls, rng, limit):
            env = make_env(topo, rng)
            roots = roots_for(env, ncls)
            g = coremodel.Group(env, roots, coreprop.suppressed())
            g.fuel = 8 * D + 60
            for ri, root in enumerate(roots):
                cn = 0 if root[0] != "name" else root[1]
                for d in (depths if ri < ncls + 1 else depths[:4]):
                    try:
                        v = wrap_root(root, deep_value(rng, env, g.mod, cn, d))
                    except Exception as e:
                        run.notes.append(f"value construction failed: {e!r}")
                        continue
                    rec = coreprop.Record(g, ri, v)
                    rec.wire = g.add("m", ri, v)
                    if rec.wire[0] == "ok":
                        obs = g.add("u", ri, rec.wire[1])
                        rec.inputs.append(("wire", rec.wire[1], obs))
                        if d <= 3 and coregen.jsonable(rec.wire[1]):
                            s = json.dumps(rec.wire[1])
                            rec.inputs.append(("json", s, g.add("u", ri, s)))
                    rec.inputs.append(("valid", v, g.add("u", ri, v)))
                    rec.case_index["depth"] = d
                    records.append(rec)
            groups.append(g)
    return groups, records, D


def spelled_groups(run, D):
    """the two strata of harness/c07_spell.py: (alias groups, records), (class groups, records)"""
    # the depth dimension proper (D = 100 in thorough) is the business of the cycle-topology stream above; the
    # spelled strata go to depth 30 there: a ten-class module at depth 100 costs the mechanism model > 15 min per file
    Ds = min(D, 30)
    depths = sorted(set([0, 1, 2, 5, 12, Ds]))
    ga, ra = c07_spell.build(run, "alias", depths, Ds)
    gc, rc = c07_spell.build(run, "class", depths, Ds)
    c07_spell.fresh_typing()
    return ga, ra, gc, rc


def correspond(run: lib.Run):
    groups, records, D = build_groups(run)
    run.log(f"cycle topologies: {len(groups)} modules, {sum(len(g.cases) for g in groups)} cases")
    ga, ra, gc, rc = spelled_groups(run, D)
    run.log(f"spelled strata: {len(ga)} alias modules ({sum(len(g.cases) for g in ga)} cases), "
            f"{len(gc)} class modules ({sum(len(g.cases) for g in gc)} cases)")
    run._c07 = (groups, records, D, ga, ra, gc, rc)
    problems = []
    for g in groups + gc + ga:
        for t in g.pytys:
            g.collect_orders(t)
        problems += g.order_problems
    c07_spell.fresh_typing()
    bridge_groups = groups
    groups = groups + gc
    records = records + rc
    run.oblige("tie:every observed graph node has a model annotation", not problems, "; ".join(problems[:3]))
    run.log("observed orders collected")
    # recursive aliases (string-valued in every spelling, PEP 695 statements; alone, mutually recursive, in cycles
    # through classes): the same three comparisons -- reference semantics (NType), the mechanism along the observed
    # orders (the alias node is a lazy proxy for the reference to its text, resolved through the factory at call
    # time: Build.unwrap / construct / run), mechanism vs reference semantics.
    # (evaluated while the class streams are: both are coqc processes)
    import threading
    alias_bad, alias_done = [[], [], []], []

    def eval_aliases():
        bs_a, bm_a, ba_a = coremodel.evaluate_groups_mech(run, ga, "c07a", per_file=5)
        alias_bad[0].extend(bs_a); alias_bad[1].extend(bm_a); alias_bad[2].extend(ba_a)
        alias_done.append(True)
    th = threading.Thread(target=eval_aliases)
    if run.tier != "thorough":
        th.start()          # quick: the two evaluations share the machine; thorough: one pool of coqc at a time
    # heavy (ten classes) and light modules alternate, so that the case files take about equally long
    heavy = [g for g in gc if g.c07_label.startswith("self/")]
    light = [g for g in gc if not g.c07_label.startswith("self/")]
    mixed = [g for pair in itertools.zip_longest(heavy, light) for g in pair if g is not None]
    groups = groups[:len(groups) - len(gc)] + mixed
    bs, bm, ba = coremodel.evaluate_groups_mech(run, groups, "c07", per_file=4)
    if run.tier == "thorough":
        th.start()
    th.join()
    run.oblige("evaluate:recursive-alias stream was evaluated by the model", bool(alias_done), "evaluation thread died")
    run.log("model evaluated on all streams")
    ncases = sum(len(g.cases) for g in groups)
    distinct = len({(g.env["module"], c[0], c[1], c[2]) for g in groups for c in g.cases})
    dist = {"groups": len(groups), "max_depth": D,
            "depth_histogram": {str(d): sum(1 for r in records if r.case_index.get("depth") == d)
                                for d in sorted({r.case_index.get("depth") for r in records})},
            "observed_raise": sum(1 for g in groups for c in g.cases if "Raise" in c[3]),
            "spelled_class_stratum": c07_spell.distribution(gc, rc)}
    run.record_corr("reference-semantics-vs-implementation", ncases, [g.cases[i][4] for g, i in bs], distinct, dist)
    run.record_corr("mechanism-on-observed-order-vs-implementation", ncases, [g.cases[i][4] for g, i in bm], distinct, dist)
    run.record_corr("mechanism-vs-reference-semantics", ncases, [g.cases[i][4] for g, i in ba], distinct, dist)
    if groups and groups[0].cases:
        run.samples.append(groups[0].cases[-1][4])
    # the order contract assumed by this property's theorems is decided through the graph model (notes/bridge.md)
    bridgetie.bridge_obligations(run, bridge_groups, "c07")
    try:      # the class environments handed to the core model are what the code's own hint machinery yields
        c17_hints.hints_obligations(run, bridge_groups, "c07")
    except Exception as ex:
        run.oblige("tie:c17_hints.hints_obligations ran to completion", False, repr(ex)[:400])
    allbad = [(g, i) for g in ga for i in range(len(g.cases))]
    na = sum(len(g.cases) for g in ga)
    adist = dict(c07_spell.distribution(ga, ra), observed_raise=sum(1 for g in ga for c in g.cases if "Raise" in c[3]),
                 observed_orders=sum(len(g.orders["u"]) for g in ga))
    for k, layer in enumerate(("reference-semantics-vs-implementation:recursive-string-aliases",
                               "mechanism-on-observed-order-vs-implementation:recursive-aliases",
                               "mechanism-vs-reference-semantics:recursive-aliases")):
        bad = alias_bad[k] if alias_done else allbad
        run.record_corr(layer, na,
                        [dict(g.cases[i][4], module_source=g.src[g.src.index("import typing as t"):][:600]) for g, i in bad],
                        len({(g.env["module"], c[0], c[1], c[2]) for g in ga for c in g.cases}), adist)


# ----------------------------------------------------------------------------------
# oracle
# ----------------------------------------------------------------------------------

class Timeout(Exception):
    pass


def _alarm(signum, frame):
    raise Timeout()


def raw_levels(v, env, mod, t):
    """positions annotated with a class that hold something else than an instance of it"""
    bad = []

    def walk(val, ty, path):
        k = ty[0]
        if k == "wrapref":
            return walk(val, ty[1], path)
        if k in ("name", "ref"):
            d = env["defs"][ty[1]]
            if d[0] == "alias":
                return walk(val, d[2] if isinstance(d[1], str) else d[1], path)
            cls = getattr(mod, coregen.cname(ty[1]))
            if d[1] == "typeddict":
                if not isinstance(val, dict):
                    bad.append(path)
                    return
                for f, ft, _ in d[3]:
                    if f in val:
                        walk(val[f], ft, path + [f])
                return
            if not isinstance(val, cls):
                bad.append(path)
                return
            for f, ft, _ in d[3]:
                walk(getattr(val, f), ft, path + [f])
        elif k == "seq":
            if isinstance(val, (list, tuple, set, frozenset)):
                for i, x in enumerate(val):
                    walk(x, ty[3], path + [i])
            else:
                bad.append(path)
        elif k == "map":
            if isinstance(val, dict):
                for kk, x in val.items():
                    walk(x, ty[4], path + [kk])
            else:
                bad.append(path)
        elif k == "union":
            if val is None:
                return
            if ty[2][-1][0] == "leaf" and not isinstance(val, (list, tuple, dict)):
                return walk(val, ty[2][-1], path)        # `C[X] | int`: the scalar member
            walk(val, ty[2][0], path)
        elif k == "leaf" and ty[1] == "int":
            if type(val) is not int:
                bad.append(path)
    walk(v, t, [])
    return bad


def raw_in_wire(w, module):
    """positions of a marshalled value that still hold an instance of a class of the synthesised module"""
    bad, stack = [], [(w, [])]
    while stack:
        x, path = stack.pop()
        if isinstance(x, dict) and type(x) is dict:
            stack += [(v, path + [k]) for k, v in x.items()]
        elif type(x) in (list, tuple):
            stack += [(v, path + [i]) for i, v in enumerate(x)]
        elif getattr(type(x), "__module__", "") == module:
            bad.append(path)
    return bad


def _where(g, ri):
    """what replay() needs to rebuild the module of a spelled group and its root (other groups: module_source)"""
    if "c07" not in g.env:
        return {}
    return {"env": {"module": g.env["module"], "defs": {str(k): v for k, v in g.env["defs"].items()},
                    "c07": g.env["c07"]}, "tdesc": g.roots[ri], "depth": 0, "stratum": getattr(g, "c07_label", "")}


def search(run: lib.Run, broken):
    from typelib import codec, marshals, unmarshals
    groups, records, D, ga, ra, gc, rc = getattr(run, "_c07", (None,) * 7)
    if groups is None:
        groups, records, D = build_groups(run)
        ga, ra, gc, rc = spelled_groups(run, D)
    groups = groups + gc + ga
    records = records + rc + ra
    fails = []
    stats = {"evaluations": 0, "nontrivial": 0, "builds": 0, "codec_round_trips": 0, "corpus": 0}
    signal.signal(signal.SIGALRM, _alarm)
    # corpus first: minimised regression inputs (replay payloads)
    for name, payload in corpus():
        stats["corpus"] += 1
        try:
            r = replay(payload)
        except BaseException as e:
            r = {"fails": True, "failures": [{"symptom": "corpus case could not be replayed", "got": repr(e)[:300]}]}
        if r.get("fails"):
            f0 = r["failures"][0]
            fails.append(dict(payload, symptom=f0.get("symptom", "corpus case fails") + f" [corpus {name}]",
                              got=f0.get("got"), depth=f0.get("depth", payload.get("depth")), key=f"C07-corpus-{name}",
                              symptom_class="a corpus case fails"))
    for g in groups:
        c07_spell.fresh_typing()
        for ri, t in enumerate(g.pytys):
            impl.clear_caches()
            signal.alarm(10)
            try:
                with warnings.catch_warnings():
                    warnings.simplefilter("ignore")
                    marshals.marshaller(t); unmarshals.unmarshaller(t); codec(t)
                stats["builds"] += 1
            except Timeout:
                fails.append(dict(_where(g, ri), symptom="construction does not terminate (10 s)", type=repr(t),
                                  module_source=g.src, key=f"C07-build-timeout-{t!r}"))
            except BaseException as e:
                fails.append(dict(_where(g, ri), symptom="construction raised", type=repr(t), got=repr(e),
                                  module_source=g.src, key=f"C07-build-{type(e).__name__}-{t!r}"))
            finally:
                signal.alarm(0)
    c07_spell.fresh_typing()
    from props import c15
    for f in c15.class_topologies(run, stats):
        fails.append({"symptom": "construction raised", "type": f["annotation"], "got": repr(f["got"]),
                      "module_source": f["module_source"], "key": "C07-build-topology-" + f["key"]})
    last_group = None
    for rec in records:
        g = rec.group
        d = rec.case_index.get("depth")
        stats["evaluations"] += 1
        base = {"type": repr(rec.pytype), "depth": d, "value": repr(rec.value)[:300], "module_source": g.src,
                "env": {"module": g.env["module"], "defs": {str(k): v for k, v in g.env["defs"].items()}},
                "tdesc": rec.tdesc}
        if "c07" in g.env:
            base["env"]["c07"] = g.env["c07"]
            base["stratum"] = f"{rec.case_index.get('stratum')}:{rec.case_index.get('label')}"
        if rec.wire[0] != "ok":
            if rec.wire[1] == "ERecursion" and d is not None and d > 60:
                continue            # beyond what the interpreter's default recursion limit allows
            fails.append(dict(base, symptom="marshal of a valid recursive value raised", got=rec.wire[1],
                              key=f"C07-m-raise-{rec.pytype!r}-{d}"))
            continue
        rawm = raw_in_wire(rec.wire[1], g.env["module"])
        if rawm:
            fails.append(dict(base, symptom="a level is passed through raw by the marshaller", raw_positions=rawm[:5],
                              got=repr(rec.wire[1])[:300], key=f"C07-m-raw-{rec.pytype!r}-{d}"))
            continue
        for tag, x, obs in rec.inputs:
            if obs[0] != "ok":
                if obs[1] == "ERecursion" and d is not None and d > 60:
                    continue
                fails.append(dict(base, symptom=f"unmarshal of the {tag} form raised", got=obs[1], input=repr(x)[:300],
                                  key=f"C07-u-raise-{tag}-{rec.pytype!r}-{d}"))
                continue
            stats["nontrivial"] += 1
            if not coreprop.same(obs[1], rec.value):
                raw = raw_levels(obs[1], g.env, g.mod, rec.tdesc)
                fails.append(dict(base, symptom=("a level is passed through raw" if raw else
                                                 f"round trip through the {tag} form does not restore the value"),
                                  raw_positions=raw[:5], got=repr(obs[1])[:300], input=repr(x)[:300],
                                  key=f"C07-{tag}-{rec.pytype!r}-{d}"))
        if "c07" in g.env and d in (1, 2):
            # spelled strata: the codec of the same annotation (encode, then decode) restores the value as well
            stats["codec_round_trips"] += 1
            if g is not last_group:
                c07_spell.fresh_typing()
                last_group = g
            impl.clear_caches()
            try:
                with warnings.catch_warnings():
                    warnings.simplefilter("ignore")
                    cdc = codec(rec.pytype)
                    back = cdc.decode(cdc.encode(rec.value))
                if not coreprop.same(back, rec.value):
                    fails.append(dict(base, symptom="codec round trip (encode, decode) does not restore the value",
                                      got=repr(back)[:300], key=f"C07-codec-{rec.pytype!r}-{d}"))
            except BaseException as e:
                fails.append(dict(base, symptom="codec round trip (encode, decode) raised", got=repr(e)[:300],
                                  key=f"C07-codec-raise-{rec.pytype!r}-{d}"))
    run.search_stats["oracle"] = {
        "evaluations": stats["evaluations"], "distinct_nontrivial": stats["nontrivial"], "builds": stats["builds"],
        "codec_round_trips": stats["codec_round_trips"], "corpus_cases": stats["corpus"],
        "max_depth": D, "failures": len(fails),
        "rule": "every cycle topology x root x depth: marshal then unmarshal (wire, JSON text for shallow values, and "
                "the valid value itself) must restore the value with the right class at every level; routine "
                "construction (marshaller, unmarshaller, codec) must terminate within 10 s; non-trivial = a value "
                "came back and was compared.  Spelled strata (recursive string-valued aliases, string annotations of "
                "cyclic classes in every spelling / presentation): additionally the un-converted form of the value "
                "(every scalar as text, every class as a dict, every tuple as a list) must unmarshal to the value, "
                "and the codec must round-trip it",
    }
    best = {}
    for f in fails:
        k = f.get("symptom_class", f["symptom"])      # one representative per kind of failure (corpus: one in all)
        size = (f.get("depth") or 0, len(f.get("value", "")))
        if k not in best or size < best[k][0]:
            best[k] = (size, f)
    coreprop.close(groups)
    c07_spell.fresh_typing()
    return [v[1] for v in best.values()]


def corpus():
    import os
    d = os.path.join(lib.VERIF, "corpus", "C07")
    out = []
    if os.path.isdir(d):
        for name in sorted(os.listdir(d)):
            if name.endswith(".json"):
                out.append((name, json.load(open(os.path.join(d, name)))))
    return out


def _tup(x):
    if isinstance(x, list):
        return tuple(_tup(y) for y in x) if (x and isinstance(x[0], str)) else [_tup(y) for y in x]
    return x


def replay(payload):
    """rebuild the module of the failing case, construct the three routines for its root and round-trip freshly
    built values of depth 0..depth (wire form and the valid value itself)"""
    from typelib import codec, marshals, unmarshals
    if ("env" not in payload or "tdesc" not in payload) and "module_source" in payload:
        # a construction failure: rebuild the module and construct the routines for the named class
        mod = impl.new_module("verif_c07_replay", payload["module_source"])
        try:
            t = eval(payload["type"], mod.__dict__)
            impl.clear_caches()
            signal.signal(signal.SIGALRM, _alarm)
            signal.alarm(20)
            try:
                with warnings.catch_warnings():
                    warnings.simplefilter("ignore")
                    marshals.marshaller(t); unmarshals.unmarshaller(t); codec(t)
                return {"fails": False}
            except BaseException as e:
                return {"fails": True, "failures": [{"symptom": "construction raised / did not terminate", "got": repr(e)[:300]}]}
            finally:
                signal.alarm(0)
        finally:
            impl.drop_module("verif_c07_replay")
    if "env" not in payload or "tdesc" not in payload:
        return {"fails": False, "note": "replay needs env + tdesc (see module_source for a manual replay)"}
    spelled = "c07" in payload["env"]
    env = {"module": payload["env"]["module"] + "_replay",
           "defs": {(int(k) if k.isdigit() else k): _tup(v) for k, v in payload["env"]["defs"].items()}}
    root = _tup(payload["tdesc"])
    if spelled:
        env["c07"] = payload["env"]["c07"]
        mod, tys, src = c07_spell.materialise(env, [root])
    else:
        mod, tys, src = universe.materialise(env, [root])
    t, problems = tys[0], []
    try:
        signal.signal(signal.SIGALRM, _alarm)
        signal.alarm(20)
        try:
            impl.clear_caches()
            with warnings.catch_warnings():
                warnings.simplefilter("ignore")
                marshals.marshaller(t); unmarshals.unmarshaller(t); cdc = codec(t)
        except BaseException as e:
            return {"fails": True, "failures": [{"symptom": "construction raised / did not terminate", "got": repr(e)}]}
        finally:
            signal.alarm(0)
        rng = random.Random(1)
        cn = 0 if root[0] != "name" else root[1]
        for d in range(0, min(int(payload.get("depth") or 3), 40) + 1):
            if spelled:
                b = c07_spell.Builder(env, mod)
                v, raw = b.node(root[1], d) if root[0] == "name" else b.of_type(root, d)
                forms = (("wire", None), ("valid", v), ("raw", raw))
            else:
                v = wrap_root(root, deep_value(rng, env, mod, cn, d))
                forms = (("wire", None), ("valid", v))
            try:
                with warnings.catch_warnings():
                    warnings.simplefilter("ignore")
                    w = marshals.marshal(v, t=t)
                    if raw_in_wire(w, env["module"]):
                        problems.append({"symptom": "a level is passed through raw by the marshaller", "depth": d,
                                         "got": repr(w)[:300]})
                    for tag, x in forms:
                        r = unmarshals.unmarshal(t, w if tag == "wire" else x)
                        if not coreprop.same(r, v):
                            problems.append({"symptom": f"round trip through the {tag} form does not restore the value",
                                             "depth": d, "got": repr(r)[:300], "expected": repr(v)[:300]})
                    if spelled:
                        r = cdc.decode(cdc.encode(v))
                        if not coreprop.same(r, v):
                            problems.append({"symptom": "codec round trip (encode, decode) does not restore the value",
                                             "depth": d, "got": repr(r)[:300], "expected": repr(v)[:300]})
            except BaseException as e:
                problems.append({"symptom": "valid recursive value raised", "depth": d, "got": repr(e)[:300]})
            if problems:
                break
    finally:
        impl.drop_module(env["module"])
        c07_spell.fresh_typing()
    return {"fails": bool(problems), "failures": problems}


def reproduces(entry):
    return replay(entry["replay"])["fails"]


def matches(entry, failure):
    m = entry.get("matches", {})
    return all(str(m[k]) in str(failure.get(k, "")) for k in m)
