"""C19 -- slotted dataclasses behave like the original dataclass (DESIGN 7/C19)."""
from __future__ import annotations

import copy
import dataclasses
import inspect
import json
import os
import pickle
import random
import sys
import types
import warnings
import weakref

import c19_gen as G
import impl
import lib
from lib import coq_bool, coq_list, coq_nat, coq_string

COQ_TARGETS = ["theories/Proofs/SlottedLemmas.vo", "theories/Proofs/SlottedStateLemmas.vo", "theories/Proofs/SlottedInstLemmas.vo",
               "theories/Model/SlottedEq.vo"]
THEOREMS = ["C19_never_raises", "C19_stack_empty_after_success", "C19_stack_restored", "C19_slots_exact",
            "C19_slots_own_fields", "C19_chain", "C19_no_dict", "C19_weakref_iff", "C19_preserved", "C19_nothing_else",
            "C19_defaults", "C19_super_safe", "C19_setstate_restores", "C19_setstate_fieldless", "C19_refuted_zero_arg_super", "C19_full_is_false", "C19_refuted_weakref_base",
            "C19_refuted_stack_leak", "C19_refuted_inherited_hooks",
            # instance level (Model/SlottedInst.v)
            "C19_construct", "C19_instance_dict", "C19_methods", "C19_frozen_fields", "C19_roundtrip",
            "C19_roundtrip_user_hooks", "C19_roundtrip_user_law", "C19_copy_equal", "C19_construct_copy_equal",
            "C19_chain_members",
            "C19_refuted_shadowed_base_slot", "C19_refuted_post_init_needs_dict", "C19_refuted_leftover_default",
            "C19_refuted_lone_getstate", "C19_refuted_fix_over_user_hooks", "C19_refuted_shadowing_classvar",
            "C19_refuted_frozen_nonfield_setattr", "C19_refuted_lawless_hooks"]
MOD_O, MOD_S, MOD_C = "verif_c19_orig", "verif_c19_slot", "verif_c19_corr"


IMPORT_ERROR = None


def _classes():
    """typelib.py.classes.  typelib decorates its own Codec/TypeNode/BoundRoutine with slotted() at import time, so a
    broken slotted() makes `import typelib` fail; the check must still be able to show the failing input: fall back to
    importing classes.py (and constants.py) alone through a stub package, and remember the import error."""
    global IMPORT_ERROR
    try:
        from typelib.py import classes
        return classes
    except Exception as e:          # noqa: BLE001
        import importlib
        import traceback
        if IMPORT_ERROR is None:
            IMPORT_ERROR = "".join(traceback.format_exception_only(type(e), e)).strip()[:500]
        for m in [k for k in sys.modules if k == "typelib" or k.startswith("typelib.")]:
            del sys.modules[m]
        root = os.path.join(lib.REPO, "src", "typelib")
        for name, path in (("typelib", root), ("typelib.py", os.path.join(root, "py"))):
            pkg = types.ModuleType(name)
            pkg.__path__ = [path]
            sys.modules[name] = pkg
        return importlib.import_module("typelib.py.classes")


# ----------------------------------------------------------------------------------
# prove
# ----------------------------------------------------------------------------------

def prove(run: lib.Run):
    run.check_props("Props/C19.v", THEOREMS)
    run.assumptions += [
        "C19: type_new (Model/Slotted.v) is a contract for CPython's type.__new__ on Python-level single inheritance "
        "(slot/dict/weakref layout rules, slot vs class-variable conflict); it is tied by the correspondence "
        "(layout flags, exception kinds), not proved",
        "C19: the instance-level contract functions of Model/SlottedInst.v -- lookup/ogetattr/obj_setattr (type-level MRO "
        "lookup; data descriptor > instance __dict__ > class attribute), construct/bind_args and dc_eq/dc_lt/dc_hash/dc_repr "
        "(the code dataclasses generates, as functions of the field list each method closes over), regnames/getstate_default/"
        "default_setstate/rebuild (copyreg._slotnames, object.__getstate__, copyreg.__newobj__ + BUILD for protocols 2-5) -- are "
        "CPython behaviour written down, tied on every run by the correspondence layer 'instance' (storage, ==, <, hash, repr, "
        "__reduce_ex__(4)[2], copy/deepcopy/pickle results on the real slotted classes), not proved",
        "C19: opaque in the instance theorems: comparison of field values (vops), the transport of a value through deepcopy / "
        "pickle (f), user __getstate__/__setstate__ (hooks; law hooks_restore is a hypothesis of C19_roundtrip_user_law), what "
        "__post_init__ stores, default values and factories",
        "C19: getstate (Model/SlottedState.v) is a contract for CPython's default object.__getstate__ (state = dict part "
        "alone, or (dict part, slot values) when a slot holds a value; empty dict -> None); sampled against the interpreter "
        "on every run (correspondence layer 'getstate-law'), not proved",
        "C19: custom metaclasses are outside the model (result Unmodelled; excluded by c_plain_meta = true)",
    ]


# ----------------------------------------------------------------------------------
# running a program
# ----------------------------------------------------------------------------------

def run_program(prog, modname, hook):
    """exec the program's module with the given decoration hook; returns the module"""
    cl = _classes()
    cl._stack.clear()
    G.HOOK = hook
    impl.drop_module(modname)
    with warnings.catch_warnings():
        warnings.simplefilter("ignore")
        mod = impl.new_module(modname, G.program_source(prog))
    return mod


def hook_identity(i, c, bare, kw):
    return c


def hook_real(i, c, bare, kw):
    cl = _classes()
    return cl.slotted(c) if bare else cl.slotted(**kw)(c)


# ----------------------------------------------------------------------------------
# reflection of a live class (input of wrap) and observation of the result
# ----------------------------------------------------------------------------------

def _is_slots_tuple(v):
    return isinstance(v, tuple) and all(isinstance(x, str) for x in v)


def _cell_class(fn):
    """the class a function's __class__ cell refers to (zero-argument super), or None"""
    if not inspect.isfunction(fn) or "__class__" not in fn.__code__.co_freevars:
        return None
    try:
        return fn.__closure__[fn.__code__.co_freevars.index("__class__")].cell_contents
    except ValueError:
        return None


def cells_of(cls):
    own, stale = [], []
    for k, v in vars(cls).items():
        t = _cell_class(v)
        if t is None:
            continue
        if t is cls:
            own.append(k)
        elif t not in cls.__mro__:
            stale.append(k)
    return own, stale


def describe(cls):
    d = vars(cls)
    entries = []
    for idx, (k, v) in enumerate(d.items()):
        if k == "__slots__" and _is_slots_tuple(v):
            entries.append([k, ["slots", list(v)]])
        else:
            entries.append([k, ["id", idx]])
    mro = []
    for b in cls.__mro__[1:-1]:
        sl = vars(b).get("__slots__")
        mro.append({"slots": list(sl) if _is_slots_tuple(sl) else None,
                    "get": "__getstate__" in vars(b), "set": "__setstate__" in vars(b)})
    dc = None
    if hasattr(cls, "__dataclass_fields__"):
        own_ann = d.get("__annotations__", {})
        p = cls.__dataclass_params__
        fs = []
        for f in dataclasses.fields(cls):
            kind = "Default" if f.default is not dataclasses.MISSING else (
                "Factory" if f.default_factory is not dataclasses.MISSING else "NoDefault")
            fs.append({"name": f.name, "def": kind, "inh": f.name not in own_ann})
        dc = {"frozen": bool(p.frozen), "eq": bool(p.eq), "order": bool(p.order),
              "unsafe_hash": bool(p.unsafe_hash), "fields": fs}
    own, stale = cells_of(cls)
    return {"name": cls.__name__, "qualname": cls.__qualname__, "module": cls.__module__,
            "plain_meta": type(cls) is type, "mro": mro, "dict": entries, "dc": dc, "cells": own, "stale": stale}


def observe(orig, new, exc):
    cl = _classes()
    stack = sorted(str(x) for x in cl._stack)
    if exc is not None:
        kind = "KType" if isinstance(exc, TypeError) else ("KValue" if isinstance(exc, ValueError) else "KOther")
        return {"kind": kind, "exc": repr(exc)[:200], "stack": stack}
    od = vars(orig)
    okeys = list(od)
    entries = []
    for k, v in vars(new).items():
        if k == "__slots__" and _is_slots_tuple(v):
            code = ["slots", list(v)]
        elif k in od and od[k] is v:
            code = ["id", okeys.index(k)]
        elif isinstance(v, types.MemberDescriptorType):
            code = ["member", v.__name__]
        elif isinstance(v, types.GetSetDescriptorType):
            code = ["getset", v.__name__]
        elif inspect.isfunction(v) and v.__name__ == "_slots_setstate" and v.__module__ == cl.__name__:
            code = ["fix"]
        elif v is None:
            code = ["none"]
        else:
            code = ["id", 4000 + len(entries)]          # an object the model does not know
        entries.append([k, code])
    entries.sort(key=lambda e: e[0])
    sl = getattr(new, "__slots__", None)
    _, stale = cells_of(new)
    p = getattr(new, "__dataclass_params__", None)
    return {"kind": "KOk", "slots": list(sl) if _is_slots_tuple(sl) else ["<not-a-tuple>"],
            "dict": entries, "name": new.__name__, "qualname": new.__qualname__, "module": new.__module__,
            "has_dict": new.__dictoffset__ != 0, "has_weakref": new.__weakrefoffset__ != 0,
            "stale": sorted(stale), "frozen": bool(p.frozen) if p is not None else False, "stack": stack}


# ----------------------------------------------------------------------------------
# Coq emission
# ----------------------------------------------------------------------------------

def emit_strs(l):
    return coq_list([coq_string(x) for x in l], "string")


def emit_obj(code):
    t = code[0]
    if t == "id":
        return f"(OId {coq_nat(code[1])})"
    if t == "slots":
        return f"(OSlots {emit_strs(code[1])})"
    if t == "member":
        return f"(OMember {coq_string(code[1])})"
    if t == "getset":
        return f"(OGetSet {coq_string(code[1])})"
    if t == "fix":
        return "OSetstateFix"
    if t == "none":
        return "ONone"
    raise ValueError(code)


def emit_dict(entries):
    return coq_list(["(%s, %s)" % (coq_string(k), emit_obj(c)) for k, c in entries], "(attr * obj)")


def emit_cls(d):
    mro = coq_list(["{| s_slots := %s; s_getstate := %s; s_setstate := %s |}" % (
        "None" if m["slots"] is None else f"(Some {emit_strs(m['slots'])})", coq_bool(m["get"]), coq_bool(m["set"]))
        for m in d["mro"]], "csum")
    if d["dc"] is None:
        dc = "None"
    else:
        fs = coq_list(["{| f_name := %s; f_def := %s; f_inh := %s |}" % (coq_string(f["name"]), f["def"], coq_bool(f["inh"]))
                       for f in d["dc"]["fields"]], "field")
        dc = "(Some {| d_frozen := %s; d_eq := %s; d_order := %s; d_unsafe_hash := %s; d_fields := %s |})" % (
            coq_bool(d["dc"]["frozen"]), coq_bool(d["dc"]["eq"]), coq_bool(d["dc"]["order"]),
            coq_bool(d["dc"]["unsafe_hash"]), fs)
    return ("{| c_name := %s; c_qualname := %s; c_module := %s; c_plain_meta := %s; c_mro := %s; c_dict := %s; "
            "c_dc := %s; c_cells := %s; c_stale := %s |}") % (
        coq_string(d["name"]), coq_string(d["qualname"]), coq_string(d["module"]), coq_bool(d["plain_meta"]), mro,
        emit_dict(d["dict"]), dc, emit_strs(d["cells"]), emit_strs(d["stale"]))


def emit_obs(o):
    if o["kind"] != "KOk":
        return ("{| ob_kind := %s; ob_slots := []; ob_dict := []; ob_name := \"\"%%string; ob_qualname := \"\"%%string; "
                "ob_module := \"\"%%string; ob_has_dict := false; ob_has_weakref := false; ob_stale := []; "
                "ob_frozen := false; ob_stack := %s |}") % (o["kind"], emit_strs(o["stack"]))
    return ("{| ob_kind := KOk; ob_slots := %s; ob_dict := %s; ob_name := %s; ob_qualname := %s; ob_module := %s; "
            "ob_has_dict := %s; ob_has_weakref := %s; ob_stale := %s; ob_frozen := %s; ob_stack := %s |}") % (
        emit_strs(o["slots"]), emit_dict(o["dict"]), coq_string(o["name"]), coq_string(o["qualname"]),
        coq_string(o["module"]), coq_bool(o["has_dict"]), coq_bool(o["has_weakref"]), emit_strs(o["stale"]),
        coq_bool(o["frozen"]), emit_strs(o["stack"]))


def emit_step(st):
    fl = "{| fl_dict := %s; fl_weakref := %s |}" % (coq_bool(st["flags"]["dict"]), coq_bool(st["flags"]["weakref"]))
    return "(%s, %s, %s)" % (fl, emit_cls(st["cls"]), emit_obs(st["obs"]))


# ----------------------------------------------------------------------------------
# instance level: _slots_setstate and the object.__getstate__ contract
# ----------------------------------------------------------------------------------

def member_slots(cls):
    return sorted({n for c in cls.__mro__ for n, v in vars(c).items() if isinstance(v, types.MemberDescriptorType)})


def _plain_slot_layout(cls, names):
    """every name copyreg treats as a slot really resolves to its member descriptor (no class attribute of an
    unslotted class in between shadows it, no stale names of a re-slotted class): the layouts the model describes"""
    import copyreg
    try:
        listed = set(copyreg._slotnames(cls))
    except Exception:          # noqa: BLE001
        return False
    return listed == set(names) and all(
        isinstance(inspect.getattr_static(cls, n, None), types.MemberDescriptorType) for n in names)


def emit_store(d):
    return coq_list(["(%s, OId %s)" % (coq_string(k), coq_nat(v)) for k, v in d.items()], "(attr * obj)")


def emit_pstate(st):
    if st is None:
        return "SNone"
    if isinstance(st, dict):
        return f"(SDict {emit_store(st)})"
    return "(SSeq %s)" % coq_list(["None" if p is None else f"(Some {emit_store(p)})" for p in st], "(option store)")


def gen_state(rng, names):
    pool = list(names) + ["x", "y", "cv", "_derived"]
    n = [0]

    def d(keys_from=None):
        ks = rng.sample(keys_from or pool, rng.randint(0, min(3, len(keys_from or pool))))
        out = {}
        for k in ks:
            n[0] += 1
            out[k] = n[0]
        return out
    r = rng.random()
    if r < 0.05:
        return None
    if r < 0.2:
        return d()
    if r < 0.65:      # what object.__getstate__ produces
        nonslot = [k for k in pool if k not in names]
        return (rng.choice([None, d(nonslot), d(nonslot)]), d(list(names)) if names else {})
    parts = [rng.choice([None, d(), d()]) for _ in range(rng.randint(0, 3))]
    return tuple(parts) if rng.random() < 0.7 else parts


def setstate_cases(rng, cls, k=4):
    """call the installed __setstate__ on blank instances with generated states"""
    fn = vars(cls).get("__setstate__")
    if not (inspect.isfunction(fn) and fn.__name__ == "_slots_setstate"):
        return []
    names = member_slots(cls)
    if not _plain_slot_layout(cls, names):
        return []
    has_dict = cls.__dictoffset__ != 0
    out = []
    for _ in range(k):
        st = gen_state(rng, names)
        o = object.__new__(cls)
        try:
            fn(o, st)
            kind = "SKOk"
        except AttributeError:
            kind = "SKAttr"
        except TypeError:
            kind = "SKType"
        except Exception:          # noqa: BLE001
            kind = "SKOther"
        slots = {n_: getattr(o, n_) for n_ in names if hasattr(o, n_)} if kind == "SKOk" else {}
        dct = dict(vars(o)) if (has_dict and kind == "SKOk") else {}
        desc = {"slotnames": names, "has_dict": has_dict, "state": repr(st), "kind": kind, "slots": slots, "dict": dct}
        try:
            coq = "(%s, %s, %s, %s, %s, %s)" % (emit_strs(names), coq_bool(has_dict), emit_pstate(st), kind,
                                                emit_store(slots), emit_store(dct))
        except Exception as e:          # noqa: BLE001
            desc["emit_error"] = repr(e)
            coq = None
        out.append((desc, coq))
    return out


def getstate_cases(rng, cls, k=2):
    """object.__getstate__ on instances of a slotted class with randomly filled slots / __dict__"""
    if "__getstate__" in {n for c in cls.__mro__[:-1] for n in vars(c)}:
        return []
    names = member_slots(cls)
    if not _plain_slot_layout(cls, names):
        return []
    has_dict = cls.__dictoffset__ != 0
    out = []
    for _ in range(k):
        o = object.__new__(cls)
        slots = {n_: j + 1 for j, n_ in enumerate(rng.sample(names, rng.randint(0, len(names))))}
        for n_, v in slots.items():
            object.__setattr__(o, n_, v)
        dct = {}
        if has_dict:
            dct = {n_: 50 + j for j, n_ in enumerate(rng.sample(["x", "y", "_derived"], rng.randint(0, 2)))}
            vars(o).update(dct)
        st = o.__getstate__()
        desc = {"slotnames": names, "has_dict": has_dict, "slots": slots, "dict": dct, "state": repr(st)}
        try:
            inst = "{| i_slotnames := %s; i_slots := %s; i_dict := %s |}" % (
                emit_strs(names), emit_store(slots), f"(Some {emit_store(dct)})" if has_dict else "None")
            coq = "(%s, %s)" % (inst, emit_pstate(st))
        except Exception as e:          # noqa: BLE001
            desc["emit_error"] = repr(e)
            coq = None
        out.append((desc, coq))
    return out


# ----------------------------------------------------------------------------------
# instance level: construction, ==, <, hash, repr, __reduce_ex__ state, copy / deepcopy / pickle
# (the model side is Model/SlottedInst.v, evaluated by SlottedEq.icase_ok)
# ----------------------------------------------------------------------------------

class Enc:
    """Python values -> model values.  An int in [0, 40) is its own code; everything else is identified by
    (type, repr) and numbered from 40 per case, so equal values met on both sides get the same code.  Codes are
    Coq nat literals, i.e. unary: they must stay small (the constructor arguments below are all < 40)."""

    def __init__(self):
        self.table = {}

    def __call__(self, v):
        if v is None:
            return "ONone"
        if type(v) is int and 0 <= v < 40:
            return f"(OId {v})"
        key = (type(v).__name__, repr(v)[:200])
        if key not in self.table:
            self.table[key] = 40 + len(self.table)
        return f"(OId {self.table[key]})"

    def store(self, d):
        return coq_list(["(%s, %s)" % (coq_string(k), self(v)) for k, v in d.items()], "(attr * obj)")

    def ostore(self, d):
        return "None" if d is None else f"(Some {self.store(d)})"


def _is_generated(v):
    """a method written by dataclasses (exec of generated source)"""
    v = getattr(v, "__wrapped__", v)          # __repr__ comes wrapped by reprlib.recursive_repr
    return inspect.isfunction(v) and v.__code__.co_filename == "<string>"


def _field_names(k):
    return [f.name for f in dataclasses.fields(k)] if dataclasses.is_dataclass(k) else []


def ukind_of(enc, owner, v):
    if _is_generated(v):
        return "(UGen %s)" % emit_strs(_field_names(owner))
    if v is None:
        return "(UValue ONone)"
    if (inspect.isfunction(v) or isinstance(v, (classmethod, staticmethod, property, types.GetSetDescriptorType,
                                                  types.MemberDescriptorType, type))
            or hasattr(type(v), "__get__")):
        return "UFunc"
    return f"(UValue {enc(v)})"


def ckind_of(enc, owner, v, n):
    cl = _classes()
    if isinstance(v, types.MemberDescriptorType):
        return "CMember"
    if isinstance(v, types.GetSetDescriptorType):
        return "CGetSet"
    if _is_generated(v):
        return "(CGen %s)" % emit_strs(_field_names(owner))
    if inspect.isfunction(v) and v.__name__ == "_slots_setstate" and v.__module__ == cl.__name__:
        return "CFix"
    if v is None:
        return "(CValue ONone)"
    if inspect.isfunction(v) or isinstance(v, (classmethod, staticmethod, property, type)) or hasattr(type(v), "__get__"):
        return f"(CFunc {n})"
    return f"(CValue {enc(v)})"


def visible_slots(x):
    """name -> value for every member descriptor that type-level lookup resolves the name to"""
    out = {}
    t = type(x)
    for k in t.__mro__:
        for name, v in vars(k).items():
            if isinstance(v, types.MemberDescriptorType) and name not in out and inspect.getattr_static(t, name, None) is v:
                try:
                    out[name] = v.__get__(x, t)
                except AttributeError:
                    pass
    return out


def storage(x):
    return visible_slots(x), (dict(vars(x)) if type(x).__dictoffset__ != 0 else None)


def _exc_kind(e):
    if isinstance(e, dataclasses.FrozenInstanceError):
        return "SKFrozen"
    if isinstance(e, AttributeError):
        return "SKAttr"
    if isinstance(e, TypeError):
        return "SKType"
    return "SKOther"


def _owner(t, name):
    for k in t.__mro__[:-1]:
        if name in vars(k):
            return k
    return None


def hook_format(prog, i):
    """state format of the user hooks instances of class i use: (model hook format, decoder) or None when the
    instance layer does not describe the combination (a lone __setstate__)"""
    chain = [prog[j]["hooks"] for j in [i] + _ancestors(prog, i)]
    kinds = [h for h in chain if h != "none"]
    if not kinds:
        return 0, None
    first_get = next((h for h in chain if h in ("pair", "pairlist", "get")), None)
    first_set = next((h for h in chain if h in ("pair", "pairlist", "set")), None)
    if first_get in ("pair", "pairlist") and first_set == first_get:
        return 0, first_get             # a user pair (own or inherited), one private format
    if first_get == "get" and first_set is None:
        return 1, first_get             # a lone __getstate__ that returns {field: value}
    return None                         # mixed formats / a lone __setstate__: outside the instance model


def decode_user_state(fmt, st, names):
    if fmt == "pair":
        return dict(st[1])
    if fmt == "pairlist":
        return dict(zip(names, st[1]))
    return dict(st)


def instance_case(prog, i, step, new, mod):
    """reflect decorated class i for the instance layer; returns (description, Coq term) or None"""
    orig = mod._plain.get(i)
    if orig is None or not dataclasses.is_dataclass(orig) or "__slots__" in vars(orig) or type(orig) is not type:
        return None
    hf = hook_format(prog, i)
    if hf is None:
        return None
    hookfmt, getfmt = hf
    enc = Enc()
    fields = dataclasses.fields(new)
    names = [f.name for f in fields]
    kinds = [ukind_of(enc, orig, v) for v in vars(orig).values()]
    bases = []
    for j, b in enumerate(orig.__mro__[1:-1]):
        bases.append(coq_list(["(%s, %s)" % (coq_string(k), ckind_of(enc, b, v, n))
                               for n, (k, v) in enumerate(vars(b).items())], "(attr * ckind)"))
    defaults = {f.name: f.default for f in fields if f.default is not dataclasses.MISSING}
    factories = {f.name: f.default_factory() for f in fields if f.default_factory is not dataclasses.MISSING}
    post = {}
    init_owner = _owner(orig, "__init__")
    init_fn = vars(init_owner)["__init__"] if init_owner is not None else None
    if _is_generated(init_fn) and "__post_init__" in init_fn.__code__.co_names and hasattr(orig, "__post_init__"):
        # the generated __init__ calls __post_init__ only when the class had one when @dataclass ran
        post = {"_derived": ["derived", len(fields)]}          # what the generated __post_init__ stores
    req = [f for f in fields if f.default is dataclasses.MISSING and f.default_factory is dataclasses.MISSING]
    calls = [([k + 1 for k in range(len(req))], {}),
             ([], {f.name: 30 + k for k, f in enumerate(fields)}),
             ([], {}),
             ([k + 1 for k in range(len(fields) + 1)], {}),
             ([k + 1 for k in range(len(req))], {"zz": 1})]
    if fields:
        calls.append(([7], {f.name: 20 + k for k, f in enumerate(fields[1:])}))
        calls.append(([7], {fields[0].name: 8}))
        calls.append(([k + 1 for k in range(len(req))], {}))       # a second, equal instance
        if req:
            calls.append(([k + 2 for k in range(len(req))], {}))   # and a different one
    picklable = _resolve(mod, new.__qualname__) is new
    x0 = None
    ccalls, desc_calls = [], []
    for pos, kw in calls:
        try:
            x = new(*pos, **kw)
        except Exception as e:          # noqa: BLE001
            obs = f"(CRaise {_exc_kind(e)})"
            desc_calls.append({"pos": pos, "kw": kw, "raised": f"{type(e).__name__}: {e}"[:120]})
        else:
            if x0 is None:
                x0 = x
            sl, dc = storage(x)
            d = {"pos": pos, "kw": kw, "slots": repr(sl), "dict": repr(dc)}
            vals = [getattr(x, n, None) for n in names]
            try:
                eq = "(Some %s)" % coq_bool(bool(x == x0))
            except Exception:          # noqa: BLE001
                eq = "None"
            lt = "None"
            if all(type(v) is int for v in vals + [getattr(x0, n, None) for n in names]):
                try:
                    lt = "(Some (Some %s))" % coq_bool(bool(x < x0))
                except TypeError:
                    lt = "(Some None)"
            hs = "None"
            try:
                h = hash(x)
                if type(x).__hash__ is object.__hash__:
                    hs = "(Some HIdentity)"
                else:
                    ow = _owner(type(x), "__hash__")
                    hn = _field_names(ow) if ow is not None and _is_generated(vars(ow)["__hash__"]) else None
                    if hn is not None and h == hash(tuple(getattr(x, n) for n in hn)):
                        hs = "(Some (HTuple %s))" % coq_list([enc(getattr(x, n)) for n in hn], "obj")
                    else:
                        hs = "(Some HUnmodelled)"
            except TypeError:
                if all(type(v) is int for v in vals):
                    hs = "(Some HRaise)"
            rp = "RUnmodelled"
            try:
                r = repr(x)
                ow = _owner(type(x), "__repr__")
                if ow is None:
                    rp = "RDefault" if r.startswith("<") and " object at 0x" in r else "RUnmodelled"
                elif _is_generated(vars(ow)["__repr__"]):
                    rn = _field_names(ow)
                    if r == type(x).__qualname__ + "(" + ", ".join(f"{n}={getattr(x, n)!r}" for n in rn) + ")":
                        rp = "(RGen %s %s)" % (coq_string(type(x).__qualname__),
                                               coq_list(["(%s, %s)" % (coq_string(n), enc(getattr(x, n))) for n in rn], "(attr * obj)"))
            except Exception:          # noqa: BLE001
                rp = "RRaise"
            d["repr"] = rp[:80]
            d["hash"] = hs.replace("(Some ", "").replace("None", "not-observed")[:40]
            state = "None"
            try:
                st = x.__reduce_ex__(4)[2]
                if getfmt is None:
                    state = "(Some (OSDefault %s))" % emit_pstate_enc(enc, st)
                else:
                    state = "(Some (OSUser %s))" % enc.store(decode_user_state(getfmt, st, names))
                d["state"] = repr(st)[:160]
                d["state_kind"] = "default" if getfmt is None else f"user-{getfmt}"
            except Exception as e:          # noqa: BLE001
                d["state"] = f"raised {type(e).__name__}: {e}"[:120]
            rts = []
            ops = [("copy", copy.copy), ("deepcopy", copy.deepcopy)]
            if picklable:
                ops += [("pickle2", lambda o: pickle.loads(pickle.dumps(o, 2))),
                        ("pickle5", lambda o: pickle.loads(pickle.dumps(o, 5)))]
            if x is not x0 and len(ccalls) != 1:
                ops = [o for o in ops if o[0] in ("copy", "pickle2")]      # all four only on two instances per class
            for nm, op in ops:
                try:
                    y = op(x)
                except Exception as e:          # noqa: BLE001
                    rts.append(f"(RTRaise {_exc_kind(e)})")
                    d[nm] = f"raised {type(e).__name__}: {e}"[:120]
                else:
                    if type(y) is not new:
                        rts.append("(RTRaise SKOther)")
                        d[nm] = f"result is a {type(y)!r}"
                    else:
                        ys, yd = storage(y)
                        rts.append(f"(RTOk {enc.store(ys)} {enc.ostore(yd)})")
                        d[nm] = repr((ys, yd))[:160]
            obs = ("(COk {| io_slots := %s; io_dict := %s; io_eq := %s; io_lt := %s; io_hash := %s; io_repr := %s; "
                   "io_state := %s; io_rts := %s |})") % (enc.store(sl), enc.ostore(dc), eq, lt, hs, rp, state,
                                                          coq_list(rts, "rtobs"))
            desc_calls.append(d)
        ccalls.append("{| ic_pos := %s; ic_kw := %s; ic_obs := %s |}" % (
            coq_list([enc(v) for v in pos], "obj"), enc.store(kw), obs))
    fl = "{| fl_dict := %s; fl_weakref := %s |}" % (coq_bool(step["flags"]["dict"]), coq_bool(step["flags"]["weakref"]))
    term = ("{| ik_flags := %s; ik_cls := %s; ik_kinds := %s; ik_bases := %s; ik_defaults := %s; ik_factories := %s; "
            "ik_post := %s; ik_hookfmt := %d; ik_calls := %s |}") % (
        fl, emit_cls(step["cls"]), coq_list(kinds, "ukind"), coq_list(bases, "dview"), enc.store(defaults),
        enc.store(factories), enc.store(post), hookfmt, coq_list(ccalls, "icall"))
    spec = prog[i]
    desc = {"program": prog, "index": i, "class": new.__qualname__, "slots": list(getattr(new, "__slots__", ())),
            "has_dict": new.__dictoffset__ != 0, "frozen": bool(new.__dataclass_params__.frozen),
            "hooks_chain": [prog[j]["hooks"] for j in [i] + _ancestors(prog, i)],
            "redeclares": bool(set(f["name"] for f in spec["fields"]) &
                               {n for a in _ancestors(prog, i) for n in (f["name"] for f in prog[a]["fields"])}),
            "factory": any(f["def"] == "factory" for f in spec["fields"]), "order": spec["order"],
            "unsafe_hash": spec["unsafe_hash"], "eq": spec["eq"], "post_init": bool(post),
            "slotted_base": any(isinstance(vars(b).get("__slots__"), tuple) for b in orig.__mro__[1:-1]),
            "unslotted_base": any("__slots__" not in vars(b) for b in orig.__mro__[1:-1]),
            "picklable": picklable, "calls": desc_calls}
    return desc, term


def emit_pstate_enc(enc, st):
    if st is None:
        return "SNone"
    if isinstance(st, dict):
        return f"(SDict {enc.store(st)})"
    return "(SSeq %s)" % coq_list(["None" if p is None else f"(Some {enc.store(p)})" for p in st], "(option store)")


INSTANCE_RNG = random.Random(0)
INSTANCE_CASES = {"setstate": [], "getstate-law": [], "instance": []}

# ----------------------------------------------------------------------------------
# correspondence
# ----------------------------------------------------------------------------------

def corr_steps(prog):
    """run the program with the real decorator, recording (class before, flags, observation after) per decoration"""
    steps = []

    def hook(i, c, bare, kw):
        desc = describe(c)
        flags = {"dict": False, "weakref": True} if bare else {"dict": bool(kw.get("dict", False)),
                                                               "weakref": bool(kw.get("weakref", True))}
        new, exc = None, None
        try:
            new = hook_real(i, c, bare, kw)
        except Exception as e:
            exc = e
        steps.append({"index": i, "flags": flags, "cls": desc, "obs": observe(c, new, exc)})
        if exc is not None:
            raise exc
        INSTANCE_CASES["setstate"] += setstate_cases(INSTANCE_RNG, new)
        INSTANCE_CASES["getstate-law"] += getstate_cases(INSTANCE_RNG, new)
        made.append((i, steps[-1], new))
        return new

    made = []
    mod = run_program(prog, MOD_C, hook)
    invalid = [i for i in mod._err if i not in mod._plain]
    # the instance layer looks at the finished module (pickle finds classes by qualified name)
    for i, step, new in made:
        if i >= 1000 or prog[i].get("reslot") or mod._c.get(i) is not new:
            continue
        try:
            case = instance_case(prog, i, step, new, mod)
        except Exception as e:          # noqa: BLE001
            case = ({"program": prog, "index": i, "reflect_error": repr(e)[:300]}, None)
        if case is not None:
            INSTANCE_CASES["instance"].append(case)
    return steps, invalid


def corr_programs(run: lib.Run):
    rng = random.Random(run.seed + 19)
    progs = []
    for p in load_corpus():
        progs.append(("corpus", p))
    for p in G.histories(run.budget(2, 3)):
        progs.append(("history", p))
    for p in G.families():
        progs.append(("family", p))
    for _ in range(run.budget(700, 9000)):
        p = G.gen_program(rng, 4, malformed=0.08)
        for s in p:
            if rng.random() < 0.02:
                s["reslot"] = True
        progs.append(("random", p))
    return progs


def load_corpus():
    d = os.path.join(lib.VERIF, "corpus", "C19")
    out = []
    if os.path.isdir(d):
        for fn in sorted(os.listdir(d)):
            if fn.endswith(".json"):
                out.append(json.load(open(os.path.join(d, fn)))["program"])
    return out



_STR_LIT = None


def share_strings(text: str) -> str:
    """name every distinct string literal of a generated case file once (`Definition s<k>_ := "..."`) and refer to it
    by name: a literal is 9 constructors per character for the type checker, and a few dozen attribute names make up
    most of a case file (3x faster to compile; vm_compute unfolds the names)"""
    global _STR_LIT
    import re
    if _STR_LIT is None:
        _STR_LIT = re.compile(r'"(?:[^"]|"")*"%string')
    tab = {}

    def rep(m):
        k = m.group(0)
        if k not in tab:
            tab[k] = f"s{len(tab)}_"
        return tab[k]
    at = text.index("Definition cases") if "Definition cases" in text else text.index("Eval ")
    body = _STR_LIT.sub(rep, text[at:])
    return text[:at] + "".join(f"Definition {v} : string := {k}.\n" for k, v in tab.items()) + body


def eval_flat(run, layer, okfn, ctype, items, cap):
    """one flat list of cases per shard; returns mismatching descriptions"""
    items = items[:cap]
    hdr = ("From Coq Require Import List String. Import ListNotations.\n"
           "Require Import TL.Model.Slotted TL.Model.SlottedState TL.Model.SlottedEq.\n")
    bad = [i for i, (_, c) in enumerate(items) if c is None]
    ok_idx = [i for i, (_, c) in enumerate(items) if c is not None]
    files, maps = {}, {}
    for k in range(0, len(ok_idx), 500):
        idxs = ok_idx[k:k + 500]
        name = f"cases_{layer.replace('-', '_')}_{k // 500}.v"
        files[name] = share_strings(hdr + f"Definition cases : list {ctype} :=\n " + ";\n  ".join(
            ["[ " + items[idxs[0]][1]] + [items[i][1] for i in idxs[1:]]) + " ].\nEval vm_compute in mismatches " + okfn + " cases.\n")
        maps[name] = idxs
    for name, r in run.coq_eval_many(files, timeout=900).items():
        if r is None:
            run.oblige(f"evaluate:{name}", False, "model evaluation did not compile")
            bad += maps[name]
        else:
            bad += [maps[name][j] for j in lib.parse_nat_list(r[-1])]
    bad = sorted(set(bad))
    distinct = len({json.dumps(d, sort_keys=True, default=str) for d, _ in items})
    dist = {}
    for d, _ in items:
        key = f"dict={int(d['has_dict'])},nslots={min(len(d['slotnames']), 4)}" + (f",{d['kind']}" if "kind" in d else "")
        dist[key] = dist.get(key, 0) + 1
    run.record_corr(layer, len(items), [items[i][0] for i in bad], distinct, dist)


def eval_instances(run, cap):
    """layer 'instance': SlottedEq.icase_ok on every reflected decorated dataclass"""
    items = INSTANCE_CASES["instance"][:cap]
    hdr = ("From Coq Require Import List String. Import ListNotations.\n"
           "Require Import TL.Model.Slotted TL.Model.SlottedState TL.Model.SlottedInst TL.Model.SlottedEq.\n")
    bad = [i for i, (_, c) in enumerate(items) if c is None]
    ok_idx = [i for i, (_, c) in enumerate(items) if c is not None]
    files, maps = {}, {}
    shard = min(250, max(60, -(-len(ok_idx) // 12)))          # one wave of 12 parallel coqc runs when possible
    for k in range(0, len(ok_idx), shard):
        idxs = ok_idx[k:k + shard]
        name = f"cases_instance_{k // shard}.v"
        files[name] = share_strings(hdr + "Definition cases : list icase :=\n [ " + ";\n  ".join(items[i][1] for i in idxs) +
                                    " ].\nEval vm_compute in mismatches icase_ok cases.\n")
        maps[name] = idxs
    for name, r in run.coq_eval_many(files, timeout=900).items():
        if r is None:
            run.oblige(f"evaluate:{name}", False, "model evaluation did not compile")
            bad += maps[name]
        else:
            bad += [maps[name][j] for j in lib.parse_nat_list(r[-1])]
    bad = sorted(set(bad))
    dist = {"classes": len(items), "calls": 0, "constructed": 0, "raised": 0, "roundtrips": 0, "frozen": 0, "has_dict": 0,
            "user_hooks": 0, "inherited_user_hooks": 0, "redeclared_field": 0, "default_factory": 0, "order": 0,
            "unsafe_hash": 0, "eq_false": 0, "post_init": 0, "slotted_base": 0, "unslotted_base": 0, "picklable": 0,
            "reflect_errors": 0}
    for d, _ in items:
        if "reflect_error" in d:
            dist["reflect_errors"] += 1
            continue
        dist["calls"] += len(d["calls"])
        dist["constructed"] += sum(1 for c in d["calls"] if "raised" not in c)
        dist["raised"] += sum(1 for c in d["calls"] if "raised" in c)
        dist["roundtrips"] += sum(1 for c in d["calls"] for k in ("copy", "deepcopy", "pickle2", "pickle5") if k in c)
        dist["frozen"] += d["frozen"]
        dist["has_dict"] += d["has_dict"]
        dist["user_hooks"] += any(h != "none" for h in d["hooks_chain"])
        dist["inherited_user_hooks"] += d["hooks_chain"][0] == "none" and any(h != "none" for h in d["hooks_chain"][1:])
        dist["redeclared_field"] += d["redeclares"]
        dist["default_factory"] += d["factory"]
        dist["order"] += d["order"]
        dist["unsafe_hash"] += d["unsafe_hash"]
        dist["eq_false"] += not d["eq"]
        dist["post_init"] += d["post_init"]
        for c in d["calls"]:
            for key in ("repr", "hash", "state_kind"):
                if key in c:
                    kk = f"{key}:{c[key].split(' ')[0].strip('()')}"
                    dist[kk] = dist.get(kk, 0) + 1
        dist["slotted_base"] += d["slotted_base"]
        dist["unslotted_base"] += d["unslotted_base"]
        dist["picklable"] += d["picklable"]
    mism = [dict(items[i][0], python=G.program_source(items[i][0]["program"])) for i in bad[:12]]
    if bad and any(items[i][1] is not None for i in bad[:3]):
        txt = hdr + "".join("Eval vm_compute in ipredict %s.\n" % items[i][1] for i in bad[:3] if items[i][1] is not None)
        r = run.coq_eval("diagnose_instance.v", txt)
        if r:
            for m, x in zip(mism, r):
                m["model_predicts[(construct, (hash, repr, state, copy))]"] = x[:3000]
    distinct = len({json.dumps([d.get("slots"), d.get("calls")], sort_keys=True, default=str) for d, _ in items})
    run.record_corr("instance", len(items), mism + [{}] * max(0, len(bad) - len(mism)), distinct, dist)
    run.corr["instance"]["mismatching_programs"] = [items[i][0]["program"] for i in bad[:40]]


def correspond(run: lib.Run):
    INSTANCE_RNG.seed(run.seed + 1919)
    for v in INSTANCE_CASES.values():
        v.clear()
    progs = corr_programs(run)
    cases, coq = [], []
    dist = {"programs": 0, "steps": 0, "invalid_specs": 0, "raised": 0, "frozen": 0, "with_base_slotted": 0,
            "with_base_unslotted": 0, "user_hooks": 0, "repeated_repr": 0, "own_slots(reslot)": 0,
            "not_dataclass": 0, "flags": {}, "nfields": {}, "len": {}, "source": {}}
    seen = set()
    for src, p in progs:
        steps, invalid = corr_steps(p)
        dist["invalid_specs"] += len(invalid)
        if not steps:
            continue
        cases.append({"source": src, "program": p, "steps": steps})
        try:
            coq.append(coq_list([emit_step(s) for s in steps], "step"))
        except (ValueError, AssertionError) as e:
            cases[-1]["emit_error"] = repr(e)
            coq.append(None)
        seen.add(json.dumps(steps, sort_keys=True))
        dist["programs"] += 1
        dist["source"][src] = dist["source"].get(src, 0) + 1
        dist["len"][len(steps)] = dist["len"].get(len(steps), 0) + 1
        reprs = [(s["cls"]["module"], s["cls"]["qualname"]) for s in steps]
        dist["repeated_repr"] += len(reprs) != len(set(reprs))
        for s in steps:
            c = s["cls"]
            dist["steps"] += 1
            dist["raised"] += s["obs"]["kind"] != "KOk"
            dist["not_dataclass"] += c["dc"] is None
            if c["dc"]:
                dist["frozen"] += c["dc"]["frozen"]
                n = len(c["dc"]["fields"])
                dist["nfields"][n] = dist["nfields"].get(n, 0) + 1
            dist["with_base_slotted"] += any(m["slots"] is not None for m in c["mro"])
            dist["with_base_unslotted"] += any(m["slots"] is None for m in c["mro"])
            dist["user_hooks"] += any(k in ("__getstate__", "__setstate__") for k, _ in c["dict"]) or any(
                m["get"] or m["set"] for m in c["mro"])
            dist["own_slots(reslot)"] += any(k == "__slots__" for k, _ in c["dict"])
            fk = f"dict={int(s['flags']['dict'])},weakref={int(s['flags']['weakref'])}"
            dist["flags"][fk] = dist["flags"].get(fk, 0) + 1
    hdr = ("From Coq Require Import List String. Import ListNotations.\n"
           "Require Import TL.Model.Slotted TL.Model.SlottedEq.\n")
    shard = 400
    files, maps = {}, {}
    bad = [i for i, c in enumerate(coq) if c is None]
    ok_idx = [i for i, c in enumerate(coq) if c is not None]
    for k in range(0, len(ok_idx), shard):
        idxs = ok_idx[k:k + shard]
        name = f"cases_slotted_{k // shard}.v"
        files[name] = share_strings(hdr + "Definition cases : list (list step) :=\n " + coq_list(
            [coq[i] for i in idxs]).replace("]; [(", "];\n  [(") + ".\nEval vm_compute in mismatches case_ok cases.\n")
        maps[name] = idxs
    res = run.coq_eval_many(files, timeout=900)
    for name, r in res.items():
        if r is None:
            run.oblige(f"evaluate:{name}", False, "model evaluation did not compile")
            bad += maps[name]
        else:
            bad += [maps[name][j] for j in lib.parse_nat_list(r[-1])]
    bad = sorted(set(bad))
    mism = []
    for i in bad[:20]:
        c = cases[i]
        mism.append({"source": c["source"], "program": c["program"], "steps": c["steps"],
                     "python": G.program_source(c["program"]), "emit_error": c.get("emit_error")})
    # diagnosis: which variant of the model explains the first mismatching histories
    if bad and any(coq[i] is not None for i in bad[:5]):
        txt = hdr + "".join("Eval vm_compute in explains %s.\n" % coq[i] for i in bad[:5] if coq[i] is not None)
        r = run.coq_eval("diagnose_slotted.v", txt)
        if r:
            run.notes.append("mismatching histories explained by model variants [pinned; only-release; only-skip-provided; "
                             "only-inherited-hooks]: " + "; ".join(r))
            for m, x in zip(mism, r):
                m["explained_by_variants[pinned,release,skip,hooks]"] = x
    run.record_corr("slotted", len(cases), mism + [{}] * max(0, len(bad) - len(mism)), len(seen), dist)
    run.corr["slotted"]["mismatching_programs"] = [cases[i]["program"] for i in bad[:40]]
    cap = run.budget(2000, 12000)
    eval_flat(run, "setstate", "ss_case_ok", "ss_case", INSTANCE_CASES["setstate"], cap)
    eval_flat(run, "getstate-law", "gs_case_ok", "gs_case", INSTANCE_CASES["getstate-law"], cap)
    eval_instances(run, run.budget(2500, 20000))
    run.laws["object.__getstate__ contract (getstate)"] = min(len(INSTANCE_CASES["getstate-law"]), cap)
    if cases:
        run.samples.append({"corr_sample": {"program": cases[-1]["program"], "steps": cases[-1]["steps"][:1]}})


# ----------------------------------------------------------------------------------
# the property oracle (behavioural; does not use the model)
# ----------------------------------------------------------------------------------

def _resolve(mod, qualname):
    o = mod
    try:
        for part in qualname.split("."):
            o = getattr(o, part)
        return o
    except AttributeError:
        return None


def _try(f):
    try:
        return ["ok", f()]
    except Exception as e:
        return ["exc", type(e).__name__, str(e)[:120]]


def leaf_diffs(plain, slot, path=""):
    """(path, plain value, slotted value) for every leaf on which two observations differ"""
    if isinstance(plain, dict) and isinstance(slot, dict):
        return [x for k in sorted(set(plain) | set(slot)) for x in leaf_diffs(plain.get(k), slot.get(k), f"{path}/{k}")]
    if (isinstance(plain, list) and isinstance(slot, list) and len(plain) == len(slot)
            and not (plain[:1] == ["exc"] or slot[:1] == ["exc"])):
        return [x for k, (a, b) in enumerate(zip(plain, slot)) for x in leaf_diffs(a, b, f"{path}[{k}]")]
    return [] if plain == slot else [(path, plain, slot)]


def _cached_names(cls):
    import functools
    return sorted({k for c in cls.__mro__ for k, v in vars(c).items() if isinstance(v, functools.cached_property)})


def observable(obj, cls):
    """everything one can see on an instance, as JSON; raw storage first (reading a cached_property would refill it)"""
    fnames = [f.name for f in dataclasses.fields(cls)]
    out = {"type_is_cls": type(obj) is cls}
    try:
        d = obj.__dict__
    except AttributeError:
        d = {}
    except Exception as e:          # noqa: BLE001
        d = {"<__dict__>": f"{type(e).__name__}: {e}"}
    out["vars_nonfield"] = {k: repr(v) for k, v in sorted(d.items()) if k not in fnames}
    out["fields"] = {n: _try(lambda n=n: repr(getattr(obj, n))) for n in fnames}
    slotnames = sorted({n for c in type(obj).__mro__ for n in (vars(c).get("__slots__") or ()) if isinstance(n, str)}
                       - set(fnames) - {"__dict__", "__weakref__"})
    out["other_slots"] = {n: _try(lambda n=n: repr(getattr(obj, n))) for n in slotnames}
    out["repr"] = _try(lambda: repr(obj))
    attrs = {}
    for k in sorted(set(dir(obj))):
        if k.startswith("__"):
            continue
        try:
            static = inspect.getattr_static(type(obj), k)
        except AttributeError:
            static = None
        if inspect.isfunction(static) or isinstance(static, (classmethod, staticmethod)):
            continue
        attrs[k] = _try(lambda k=k: repr(getattr(obj, k)))
    out["attrs"] = attrs
    return out


def roundtrip(cls, make, op, prepare, allow_extra=True):
    a = make()
    if prepare:
        for k in _cached_names(cls):
            getattr(a, k)
        if allow_extra:                                 # only where the slotted twin has an instance __dict__ as well
            a.__dict__["_xtra"] = {"k": [1, 2]}        # straight into the instance dict: works for frozen classes too
    before = observable(a, cls)
    r = op(a)
    res = {"result": observable(r, cls), "source_unchanged": observable(a, cls) == before,
           "is_source": r is a, "eq": _try(lambda: [r == a, a == r, hash(r) == hash(a)])}
    # sharing of mutable members: copy shares, deepcopy / pickle do not
    share = {}
    da, dr = getattr(a, "__dict__", {}), getattr(r, "__dict__", {})
    for f in dataclasses.fields(cls):
        va, vr = getattr(a, f.name, None), getattr(r, f.name, None)
        if isinstance(va, (list, dict)):
            share[f.name] = va is vr
    for k, va in da.items():
        if isinstance(va, (list, dict)) and k not in share:
            share[k] = dr.get(k) is va
    res["shares_mutables"] = share
    return res


def behave(mod, cls, allow_extra=True):
    """what the statement talks about, as a JSON-able dict (reprs are module independent)"""
    out = {}
    if not dataclasses.is_dataclass(cls):
        return out
    fs = dataclasses.fields(cls)
    init = [f for f in fs if f.init]
    req = [f for f in init if f.default is dataclasses.MISSING and f.default_factory is dataclasses.MISSING]

    def make(delta=0, **over):
        kw = {f.name: (k + 1 + delta) for k, f in enumerate(req)}
        kw.update(over)
        return cls(**kw)

    out["construct"] = _try(lambda: repr(make()))
    out["construct_positional"] = _try(lambda: repr(cls(*[k + 1 for k in range(len(req))])))
    out["construct_missing"] = _try(lambda: repr(cls())) if req else ["n/a"]
    out["construct_all_kw"] = _try(lambda: repr(cls(**{f.name: ([k] if f.default_factory is not dataclasses.MISSING else k + 50)
                                                       for k, f in enumerate(init)})))
    out["defaults"] = _try(lambda: [repr(getattr(make(), f.name)) for f in fs])
    fac = [f for f in fs if f.default_factory is not dataclasses.MISSING]
    out["factory_fresh"] = _try(lambda: all(getattr(make(), f.name) is not getattr(make(), f.name) for f in fac))
    a = _try(make)
    if a[0] != "ok":
        return out
    a = a[1]
    b = make()
    other = None
    if req:
        other = _try(lambda: make(delta=1))
    elif init:
        f0 = init[0]
        other = _try(lambda: make(**{f0.name: ([9] if f0.default_factory is not dataclasses.MISSING else 99)}))
    c = other[1] if other and other[0] == "ok" else None
    out["repr"] = _try(lambda: repr(a))
    out["eq_same"] = _try(lambda: [a == b, a != b, a == a])
    out["eq_other"] = _try(lambda: [a == c, a != c]) if c is not None else ["n/a"]
    out["eq_foreign"] = _try(lambda: [a == 1, a == None])  # noqa: E711
    out["hash"] = _try(lambda: [hash(a) == hash(b), hash(a) if type(a).__hash__ is not object.__hash__ else "id-based"])
    out["order"] = _try(lambda: [a < c, a <= b, a > c, a >= b, [repr(x) for x in sorted([c, a])]]) if c is not None else _try(lambda: [a < b, a <= b])
    # copy / deepcopy / every pickle protocol: everything observable on the result (and on the source afterwards)
    # is compared with the plain twin -- fields, the non-field part of vars(), every public attribute, identity
    # of mutable members.  Twice: on a fresh instance, and on one whose cached properties were read and that got
    # an extra instance attribute (only where both twins have an instance __dict__ to put it in).
    picklable = _resolve(mod, cls.__qualname__) is cls
    ops = [("copy", copy.copy), ("deepcopy", copy.deepcopy)]
    for proto in range(0, pickle.HIGHEST_PROTOCOL + 1):
        ops.append((f"pickle{proto}", (lambda o, proto=proto: pickle.loads(pickle.dumps(o, proto))) if picklable else None))
    for tag, prepare in (("fresh", False), ("used", True)):
        for name, op in ops:
            if op is None:
                out[f"rt:{tag}:{name}"] = ["shadowed"]
                continue
            out[f"rt:{tag}:{name}"] = _try(lambda: roundtrip(cls, make, op, prepare, allow_extra))
    p = cls.__dataclass_params__
    out["frozen_param"] = bool(p.frozen)
    if fs:
        f0 = fs[0].name
        x = make()
        out["assign"] = _try(lambda: (setattr(x, f0, 123), repr(x))[1])
        y = make()
        out["delete"] = _try(lambda: (delattr(y, f0), "deleted")[1])     # a class-level default may show through: not compared
    if p.frozen:
        # frozen-ness beyond the fields: a name that is not a field cannot be assigned either
        z = make()
        out["assign_nonfield"] = _try(lambda: (setattr(z, "zz_new", 1), "assigned")[1])
    out["qualname"] = cls.__qualname__
    out["name"] = cls.__name__
    out["isinstance_bases"] = [k.__qualname__ for k in cls.__mro__[1:]]
    out["field_names"] = [f.name for f in fs]
    if hasattr(cls, "total"):
        out["method"] = _try(lambda: repr(a.total()))
    out["doc"] = cls.__doc__
    return out


def structural(spec, plain, new):
    """the clauses about __slots__, __dict__, __weakref__, qualname, module -- read directly off the statement"""
    fails = []
    sl = getattr(new, "__slots__", None)
    if not _is_slots_tuple(sl):
        return [f"__slots__ is not a tuple of names: {sl!r}"]
    want_dict = False if spec["bare"] else spec["dict"]
    want_weak = True if spec["bare"] else spec["weakref"]
    extras = [s for s in sl if s in ("__dict__", "__weakref__")]
    names = [s for s in sl if s not in ("__dict__", "__weakref__")]
    fnames = [f.name for f in dataclasses.fields(plain)]
    base_slots = set()
    for b in plain.__mro__[1:]:
        base_slots |= set(getattr(b, "__slots__", ()) if "__slots__" in vars(b) else ())
    expected = [f for f in fnames if f not in base_slots]       # "non-inherited": not already a slot of a base
    if names != expected:
        fails.append(f"__slots__ field part {names} != non-inherited fields in field order {expected}")
    if "__dict__" in extras and not want_dict:
        fails.append("__dict__ slot although not requested")
    if "__weakref__" in extras and not want_weak:
        fails.append("__weakref__ slot although not requested")
    if list(sl) != names + extras:
        fails.append(f"extras are not after the field names: {sl}")
    base_dict = any(b.__dictoffset__ != 0 for b in plain.__bases__)
    base_weak = any(b.__weakrefoffset__ != 0 for b in plain.__bases__)
    if want_dict and not base_dict and "__dict__" not in extras:
        fails.append("dict=True but no __dict__ slot")
    if want_weak and not base_weak and "__weakref__" not in extras:
        fails.append("weakref=True but no __weakref__ slot")
    # instances
    inst = None
    try:
        fs = dataclasses.fields(new)
        inst = new(**{f.name: 1 for f in fs if f.init and f.default is dataclasses.MISSING and f.default_factory is dataclasses.MISSING})
    except Exception:
        pass
    if inst is not None:
        try:
            hd = hasattr(inst, "__dict__")
        except Exception as e:          # a stale descriptor of the old class raises TypeError, not AttributeError
            hd = f"{type(e).__name__}: {e}"
        if hd != (want_dict or base_dict):
            fails.append(f"hasattr(instance, '__dict__') = {hd} but requested={want_dict}, inherited={base_dict}")
        try:
            weakref.ref(inst)
            wk = True
        except TypeError:
            wk = False
        if wk != (want_weak or base_weak):
            fails.append(f"weakref-able = {wk} but requested={want_weak}, inherited={base_weak}")
    if new.__qualname__ != plain.__qualname__:
        fails.append(f"qualname {new.__qualname__!r} != {plain.__qualname__!r}")
    if new.__name__ != plain.__name__:
        fails.append(f"name {new.__name__!r} != {plain.__name__!r}")
    if new.__module__ != plain.__module__:
        fails.append(f"module {new.__module__!r} != {plain.__module__!r}")
    if new.__bases__ != plain.__bases__:
        fails.append("bases differ")
    return fails


def _ancestors(prog, i):
    out = []
    b = prog[i]["base"]
    while isinstance(b, int):
        out.append(b)
        b = prog[b]["base"]
    return out


def check_program(prog):
    """the property on one program: returns list of failure dicts"""
    cl = _classes()
    fails = []
    mo = run_program(prog, MOD_O, hook_identity)
    ms = run_program(prog, MOD_S, hook_real)
    leftover = sorted(str(x) for x in cl._stack)
    cl._stack.clear()
    for i, s in enumerate(prog):
        if not s["slot"] or s.get("reslot"):
            continue
        if i not in ms._plain:
            continue                                  # the class statement itself is invalid Python/dataclass: not ours
        plain = ms._plain[i]
        feats = {"feature_super": bool(s["super_repr"] or any(prog[a]["super_repr"] for a in _ancestors(prog, i))),
                 "hooks": s["hooks"]}
        try:
            fixfn = inspect.getattr_static(ms._c[i], "__setstate__", None) if i in ms._c else None
            feats["feature_bare_dict_state"] = bool(
                dataclasses.is_dataclass(plain) and not dataclasses.fields(plain) and plain.__dataclass_params__.frozen
                and getattr(ms._c.get(i), "__dictoffset__", 0) != 0
                and inspect.isfunction(fixfn) and fixfn.__name__ == "_slots_setstate")
        except Exception:          # noqa: BLE001
            feats["feature_bare_dict_state"] = False
        base = {"index": i, "class": s["name"], "spec": s, **feats}
        if i in ms._err:
            e = ms._err[i]
            if dataclasses.is_dataclass(plain) and type(plain) is type and "__slots__" not in vars(plain):
                msg = str(e)
                cat = ("slot disallowed" if "slot disallowed" in msg else
                       "re-entrancy guard (_stack)" if "custom metaclass" in msg else
                       "slot conflicts with class variable" if "conflicts with class variable" in msg else msg[:40])
                fails.append(dict(base, symptom="decoration raised for a plain-metaclass dataclass",
                                  got=f"{type(e).__name__}: {e}"[:300], keys=[f"decorate: {type(e).__name__}: {cat}"]))
            continue
        new = ms._c[i]
        if not dataclasses.is_dataclass(plain):
            continue
        try:
            st = structural(s, plain, new)
        except Exception as e:          # noqa: BLE001
            st = [f"crash while inspecting the slotted class: {type(e).__name__}: {e}"]
        if st:
            fails.append(dict(base, symptom="structure", got="; ".join(st)[:600], keys=sorted(x.split(" ")[0] for x in st)))
        if i in mo._err or i not in mo._c:
            continue
        hooks_chain = [prog[j]["hooks"] for j in [i] + _ancestors(prog, i)]
        extra_ok = getattr(new, "__dictoffset__", 0) != 0
        bo = behave(mo, mo._c[i], extra_ok)
        try:
            bs = behave(ms, new, extra_ok)
        except Exception as e:          # noqa: BLE001
            bs = {"crash": f"{type(e).__name__}: {e}"}
        diff = sorted(k for k in set(bo) | set(bs) if bo.get(k) != bs.get(k))
        if any(h in ("get", "set") for h in hooks_chain):
            # a lone user __getstate__ or __setstate__ relies on the instance __dict__: outside the quantifier
            # ("user __getstate__/__setstate__" is read as the pair); pickling/copying is not compared there
            diff = [k for k in diff if not k.startswith("rt:")]
        # protocols 0 and 1 refuse every __slots__ class without __getstate__ (copyreg._reduce_ex): the interpreter's
        # rule for slots, resolved in favour of the code (notes/C19.md); any other difference there counts
        diff = [k for k in diff if not (k.endswith(("pickle0", "pickle1")) and isinstance(bs.get(k), list)
                                        and bs[k][0] == "exc" and "__slots__ without defining __getstate__" in bs[k][-1])]
        leaves = [x for k in diff for x in leaf_diffs(bo.get(k), bs.get(k), k)]

        def kind_of(path, sv):
            if path.startswith("assign_nonfield") and "super(type, obj)" in json.dumps(sv, default=str):
                return "frozen-nonfield"
            if "super(type, obj)" in json.dumps(sv, default=str):
                return "super"
            if (base["feature_bare_dict_state"] and path.startswith("rt:") and isinstance(sv, list)
                    and sv[:2] == ["exc", "AttributeError"] and "'str' object has no attribute 'items'" in sv[-1]):
                return "bare"
            return "other"
        kinds = {kind_of(p_, sv) for p_, _, sv in leaves}
        if diff and "other" not in kinds:
            # every difference is one of the two listed findings: one failure per finding, so that each is matched
            # by its own narrow entry (anything else falls through to the generic, unmatched failure below)
            for kd, sym, key in (("super", "zero-argument super() fails in a method of the slotted class", "zero-arg-super"),
                                 ("frozen-nonfield", "assigning a name that is not a field to a frozen slotted instance raises "
                                  "TypeError instead of FrozenInstanceError", "frozen-nonfield-setattr"),
                                 ("bare", "copy/pickle fails: the state of a field-less frozen slotted instance is its bare __dict__",
                                  "setstate-bare-dict-state")):
                mine = [(p_, a_, b_) for p_, a_, b_ in leaves if kind_of(p_, b_) == kd]
                if mine:
                    fails.append(dict(base, symptom=sym, keys=[key], expected={p_: a_ for p_, a_, _ in mine[:2]},
                                      got_map={p_: b_ for p_, _, b_ in mine},
                                      got=json.dumps({p_: b_ for p_, _, b_ in mine[:2]}, default=str)[:600]))
        elif diff:
            fails.append(dict(base, symptom="behaviour differs from the original dataclass", keys=diff,
                              expected={k: bo.get(k) for k in diff}, got_map={k: bs.get(k) for k in diff},
                              differences=[{"where": p_, "plain": a_, "slotted": b_} for p_, a_, b_ in leaves[:12]],
                              got=json.dumps([[p_, b_] for p_, a_, b_ in leaves[:6]], default=str)[:600]))
    impl.drop_module(MOD_O)
    impl.drop_module(MOD_S)
    for f in fails:
        f["program"] = prog
        f["leftover_stack"] = leftover
        f["key"] = json.dumps([f["symptom"], f["keys"], f.get("got", "")[:60]])
    return fails


def shrink(prog, pred, budget=150):
    """greedy structural minimisation of a program while pred(program) stays true"""
    def variants(p):
        n = len(p)
        for i in reversed(range(n)):
            if any(s["base"] == i for s in p):
                continue
            q = [dict(s) for k, s in enumerate(p) if k != i]
            for s in q:
                if isinstance(s["base"], int) and s["base"] > i:
                    s["base"] -= 1
            if q:
                yield q
        for i in range(n):
            s = p[i]
            for k in range(len(s["fields"])):
                q = [dict(x) for x in p]
                q[i]["fields"] = s["fields"][:k] + s["fields"][k + 1:]
                yield q
            for key, val in (("post_init", False), ("cached", False), ("hooks", "none"), ("classvar", False), ("method", False), ("super_repr", False),
                             ("outer", None), ("order", False), ("unsafe_hash", False), ("eq", True),
                             ("dict", False), ("bare", False), ("base", None), ("frozen", False), ("slot", False)):
                if s.get(key, val) != val:
                    q = [dict(x) for x in p]
                    q[i][key] = val
                    yield q
    cur = prog
    changed = True
    while changed and budget > 0:
        changed = False
        for q in variants(cur):
            budget -= 1
            if budget <= 0:
                break
            try:
                if pred(q):
                    cur, changed = q, True
                    break
            except Exception:
                continue
    return cur


def search(run: lib.Run, broken):
    rng = random.Random(run.seed + 191)
    progs = list(load_corpus())
    if broken:
        progs += run.corr.get("slotted", {}).get("mismatching_programs", [])
        progs += run.corr.get("instance", {}).get("mismatching_programs", [])
    progs += G.families()
    progs += list(G.histories(2))          # length-3 histories are covered by the correspondence (thorough) and the theorem
    n = run.budget(500, 6000)
    if broken:
        n = max(n, 1500)
    for _ in range(n):
        progs.append(G.gen_program(rng, 4, malformed=0.05))
    fails, nclasses, nprog = [], 0, 0
    _classes()
    if IMPORT_ERROR is not None:
        fails.append({"symptom": "import typelib fails: slotted() raises on the library's own classes", "keys": ["import"],
                      "got": IMPORT_ERROR, "feature_super": False, "program": [], "index": -1,
                      "key": "import typelib fails"})
    for p in progs:
        p = [dict(s, reslot=False) for s in p]
        nprog += 1
        nclasses += sum(1 for s in p if s["slot"])
        fs = check_program(p)
        fails += fs
        if len(fails) > 300:
            break
    # one representative per (symptom, keys): the one from the smallest program, then shrunk
    best = {}
    for f in fails:
        k = (f["symptom"], tuple(f["keys"]), f["feature_super"], f.get("feature_bare_dict_state", False))
        size = (len(f["program"]), sum(len(s["fields"]) for s in f["program"]))
        if k not in best or size < best[k][0]:
            best[k] = (size, f)
    out = []
    for _, f in sorted(best.values(), key=lambda v: v[0])[:8]:
        sym, keys = f["symptom"], f["keys"]
        if not f["program"]:
            out.append(f)
            continue

        def pred(q, sym=sym, keys=keys):
            return any(x["symptom"] == sym and x["keys"] == keys for x in check_program(q))
        small = shrink(f["program"], pred)
        g = next((x for x in check_program(small) if x["symptom"] == sym and x["keys"] == keys), f)
        g["python"] = G.program_source(g["program"])
        out.append(g)
    entries = own_findings(run)
    run.search_stats["oracle"] = {
        "evaluations": nclasses, "distinct_nontrivial": nclasses, "programs": nprog, "failures": len(fails),
        "rule": "each program is executed twice (plain dataclasses / decorated twin, decorator syntax); every decorated "
                "dataclass is compared with its plain twin on construct/==/hash/repr/order/copy/deepcopy/pickle(default, "
                "highest)/assignment/deletion/defaults/qualname/module/bases, plus the __slots__/__dict__/__weakref__ "
                "clauses and 'decoration never raises'; histories: corpus + all catalogue sequences + random programs",
    }
    # findings listed in findings.d/C19.json but not yet merged into known_findings.json by the lead
    kept = []
    for f in out:
        hit = next((e for e in entries if matches(e, f)), None)
        if hit is not None:
            run.known(hit)
        else:
            kept.append(f)
    if kept:
        run.samples.append({"oracle_failure": {k: v for k, v in kept[0].items() if k not in ("python",)}})
    return kept


def own_findings(run):
    """open entries of findings.d/C19.json that known_findings.json does not carry yet (lib reads only the latter);
    they are replayed here so that the check behaves the same before and after the lead merges them"""
    p = os.path.join(lib.VERIF, "findings.d", "C19.json")
    if not os.path.exists(p):
        return []
    have = {e["id"] for e in run.findings()}
    out = []
    for e in json.load(open(p)).get("open", []):
        if e["id"] in have:
            continue
        out.append(e)
        try:
            if reproduces(e):
                run.known(e)
            else:
                run.notes.append(f"known finding {e['id']} no longer reproduces")
        except Exception as ex:
            run.notes.append(f"known finding {e['id']} replay error: {ex!r}")
    return out


# ----------------------------------------------------------------------------------
# replay / findings
# ----------------------------------------------------------------------------------

def replay(payload):
    if not payload.get("program"):
        _classes()
        return {"fails": IMPORT_ERROR is not None, "failures": [{"symptom": "import typelib fails", "got": IMPORT_ERROR}]}
    fs = check_program([dict(s) for s in payload["program"]])
    want = payload.get("symptom")
    if want:
        fs = [f for f in fs if f["symptom"] == want] or fs
    slim = [{k: v for k, v in f.items() if k not in ("program", "python")} for f in fs]
    return {"fails": bool(fs), "failures": slim, "python": G.program_source(payload["program"])}


def reproduces(entry):
    r = replay(entry["replay"])
    return any(matches(entry, dict(f, program=entry["replay"]["program"])) for f in r["failures"])


def matches(entry, failure):
    m = entry.get("matches", {})
    for k, v in m.items():
        if k == "got_contains_all":
            gm = failure.get("got_map") or {"_": failure.get("got", "")}
            if not all(v in json.dumps(x, default=str) for x in gm.values()):
                return False
        elif failure.get(k) != v:
            return False
    return True
