"""C09 -- the type graph is a complete dependency order with every cycle cut (DESIGN 7/C09)."""
from __future__ import annotations

import collections  # noqa: F401  (names a bare reference string may mention: resolved from this module)
import datetime  # noqa: F401
import decimal  # noqa: F401
import fractions  # noqa: F401
import json
import os
import pathlib  # noqa: F401
import random
import signal
import typing
import uuid  # noqa: F401

import c09_gen as G
import impl
import lib
import ginspecttie

COQ_TARGETS = ["theories/Model/GraphEq.vo", "theories/Proofs/GraphLemmas.vo", "theories/Proofs/GraphTermination.vo",
               "theories/Proofs/TopoLemmas.vo", "theories/Proofs/GraphAcyclic.vo", "theories/Proofs/GraphWeight.vo"]
COQ_TARGETS = COQ_TARGETS + [t for t in ginspecttie.COQ_TARGETS if t not in COQ_TARGETS]
THEOREMS = ["C09_terminates", "C09_order", "C09_flags", "C09_string_alias", "C09_denotes",
            "C09_input_forms", "C09_acyclic", "C09_acyclic_rank", "C09_terminates_closed"]
FINDINGS = os.path.join(lib.VERIF, "findings.d", "C09.json")


def prove(run: lib.Run):
    run.check_props("Props/C09.v", THEOREMS)
    run.assumptions += [
        "C09: graphlib.TopologicalSorter enters the theorems only through its documented contract "
        "(Topo.is_topo_order); the order the implementation really produced is checked against that contract "
        "(is_topo_orderb on the model's edge set) on every correspondence case",
        "C09: refs.evaluate (the interpreter's eval of the reference text in the module's namespace) is an explicit "
        "function argument with the law 'a module-level name evaluates to the object bound to it'",
        "C09: Python == on annotation objects is modelled as structural equality: generated cases keep ONE spelling "
        "per ==-class (Optional[X] vs X | None vs None | X; predicates are cached on == but computed from the "
        "spelling, DESIGN section 9 #24) and all typelib caches are cleared before each case",
        "C09: str()/__qualname__/__module__ of annotation objects (Graph.show, qualname, module_attr) are my reading "
        "of CPython 3.12 typing reprs, tied by the correspondence only",
    ]


# ----------------------------------------------------------------------------------
# running the implementation
# ----------------------------------------------------------------------------------

class _Timeout(BaseException):     # not an Exception: typelib's union routines swallow those
    pass


def _alarm(signum, frame):
    raise _Timeout()


def with_alarm(seconds, fn):
    old = signal.signal(signal.SIGALRM, _alarm)
    signal.alarm(seconds)
    try:
        return fn()
    finally:
        signal.alarm(0)
        signal.signal(signal.SIGALRM, old)


def safe_eval(ref):
    from typelib.py import refs
    try:
        return True, refs.evaluate(ref)
    except BaseException as e:  # noqa: BLE001 - any failure to resolve is an observation
        return False, e


_HANGS = {"n": 0}


def observe(case):
    """Build the case's modules, run graph.static_order on the root; returns (live, nodes | exception)."""
    from typelib import graph
    live = G.Live(case)
    impl.clear_caches()
    root = live.obj(case["root"])
    # circuit breaker: a tree on which static_order does not return for a whole family of inputs must not cost
    # 130 s per case (round-7 seeded change C09-r7m1 kept the quick tier busy for more than half an hour): after 3
    # calls that did not return even on the generous retry, later calls get 5 s and no retry; after 25, later cases
    # are not run any more (they are counted as not returning: the violation is established and replayable already)
    if _HANGS["n"] >= 25:
        return live, root, TimeoutError("not run: static_order did not return on 25 earlier cases of this run")
    try:
        try:
            nodes = with_alarm(10 if _HANGS["n"] < 3 else 5, lambda: list(graph.static_order(root)))
        except _Timeout:
            if _HANGS["n"] >= 3:
                raise
            # a stalled process on a loaded machine is not a hang of static_order: one retry, generously
            impl.clear_caches()
            nodes = with_alarm(120, lambda: list(graph.static_order(root)))
    except _Timeout:
        _HANGS["n"] += 1
        return live, root, TimeoutError("static_order did not return within 10 s (and 120 s on retry)")
    except Exception as e:  # noqa: BLE001
        return live, root, e
    return live, root, nodes


def run_history(case, on_call):
    """Run a history case (c09_gen: operation histories) step by step in this process, clearing the caches only
    ONCE, before the first step.  on_call(live, index, step, snap, root, nodes | exception, earlier) is called right
    after every call step, while the environment still is as the call saw it: snap is the single-call case that
    describes that environment, earlier the list object static_order returned when the same annotation was asked
    before (None: not asked before, or the call is itertypes, which is not memoised)."""
    from typelib import graph
    live = G.LiveHistory(case)
    impl.clear_caches()
    memo: dict = {}
    results: list = []
    for idx, step in enumerate(case["history"]):
        if step["op"] == "define":
            live.define(step["ids"])
        elif step["op"] == "annotate":
            live.annotate(step)
        elif step["op"] == "resolve":
            resolve_step(live, step, results)
        else:
            snap = live.snapshot(step["root"], f"{case['tag']}@{idx}")
            root = live.obj(step["root"])
            fn = graph.static_order if step["fn"] == "static_order" else graph.itertypes
            try:
                nodes = with_alarm(30, lambda: list(fn(root)) if step["fn"] == "itertypes" else fn(root))
            except _Timeout:
                nodes = TimeoutError("no result within 30 s")
            except Exception as e:  # noqa: BLE001
                nodes = e
            key = G.freeze(step["root"])
            earlier = memo.get(key) if step["fn"] == "static_order" else None
            if not isinstance(nodes, BaseException):
                results.append(nodes)
            on_call(live, idx, step, snap, root, nodes, earlier)
            if step["fn"] == "static_order" and key not in memo and not isinstance(nodes, BaseException):
                memo[key] = nodes
    return live


def resolve_step(live, step, results):
    """What consumers of a graph do with deferred nodes: resolve them.  Never an observation -- failures are ignored."""
    import typelib
    from typelib import graph
    from typelib.py import refs
    how = step["how"]
    try:
        if how in ("evaluate", "static_order-of-ref"):
            for nodes in list(results):
                for n in nodes:
                    for x in (n.type, n.unwrapped):
                        if x.__class__ is typing.ForwardRef:
                            try:
                                with_alarm(20, lambda: refs.evaluate(x) if how == "evaluate" else graph.static_order(x))
                            except Exception:  # noqa: BLE001
                                pass
        elif how == "unmarshal":
            with_alarm(5, lambda: typelib.unmarshal(live.obj(step["root"]), step["value"]))
        elif how == "marshal":
            with_alarm(5, lambda: typelib.marshal(step["value"], t=live.obj(step["root"])))
    except (_Timeout, RecursionError, Exception):  # noqa: BLE001
        pass


def emit_obs(live: G.Live, nodes) -> tuple[str | None, str]:
    """Coq term of the observation; (None, reason) when a node carries an annotation unknown to the case."""
    if isinstance(nodes, BaseException):
        return "ObsRaise", repr(nodes)
    items = []
    for n in nodes:
        t, u = live.describe(n.type), live.describe(n.unwrapped)
        if t is None or u is None:
            return None, f"node annotation outside the case universe: {n!r}"
        ev = "None"
        if n.cyclic:
            ok, val = safe_eval(n.type)
            d = live.describe(val) if ok else None
            if d is not None:
                ev = f"(Some {G.coq(d)})"
        var = "None" if n.var is None else f"(Some {G.cstr(n.var)})"
        items.append("{| otype := %s; ounw := %s; ovar := %s; ocyc := %s; oeval := %s |}" % (
            G.coq(t), G.coq(u), var, lib.coq_bool(n.cyclic), ev))
    return "(ObsNodes [" + "; ".join(items) + "])", ""


# ----------------------------------------------------------------------------------
# case streams
# ----------------------------------------------------------------------------------

def case_stream(rng: random.Random, tier: str):
    """All digraphs over <= 3 (quick) / <= 4 (thorough) classes, every class as root, inside every container
    kind; nested / two-module / wrapper variants; random non-class annotations."""
    nmax = 4 if tier == "thorough" else 3
    for n in range(1, nmax + 1):
        for mask in G.topologies(n):
            if n <= 2 or (n == 3 and tier == "thorough"):
                for r in range(n):
                    for rk in G.ROOT_KINDS:
                        yield G.class_graph_case(n, mask, rng, r, rk)
            elif n == 3:
                for r in range(n):
                    yield G.class_graph_case(n, mask, rng, r, "plain")
                    yield G.class_graph_case(n, mask, rng, r, rng.choice(G.ROOT_KINDS[1:]))
            else:
                r = mask % n
                yield G.class_graph_case(n, mask, rng, r, G.ROOT_KINDS[(mask // n) % len(G.ROOT_KINDS)])
    nvar = 1500 if tier == "thorough" else 250
    for variant in ("nested", "twomod", "wrappers", "wrappers", "wrappers"):
        for i in range(nvar):
            n = rng.choice([1, 2, 2, 3, 3, 3] + ([4] if tier == "thorough" else []))
            if variant == "wrappers":
                n = rng.choice([2, 3, 3, 4, 4, 4])
            mask = rng.randrange(1 << (n * n))
            yield G.class_graph_case(n, mask, rng, rng.randrange(n), rng.choice(G.ROOT_KINDS), variant)
    for i in range(2500 if tier == "thorough" else 400):
        yield G.chain_case(rng, rng.choice([1, 2, 2, 3, 3]))
    for i in range(600 if tier == "thorough" else 100):
        yield G.unresolvable_case(rng)
    for i in range(3000 if tier == "thorough" else 400):
        yield G.random_case(rng, depth=rng.choice([1, 2, 3, 3]))


def deep_stream(rng: random.Random, tier: str):
    """Two-level container edges (c09_gen.deep_case): every digraph over 3 classes (quick: one root per digraph in
    rotation, plain; thorough: every root, plain and inside a container), random ones over 2 and 4 classes."""
    thorough = tier == "thorough"
    for mask in range(512):
        for r in (range(3) if thorough else [mask % 3]):
            yield G.deep_case(3, mask, rng, r, "plain")
            if thorough:
                yield G.deep_case(3, mask, rng, r, rng.choice(G.ROOT_KINDS[1:]))
    for i in range(3000 if thorough else 250):
        n = rng.choice([2, 3, 4, 4])
        yield G.deep_case(n, rng.randrange(1 << (n * n)), rng, rng.randrange(n), rng.choice(G.ROOT_KINDS))


def history_stream(rng: random.Random, tier: str):
    """Operation histories over graph.static_order in which the class environment changes between calls:
    late definition of a referenced class (every digraph over 2 classes x both definition orders x priming by
    static_order / itertypes, plain and inside a container; random ones over 3-4 classes), members added to or
    retyped on a class after its first use, and random mixtures of both."""
    thorough = tier == "thorough"
    for mask in range(16):
        for order in ((0, 1), (1, 0)):
            primings = [("plain", "static_order"), (rng.choice(G.ROOT_KINDS[1:]), rng.choice(["static_order", "itertypes"]))]
            if thorough:
                primings += [(k, fn) for k in G.ROOT_KINDS[1:] for fn in ("static_order", "itertypes")]
            for pk, fn in primings:
                yield G.history_late_case(2, mask, order, 1, pk, rng, prime_fn=fn)
    for mask in range(16):      # nothing changes between the calls: several calls in one process, caches kept
        yield G.history_late_case(2, mask, (mask % 2, 1 - mask % 2), 2, rng.choice(G.ROOT_KINDS), rng)
    for i in range(600 if thorough else 50):
        n = rng.choice([3, 3, 4])
        order = list(range(n))
        rng.shuffle(order)
        yield G.history_late_case(n, rng.randrange(1 << (n * n)), tuple(order), rng.randrange(1, n),
                                  rng.choice(G.ROOT_KINDS), rng, prime_fn=rng.choice(["static_order"] * 3 + ["itertypes"]))
    for i in range(500 if thorough else 45):
        yield G.history_annotate_case(rng, rng.choice([1, 2, 2, 3]))
    for i in range(500 if thorough else 40):
        yield G.history_random_case(rng, rng.choice([2, 3, 3, 4]))
    # round 4: deferred nodes are RESOLVED between the calls (nothing in the environment changes)
    for i in range(900 if thorough else 70):
        yield G.history_resolve_case(rng, rng.choice([1, 2, 2, 3]))
    for i in range(300 if thorough else 30):
        n = rng.choice([2, 3, 3, 4])
        order = list(range(n))
        rng.shuffle(order)
        yield G.history_late_case(n, rng.randrange(1 << (n * n)), tuple(order), rng.randrange(1, n),
                                  rng.choice(G.ROOT_KINDS), rng, resolve=True, flavours=[rng.choice(["namedtuple", "dataclass"]) for _ in range(n)])


def corpus_cases():
    d = os.path.join(lib.VERIF, "corpus", "C09")
    out = []
    if os.path.isdir(d):
        for f in sorted(os.listdir(d)):
            if f.endswith(".json"):
                c = json.load(open(os.path.join(d, f)))
                out.append(thaw_case(c["case"] if "case" in c else c))
    return out


def thaw(d):
    """JSON lists -> the tuple form used by c09_gen (lists stay lists for argument positions)."""
    if isinstance(d, list) and d and isinstance(d[0], str):
        k = d[0]
        if k in ("gen", "union"):
            return (k, d[1], [thaw(x) for x in d[2]])
        if k in ("newtype", "alias"):
            return (k, d[1], d[2], thaw(d[3]))
        if k == "final":
            return (k, thaw(d[1]))
        return tuple(d)
    return d


def thaw_case(c):
    c = dict(c)
    c["root"] = thaw(c["root"])
    c["named"] = [thaw(x) for x in c.get("named", [])]
    c["classes"] = [dict(k, fields=[(f, thaw(t)) for f, t in k["fields"]]) for k in c["classes"]]
    if "history" in c:
        c["history"] = [dict(st, **({"root": thaw(st["root"])} if "root" in st else {}),
                             **({"type": thaw(st["type"])} if "type" in st else {})) for st in c["history"]]
    return c


# ----------------------------------------------------------------------------------
# correspondence
# ----------------------------------------------------------------------------------
HDR = ("From Coq Require Import List String.\nImport ListNotations.\n"
       "Require Import TL.Model.Graph TL.Model.Topo TL.Model.GraphEq.\n"
       "Local Open Scope string_scope.\nLocal Open Scope list_scope.\n")


def correspond(run: lib.Run):
    rng = random.Random(run.seed)
    cases = corpus_cases() + list(case_stream(rng, run.tier)) + list(deep_stream(random.Random(run.seed + 5), run.tier)) + \
        list(history_stream(random.Random(run.seed + 3), run.tier))
    dist: dict = {}
    coq_cases, descs, ambiguous = [], [], 0
    # the statement's clauses (check_nodes: everything of the oracle but the input-form clause, which needs calls of
    # its own) are read on EVERY sequence the correspondence observes: the oracle's inputs are a superset of the
    # correspondence's; search() reports what is found here, with the case as replay
    judged: list = []

    def bump(d, key, by=1):
        d[key] = d.get(key, 0) + by

    def keep(desc, term, counts):
        descs.append(desc)
        coq_cases.append(term)
        for k, v in counts.items():
            bump(dist, k, v)

    def emit(case, snap, live, root_desc, nodes, extra=None):
        """(description, Coq case term | None, distribution counts) of one observed call"""
        term, why = emit_obs(live, nodes)
        counts: dict = {}
        bump(counts, case["tag"].split(":")[0])
        if not isinstance(nodes, BaseException):
            bump(counts, "cyclic_nodes", sum(1 for n in nodes if n.cyclic))
            bump(counts, "nodes", len(nodes))
        else:
            bump(counts, "raised")
        desc = {"tag": snap["tag"], "root": G.src(case, root_desc, G.MOD_A) if root_desc[0] != "ref" else repr(root_desc),
                "case": case, "observed": [repr(n) for n in nodes] if not isinstance(nodes, BaseException) else repr(nodes),
                "source": dict(live.source)}
        desc.update(extra or {})
        if term is None:
            desc["error"] = why
        else:
            term = f"({G.coq_env(snap)}, {G.coq(root_desc)}, {term})"
        return desc, term, counts

    for case in cases:
        if "history" in case:
            # every call of the history that is not answered from static_order's memo is one model case: the model
            # is evaluated on the environment AS IT IS at that call
            got = []

            hfails: list = []

            def on_call(live, idx, step, snap, root, nodes, earlier, case=case, got=got, hfails=hfails):
                hfails.extend(judge_call(case, live, idx, step, root, nodes, earlier))
                if earlier is not None:
                    d, t, c = emit(case, snap, live, step["root"], nodes, {"call": idx})
                    if nodes is earlier:
                        got.append((None, None, {"history_memoised_calls": 1}))
                    else:
                        d["error"] = "an annotation asked before is not answered with the memoised list"
                        got.append((d, None, c))
                    return
                d, t, c = emit(case, snap, live, step["root"], nodes, {"call": idx})
                if live.reaches_unresolved(step["root"]):
                    bump(c, "history_calls_through_unresolved_class")
                if step["fn"] == "itertypes":
                    bump(c, "history_itertypes_calls")
                got.append((d, t, c))

            live = run_history(case, on_call)
            if live.ambiguous:
                ambiguous += 1
                continue
            bump(dist, "histories")
            judged.extend(hfails)
            for d, t, c in got:
                if d is None:
                    for k, v in c.items():
                        bump(dist, k, v)
                else:
                    keep(d, t, c)
            continue
        live, root, nodes = observe(case)
        if live.ambiguous:
            ambiguous += 1      # two spellings of one ==-class met in one case: outside the model's guard
            continue
        keep(*emit(case, case, live, case["root"], nodes))
        if not case["tag"].startswith("unresolvable"):      # not annotations of U: tied by the correspondence only
            judged.extend(check_nodes({"tag": case["tag"], "root": repr(root), "case": case}, live, root, nodes))
    run._c09_judged = judged
    dist["ambiguous_skipped"] = ambiguous
    # shards of <= 490 cases
    shard = 490
    files, index = {}, {}
    for s in range(0, len(coq_cases), shard):
        idx = [i for i in range(s, min(s + shard, len(coq_cases))) if coq_cases[i] is not None]
        if not idx:
            continue
        name = f"cases_graph_{s // shard:03d}.v"
        files[name] = (HDR + "Definition cases : list gcase :=\n [ " + ";\n   ".join(coq_cases[i] for i in idx) +
                       " ].\nEval vm_compute in mismatches case_ok cases.\nEval vm_compute in mismatches case_seq_ok cases.\n")
        index[name] = idx
    results = run.coq_eval_many(files, timeout=900, par=16)
    bad = [i for i, c in enumerate(coq_cases) if c is None]
    seq_bad = []
    for name, res in results.items():
        if res is None or len(res) < 2:
            run.oblige(f"evaluate:{name}", False, "model evaluation did not compile")
            bad += index[name]
            continue
        bad += [index[name][j] for j in lib.parse_nat_list(res[0])]
        seq_bad += [index[name][j] for j in lib.parse_nat_list(res[1])]
    bad = sorted(set(bad))
    nontriv = len({json.dumps([d["case"], d.get("call")], sort_keys=True, default=str) for d in descs
                   if isinstance(d["observed"], list) and len(d["observed"]) > 1})
    dist["graphlib_sequence_differs_from_kahn"] = len(seq_bad)
    run.record_corr("graph", len(descs), [dict(descs[i], case=None, source=None) | {"case_json": descs[i]["case"]} for i in bad],
                    nontriv, dist)
    if seq_bad:
        run.notes.append(f"kahn model did not reproduce graphlib's exact sequence on {len(seq_bad)} cases "
                         f"(first: {descs[seq_bad[0]]['tag']}); not an alarm while is_topo_order holds")
    run.samples.append({k: descs[0][k] for k in ("tag", "root", "observed")})
    seen_ids, mm = set(), []
    for i in bad:
        if id(descs[i]["case"]) not in seen_ids:
            seen_ids.add(id(descs[i]["case"]))
            mm.append(descs[i]["case"])
    run._c09_mismatch_cases = mm[:50]
    # this model's own copies of the inspection predicates agree with the line-by-line Inspect model on the live tables
    lib.run_tie(run, ginspecttie, streams=False)


# ----------------------------------------------------------------------------------
# the property oracle (independent of the model)
# ----------------------------------------------------------------------------------

def own_unwrap(t):
    """the oracle's own reading of 'the type behind' Final / alias / NewType (string alias: deferred)"""
    from typelib.py import compat
    seen = 0
    while seen < 50:
        seen += 1
        if typing.get_origin(t) is typing.Final:
            t = typing.get_args(t)[0]
        elif isinstance(t, compat.TypeAliasType):
            if isinstance(t.__value__, str):
                return t
            t = t.__value__
        elif hasattr(t, "__supertype__"):
            t = t.__supertype__
        else:
            return t
    return t


def own_members(t, live: G.Live):
    """member types a node for t directly contains: generic arguments, and field types of the case's classes"""
    from typelib.py import compat
    u = own_unwrap(t)
    if isinstance(u, compat.TypeAliasType) or u.__class__ is typing.ForwardRef:
        return []
    if typing.get_origin(u) is typing.Literal:
        return []
    out = [a for a in typing.get_args(u) if a is not Ellipsis and a is not typing.Any]
    if isinstance(u, type) and getattr(u, "__module__", "") in live.mods:
        try:
            hints = typing.get_type_hints(u)
        except Exception:  # noqa: BLE001
            hints = {}
        out += [h for h in hints.values() if h is not typing.Any]
    return out


def classify(m) -> str:
    """why a deferred node for member m may fail to denote it (used by the narrow finding matchers)"""
    import types
    if isinstance(m, type) and "." in getattr(m, "__qualname__", ""):
        return "nested-class"
    if isinstance(m, types.UnionType):
        return "pipe-union-with-brackets" if "[" in str(m) else "pipe-union"
    if typing.get_origin(m) is not None:
        return "subscripted-generic"
    return "other"


def same(a, b) -> bool:
    try:
        return bool(a == b)
    except Exception:  # noqa: BLE001
        return False


def oracle(case, forms=True):
    """Direct reading of the C09 statement on graph.static_order.  Returns a list of failure dicts."""
    from typelib import graph
    from typelib.py import compat, refs
    if "history" in case:
        return oracle_history(case)
    live, root, nodes = observe(case)
    base = {"tag": case["tag"], "root": repr(root), "case": case}
    if live.ambiguous:
        return []
    fails = check_nodes(base, live, root, nodes)
    # input forms
    if forms and not fails and not isinstance(nodes, BaseException):
        fails += input_forms(case, live, root, nodes, base)
    return fails


def oracle_history(case):
    """The statement's clauses on EACH static_order call of a history (c09_gen: operation histories).
    Read in favour of the code:
    * a call whose annotation reaches a class one of whose member annotations names a class that does not exist
      yet is not judged (such a class is no annotation of U at that moment: its members are unevaluated text);
    * an annotation asked before may be answered with the sequence it was answered with then (the memo;
      "types don't change at runtime") -- anything else is judged like a first call, on the classes as they are;
    * a call whose annotation reaches a dataclass / NamedTuple / TypedDict whose annotation table was edited after
      the class statement is not judged (whether the edit changed its "fields" is ambiguous; the code goes by the
      type hints, and the correspondence ties that); a plain class has no other definition of its fields than
      its annotation table, so members added to / retyped on a plain class ARE judged;
    * resolve steps (refs.evaluate on the references of deferred nodes, static_order of such a reference,
      unmarshal / marshal of a value) change no class: every later call is judged exactly like a first call;
    * itertypes calls are not judged (the statement speaks of static_order); they only prime;
    * the input-form clause is not tried inside a history (it would need calls of its own)."""
    fails: list = []

    def on_call(live, idx, step, snap, root, nodes, earlier):
        fails.extend(judge_call(case, live, idx, step, root, nodes, earlier))

    live = run_history(case, on_call)
    return [] if live.ambiguous else fails


def judge_call(case, live, idx, step, root, nodes, earlier):
    if step["fn"] != "static_order":
        return []
    if earlier is not None and not isinstance(nodes, BaseException) and sig(nodes) == sig(earlier):
        return []
    if live.reaches_unresolved(step["root"]) or live.reaches_reannotated(step["root"]):
        return []
    base = {"tag": case["tag"], "root": repr(root), "case": case, "call": idx,
            "history": [G.show_step(case, st) for st in case["history"][:idx + 1]]}
    return check_nodes(base, live, root, nodes)


def check_nodes(base, live, root, nodes):
    """the clauses of the statement about ONE returned sequence (or exception)"""
    from typelib.py import compat
    if isinstance(nodes, BaseException):
        return [dict(base, symptom="static_order-raises" if not isinstance(nodes, TimeoutError) else "static_order-hangs",
                     why=type(nodes).__name__, got=repr(nodes))]
    fails = []
    shown = [repr(n) for n in nodes]
    base["nodes"] = shown
    # duplicate-free
    for i, n in enumerate(nodes):
        if any(n == m for m in nodes[:i]):
            fails.append(dict(base, symptom="duplicate-node", why="", got=repr(n)))
            break
    # root last
    if not nodes or not same(nodes[-1].type, root) or nodes[-1].cyclic:
        fails.append(dict(base, symptom="root-not-last", why="", got=shown[-1:] or None))
    evals = {}
    for i, n in enumerate(nodes):
        # every forward-reference node is flagged
        if n.type.__class__ is typing.ForwardRef and not n.cyclic:
            fails.append(dict(base, symptom="forward-reference-node-not-flagged-cyclic", why="", got=repr(n)))
        if n.cyclic:
            evals[i] = safe_eval(n.type)
    real_types = [root, own_unwrap(root)] + [x for n in nodes if not n.cyclic for x in (n.type, n.unwrapped)]
    for i, n in enumerate(nodes):
        if n.cyclic:
            ok, val = evals[i]
            if not ok:
                continue      # reported through the member it fails to denote
            # every node so flagged is a revisit: what it stands for has a node of its own (or is the root)
            if not any(same(val, t) or same(own_unwrap(val), t) for t in real_types):
                # it may denote the wrong thing altogether (bare origin): then the member check reports it
                if any(same(val, m) for k in nodes if not k.cyclic for m in own_members(k.type, live)):
                    fails.append(dict(base, symptom="cyclic-node-is-not-a-revisit", why="", got=repr(n)))
            continue
        # members represented strictly earlier
        for m in own_members(n.type, live):
            rep = False
            for j in range(i):
                e = nodes[j]
                if same(e.type, m):
                    rep = True
                elif e.cyclic and evals[j][0] and same(evals[j][1], m):
                    rep = True
                if rep:
                    break
            if rep:
                continue
            # a deferred node anywhere earlier/later whose reference text names m's origin: it stands for m
            cand = [k for k, e in enumerate(nodes) if e.cyclic and e.type.__class__ is typing.ForwardRef
                    and names(e.type, m)]
            if cand:
                k = cand[0]
                got = repr(evals[k][1])
                fails.append(dict(base, symptom="deferred-node-does-not-denote-its-type", why=classify(m),
                                  member=repr(m), node=repr(nodes[k]), got=got))
            else:
                late = any(same(e.type, m) for e in nodes[i:])
                fails.append(dict(base, symptom="member-not-represented-earlier" if not late else "member-after-container",
                                  why=classify(m), member=repr(m), node=repr(n)))
    # string aliases: one deferred node carrying a reference to the body, not expanded
    for i, n in enumerate(nodes):
        if isinstance(n.type, compat.TypeAliasType) and isinstance(n.type.__value__, str):
            okref = n.unwrapped.__class__ is typing.ForwardRef
            if okref:
                ok, val = safe_eval(n.unwrapped)
                try:
                    want = eval(n.type.__value__, dict(vars(__import__("sys").modules[n.type.__module__])))
                except Exception:  # noqa: BLE001
                    want = None
                okref = ok and want is not None and same(val, want)
            if not okref:
                fails.append(dict(base, symptom="string-alias-node-does-not-carry-its-body", why="", got=repr(n)))
    # ... and it is a SINGLE node: what only its body contains (reachable from the evaluated body, not from the root
    # without passing through a string alias) has no node in the sequence
    aliases = [n.type for n in nodes if isinstance(n.type, compat.TypeAliasType) and isinstance(n.type.__value__, str)]
    if aliases:
        from_root = closure(root, live)
        for a in aliases:
            try:
                body = eval(a.__value__, dict(vars(__import__("sys").modules[a.__module__])))
            except Exception:  # noqa: BLE001
                continue
            only_body = [t for t in closure(body, live) if not any(same(t, r) for r in from_root)]
            for i, n in enumerate(nodes):
                t = evals[i][1] if (n.cyclic and n.type.__class__ is typing.ForwardRef and evals[i][0]) else n.type
                if t.__class__ is typing.ForwardRef:
                    continue
                if any(same(t, x) for x in only_body):
                    fails.append(dict(base, symptom="string-alias-body-expanded", why="", alias=repr(a), got=repr(n)))
                    break
    return fails


def closure(start, live):
    """the types reachable from `start` through member types (a string alias and a reference contain nothing)"""
    out, todo = [], [start]
    while todo:
        t = todo.pop()
        if any(same(t, s) for s in out):
            continue
        out.append(t)
        todo += own_members(t, live)
    return out


def names(ref, m) -> bool:
    """does the reference text name m (by bare origin / last qualname component)?"""
    arg = ref.__forward_arg__
    cands = set()
    o = typing.get_origin(m) or m
    for x in (o, m):
        for a in ("__qualname__", "__name__", "_name"):
            v = getattr(x, a, None)
            if isinstance(v, str):
                cands.add(v)
                cands.add(v.rsplit(".", 1)[-1])
    q = getattr(m, "__qualname__", None)
    if isinstance(q, str):
        parts = q.split(".")
        for i in range(len(parts)):
            cands.add(".".join(parts[i:]))
    s = str(m)
    cands.add(s)
    cands.add(s.split("[", 1)[0].rsplit(".", 1)[-1])
    if "." in s:
        cands.add(s.split(".", 1)[1])
    return arg in cands


def sig(nodes):
    return [(repr(n.type), repr(n.unwrapped), n.var, n.cyclic) for n in nodes]


def input_forms(case, live, root, nodes, base):
    """string / ForwardRef / NewType / value-alias / memoised inputs give the same sequence as the evaluated
    type, up to the root node's own label"""
    from typelib import graph
    from typelib.py import compat, refs
    fails = []
    body = sig(nodes)[:-1]
    mod = live.mods[G.MOD_A]

    def run_form(label, make):
        impl.clear_caches()
        try:
            t = make()
            got = with_alarm(10, lambda: list(graph.static_order(t)))
        except BaseException as e:  # noqa: BLE001
            fails.append(dict(base, symptom="input-form-differs", why=label, got=repr(e)))
            return
        if sig(got)[:-1] != body or not got or not same(own_unwrap(got[-1].unwrapped), own_unwrap(root)):
            fails.append(dict(base, symptom="input-form-differs", why=label, got=[repr(n) for n in got]))

    impl.clear_caches()
    first = graph.static_order(root)
    again = graph.static_order(root)
    if again is not first or sig(again) != sig(first) or sig(first) != sig(nodes):
        fails.append(dict(base, symptom="input-form-differs", why="memoised", got=[repr(n) for n in again]))
    if case["root"][0] in ("cls", "gen", "union", "s"):
        text = G.src(case, case["root"], G.MOD_A)
        mod.__dict__["FormNT"] = None
        run_form("NewType", lambda: exec(f"FormNT = typing.NewType('FormNT', {text})", mod.__dict__) or mod.__dict__["FormNT"])
        run_form("value-alias", lambda: exec(f"FormAL = compat.TypeAliasType('FormAL', {text})", mod.__dict__) or mod.__dict__["FormAL"])
        run_form("ForwardRef", lambda: refs.forwardref(text, module=G.MOD_A))
        # wrapper chains in every alternation: W(T) gives T's sequence up to the root label

        def chain(label, code, last):
            run_form(label, lambda: exec(code, mod.__dict__) or mod.__dict__[last])

        chain("alias-of-alias", f"FcA1 = compat.TypeAliasType('FcA1', {text})\nFcA2 = compat.TypeAliasType('FcA2', FcA1)", "FcA2")
        chain("alias-of-NewType", f"FcN1 = typing.NewType('FcN1', {text})\nFcA3 = compat.TypeAliasType('FcA3', FcN1)", "FcA3")
        chain("NewType-of-alias", f"FcA4 = compat.TypeAliasType('FcA4', {text})\nFcN2 = typing.NewType('FcN2', FcA4)", "FcN2")
        chain("alias-of-NewType-of-alias",
              f"FcA5 = compat.TypeAliasType('FcA5', {text})\nFcN3 = typing.NewType('FcN3', FcA5)\nFcA6 = compat.TypeAliasType('FcA6', FcN3)", "FcA6")
        chain("Final-of-alias-of-NewType",
              f"FcN4 = typing.NewType('FcN4', {text})\nFcA7 = compat.TypeAliasType('FcA7', FcN4)\nFcF = typing.Final[FcA7]", "FcF")
        import re
        # a bare string is resolved by refs' own convention: a LEADING dotted name is the module and the rest
        # is looked up inside it; `typing.Sequence[uuid.UUID]` is therefore not a string the code claims to
        # resolve (uuid is not a name of module typing) -- resolved in favour of the code, not generated
        leading_module = re.match(r"^[A-Za-z_]\w*\.", text) and not re.fullmatch(r"[\w.]+", text)
        if case["root"][0] != "cls" and not case["classes"] and not leading_module:
            G.ensure_enum_module()
            globals()[G.ENUM_MOD] = __import__("sys").modules[G.ENUM_MOD]
            run_form("string", lambda: text)   # a bare string is resolved from the caller's module (this one)
    return fails


def fails_in_fresh_process(run, x) -> bool:
    import subprocess
    import sys
    path = os.path.join(run.build, "candidate_replay.json")
    with open(path, "w") as f:
        json.dump({"case": x["case"], "symptom": x.get("symptom"), "why": x.get("why")}, f, default=str)
    try:
        p = subprocess.run([sys.executable, os.path.join(lib.VERIF, "harness", "main.py"), "C09", "--replay", path],
                           capture_output=True, timeout=300, cwd=lib.VERIF)
    except Exception:  # noqa: BLE001
        return False
    return p.returncode == 1


def failure_key(f):
    return json.dumps([f.get("symptom"), f.get("why")])


def search(run: lib.Run, broken):
    rng = random.Random(run.seed + 7)
    budget = run.budget(900, 12000)
    if broken:
        budget = max(budget, run.budget(4000, 20000))
    pool = corpus_cases() + list(getattr(run, "_c09_mismatch_cases", []))
    stream = case_stream(rng, run.tier)
    # the stream is long; sample it evenly
    allcases = list(stream) + list(deep_stream(random.Random(run.seed + 5), run.tier))
    step = max(1, -(-len(allcases) // budget))
    off = rng.randrange(step)
    pool += allcases[off::step][:budget]
    # histories are the only cases with more than one call per process: all of them, always (no input forms: cheap)
    #   -- already judged call by call, like every other correspondence case, when correspond() ran
    if not hasattr(run, "_c09_judged"):
        pool += list(history_stream(random.Random(run.seed + 3), run.tier))
        pool += [dict(c, noforms=True) for c in allcases]
    fails, nontriv = [], 0
    for x in getattr(run, "_c09_judged", []):       # read on the correspondence's own observations
        x["key"] = failure_key(x)
        fails.append(x)
    for case in pool:
        if case["tag"].startswith("unresolvable"):
            continue      # unresolvable names are not annotations of U: tied by the correspondence only
        if len(fails) >= 300:
            # the violation is established and has replays: a tree that fails on thousands of cases must not keep
            # the check busy for half an hour (seeded change C09-r7m1)
            run.notes.append("oracle stopped after 300 failures; the remaining cases of the pool were not judged")
            break
        fs = oracle(case, forms=not case.get("noforms"))
        nontriv += 1 if (case["classes"] or case["root"][0] in ("gen", "union")) else 0
        for x in fs:
            x["key"] = failure_key(x)
        fails += fs
    # shrink: per (symptom, why) keep the failure of the smallest case
    best = {}
    for x in fails:
        c = x["case"]
        size = (len(c["classes"]), x.get("call", 0), sum(len(k["fields"]) for k in c["classes"]), len(json.dumps(c["root"])))
        best.setdefault(x["key"], []).append((size, len(best.get(x["key"], [])), x))
    # the replay must fail in a FRESH process: a failure observed in this process may depend on the calls of earlier
    # cases (state that typelib's cache_clear does not reset); per kind, the smallest failure that does
    for key, cands in best.items():
        cands.sort(key=lambda v: v[:2])
        pick = None
        for size, _, x in cands[:6]:
            if fails_in_fresh_process(run, x):
                pick = (size, x)
                break
        if pick is None:
            size, _, x = cands[0]
            x["replay_note"] = ("did not fail again in a fresh process: it needs the calls of the cases that ran before "
                                "it in the check's process (state that no cache_clear resets)")
            pick = (size, x)
        best[key] = pick
    out = [v[1] for v in sorted(best.values(), key=lambda v: v[0])]
    if any("replay_note" not in x for x in out):
        dropped = [x["key"] for x in out if "replay_note" in x]
        if dropped:
            run.notes.append(f"failure kinds seen only with the process's earlier cases, not reported as replays: {dropped}")
        out = [x for x in out if "replay_note" not in x]
    # known findings listed in findings.d/C09.json (the lead merges them into known_findings.json;
    # until then they are honoured from here)
    listed = {e["id"] for e in run.findings()}
    mine = [e for e in own_findings() if e["id"] not in listed]
    for e in mine:
        try:
            if reproduces(e):
                run.known(e)
            else:
                run.notes.append(f"known finding {e['id']} no longer reproduces")
        except Exception as ex:  # noqa: BLE001
            run.notes.append(f"known finding {e['id']} replay error: {ex!r}")
    kept = []
    for f in out:
        hit = next((e for e in mine if matches(e, f)), None)
        if hit is not None:
            run.known(hit)
        else:
            kept.append(f)
    run.search_stats["oracle"] = {
        "evaluations": len(pool), "distinct_nontrivial": nontriv, "failures": len(fails),
        "failure_kinds": sorted({x["key"] for x in fails}),
        "histories": sum(1 for c in pool if "history" in c),
        "failures_on_correspondence_observations": len(getattr(run, "_c09_judged", [])),
        "rule": "cases sampled evenly from the correspondence stream (all class digraphs, variants, random "
                "annotations) + corpus + mismatching cases + every operation history (each static_order call of a "
                "history judged on the classes as they are at that call); non-trivial = has classes or a "
                "container/union root",
    }
    # one bare string given to static_order / itertypes from several modules that bind it differently (histories)
    import c09_modules
    nmod, mod_fails = c09_modules.check()
    run.search_stats["oracle"]["string_across_modules_histories"] = nmod
    run.search_stats["oracle"]["evaluations"] += nmod
    kept += mod_fails
    if kept:
        run.samples.append({"oracle_failure": {k: v for k, v in kept[0].items() if k != "case"}})
    return kept


# ----------------------------------------------------------------------------------
# known findings / replay
# ----------------------------------------------------------------------------------

def own_findings():
    if not os.path.exists(FINDINGS):
        return []
    return [e for e in json.load(open(FINDINGS)).get("open", []) if e["property"] == "C09"]


def replay(payload):
    if payload.get("kind") == "c09-string-modules":
        import c09_modules
        return c09_modules.replay(payload)
    case = thaw_case(payload["case"])
    fs = oracle(case)
    want = payload.get("symptom")
    if want:
        fs = [x for x in fs if x["symptom"] == want and (payload.get("why") in (None, x.get("why")))]
    return {"fails": bool(fs), "failures": [{k: v for k, v in x.items() if k != "case"} for x in fs]}


def reproduces(entry):
    return replay(entry["replay"])["fails"]


def matches(entry, failure):
    m = entry.get("matches", {})
    return all(failure.get(k) == v for k, v in m.items())
