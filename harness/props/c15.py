"""C15 -- every valid annotation yields working routines (DESIGN 7/C15).

Theorems: Props/C15.v (construction total along the graph contract, pass-through of unresolvable positions,
repeatability) -- in the model the exotic constructors are leaves.  Tie: three-way correspondence on the
extended grammar (exotic leaves inside composites go through the graph / context / proxies).  Oracle: the
statement on the implementation over the extended constructor grammar (exhaustive to depth 1-2, sampled
to depth 3): marshaller / unmarshaller / codec are constructed, unresolvable positions pass through,
building twice and after clearing caches behaves alike.

Round 3 (notes/C15.md): the shared sub-annotation stratum PARENT(C1[g], C2[g]) (c15_shared: tie + oracle), the
no-op fallback oracle (a member with a resolvable annotation must not get the warned no-op), and rebuild
histories in which only SOME caches are cleared (c15_hist: oracle; replay = annotation + cleared caches).
"""
from __future__ import annotations

import itertools
import json
import random
import signal
import typing
import warnings

import bridgetie
import c15_hist
import c15_shared
import coregen
import coremodel
import coreprop
import impl
import lib
import dispatchtie
import c17_hints
import universe

COQ_TARGETS = ["theories/Props/C15.vo", "theories/Model/BuildTables.vo", "theories/Model/CoreTables.vo",
               "theories/Props/C05Bridge.vo", "theories/Model/GraphBridgeEq.vo"]
COQ_TARGETS = COQ_TARGETS + [t for t in dispatchtie.COQ_TARGETS if t not in COQ_TARGETS]
COQ_TARGETS = COQ_TARGETS + [t for t in c17_hints.COQ_TARGETS if t not in COQ_TARGETS]
THEOREMS = ["C15_construction_total", "C15_passthrough", "C15_noop_only_at_passthrough", "C15_repeatable"]

# leaves of the extended grammar that the model knows (tie + oracle)
MODEL_LEAVES = ["int", "str", "Any", "object", "list", "dict", "tuple", "set", "typing.List", "typing.Dict",
                "typing.Sequence", "typing.Mapping", "Callable", "XG_int", "XGD_int", "XNoAnn", "XEmpty", "Decimal"]
TVARS = ["XT", "XTB", "XTC"]
PASSTHROUGH = {"Any", "object", "Callable"}
# annotation sources only the oracle uses (the implementation rejects several of them: known findings)
ORACLE_ONLY = {
    "bare-typevar": ["XT", "XTB", "XTC"],
    "callable-args": ["typing.Callable[[int], str]", "collections.abc.Callable[[int], str]"],
    "callable-ellipsis": ["typing.Callable[..., int]"],
    "type-of": ["type[int]", "typing.Type[int]", "type"],
    "bare-generic-class": ["XG", "XGD"],
}


def prove(run: lib.Run):
    run.check_props("Props/C15.v", THEOREMS)
    run.assumptions += [
        "C15: the exotic constructors (Any, object, TypeVar, Callable, bare containers, user generics, classes "
        "without hints) are leaf types of the model; that the implementation's dispatch accepts them is decided "
        "by the tie and the oracle only",
    ]


def leaf_desc(name):
    if name in TVARS:
        return ("tvar", name)
    return ("leaf", name)


def depth1(inner_pool):
    out = []
    for x in inner_pool:
        out.append(("seq", "KList", "list[{}]", x))
        out.append(("seq", "KTuple", "tuple[{}, ...]", x))
        out.append(("map", "KDict", "dict[{}, {}]", ("leaf", "str"), x))
        if x[0] != "union":          # typing flattens nested unions
            out.append(("union", "Optional", [x, ("none",)]))
        out.append(("seq", "KList", "typing.Sequence[{}]", x))
    return out


def binary(pool_a, pool_b):
    out = []
    for a, b in itertools.product(pool_a, pool_b):
        out.append(("tuple", "tuple[{}]", [a, b]))
        if a != b and a[0] != "union" and b[0] != "union":
            out.append(("union", "Union", [a, b]))
    return out


def grammar(run, rng):
    leaves = [leaf_desc(n) for n in MODEL_LEAVES]
    member_leaves = leaves + [leaf_desc(t) for t in TVARS]      # TypeVars only as generic arguments
    d1 = depth1(member_leaves) + binary(member_leaves[:10], member_leaves)
    d2 = depth1(d1)
    # variadic tuples used more than once
    d1.append(("tuple", "tuple[{}]", [("seq", "KTuple", "tuple[{}, ...]", ("leaf", "int")),
                                      ("seq", "KTuple", "tuple[{}, ...]", ("leaf", "str"))]))
    full = leaves + d1 + d2
    n = run.budget(520, 12000)
    if len(full) > n:
        keep = leaves + d1[:: max(1, len(d1) * 3 // n)]
        rest = [x for x in full if x not in keep]
        full = keep + rng.sample(rest, max(0, n - len(keep)))
    for _ in range(run.budget(60, 1500)):               # depth 3, sampled
        full.append(rng.choice(depth1([rng.choice(d2)])))
    return full


XVALUES = {
    "object": [1, "s", None, [1]], "tuple": [(1, "a"), ()], "set": [{1, 2}, set()], "frozenset": [frozenset({1})],
    "typing.List": [[1, "a"], []], "typing.Dict": [{"a": 1}], "typing.Set": [{1}], "typing.Tuple": [(1, 2)],
    "typing.Sequence": [[1, 2]], "typing.Mapping": [{"k": "v"}], "Callable": [len, print], "Hashable": ["h", 3],
}


def gen_value(rng, t, env, mod, depth=2):
    k = t[0]
    if k == "tvar":
        return gen_value(rng, universe.TVARS[t[1]], env, mod, depth)
    if k == "leaf":
        n = t[1]
        if n in XVALUES:
            return rng.choice(XVALUES[n])
        if n == "XG_int":
            return mod.XG(rng.choice([1, 2]))
        if n == "XGD_int":
            return mod.XGD(rng.choice([1, 2]))
        if n == "XNoAnn":
            return mod.XNoAnn(rng.choice([1, "x"]), 2)
        if n == "XEmpty":
            return mod.XEmpty()
        return coregen.gen_value(rng, t, env, mod, depth)
    if k == "seq":
        vals = [gen_value(rng, t[3], env, mod, depth - 1) for _ in range(rng.randint(0, 2) if depth > 0 else 0)]
        if t[1] in ("KSet", "KFrozenset"):
            try:
                return universe.SEQ_PY[t[1]](coregen._dedupe_eq(vals))
            except TypeError:               # members that cannot be hashed: only the empty set is a valid value
                return universe.SEQ_PY[t[1]]()
        return universe.SEQ_PY[t[1]](vals)
    if k == "map":
        out = {}
        for i in range(rng.randint(0, 2) if depth > 0 else 0):
            key = f"k{i}"
            if t[3] != ("leaf", "str"):     # the shared stratum puts generics in key position
                try:
                    cand = gen_value(rng, t[3], env, mod, depth - 1)
                    hash(cand)
                    key = cand
                except TypeError:
                    pass
            out[key] = gen_value(rng, t[4], env, mod, depth - 1)
        return out
    if k == "name":
        d = env["defs"][t[1]]
        return getattr(mod, universe.cname(t[1]))(**{fn: gen_value(rng, ft, env, mod, depth - 1) for fn, ft, _ in d[3]})
    if k == "tuple":
        return tuple(gen_value(rng, x, env, mod, depth - 1) for x in t[2])
    if k == "union":
        m = rng.choice(t[2])
        return None if m == ("none",) else gen_value(rng, m, env, mod, depth - 1)
    return coregen.gen_value(rng, t, env, mod, depth)


def build_groups(run):
    rng = random.Random(run.seed * 13 + 5)
    anns = grammar(run, rng)
    groups, records = [], []
    chunk = 40
    for i in range(0, len(anns), chunk):
        env = {"module": coregen.new_module_name("c15"), "defs": {}}
        roots = anns[i:i + chunk]
        try:
            g = coremodel.Group(env, roots, coreprop.suppressed())
        except Exception as e:
            run.notes.append(f"materialise failed: {e!r}")
            continue
        for ri, r in enumerate(roots):
            try:
                v = gen_value(rng, r, env, g.mod)
            except Exception as e:
                run.notes.append(f"value generation failed for {r!r}: {e!r}")
                continue
            rec = coreprop.Record(g, ri, v)
            rec.wire = g.add("m", ri, v)
            pool = [("valid", v)]
            if rec.wire[0] == "ok":
                pool.append(("wire", rec.wire[1]))
                if coregen.jsonable(rec.wire[1]):
                    pool.append(("json", json.dumps(rec.wire[1])))
            pool.append(("unrelated", rng.choice(coregen.UNRELATED)))
            for tag, x in pool:
                rec.inputs.append((tag, x, g.add("u", ri, x)))
            records.append(rec)
        groups.append(g)
    # round 3: the shared sub-annotation stratum (c15_shared): its own generator state, so that the cases above
    # are what they were before
    srng = random.Random(run.seed * 17 + 11)
    specs, layers = c15_shared.specs(run.tier, srng)
    model_specs = [s for s in specs if s[0] in c15_shared.BASIS]
    shared = {"layers": layers, "specs": len(specs), "model": 0, "oracle_only": 0, "not_generated": 0,
              "oracle_specs": [s for s in specs if s[0] not in c15_shared.BASIS]}
    for i in range(0, len(model_specs), chunk):
        env = {"module": coregen.new_module_name("c15s"), "defs": {}}
        alloc = c15_shared.Alloc(env)
        roots, labels = [], []
        for s in model_specs[i:i + chunk]:
            d = c15_shared.realise(s, alloc)
            if d is None:
                shared["not_generated"] += 1      # typing would rewrite it (nested / duplicate union members)
                continue
            roots.append(d)
            labels.append(c15_shared.spec_label(s))
        try:
            g = coremodel.Group(env, roots, coreprop.suppressed())
        except Exception as e:
            run.notes.append(f"shared stratum: materialise failed: {e!r}")
            continue
        g.c15_labels = labels
        shared["model"] += len(roots)
        add_records(run, srng, g, records, values=1)
        groups.append(g)
        anns += g.roots
    run._c15_shared = shared
    return groups, records, anns


def add_records(run, rng, g, records, values=1):
    for ri, r in enumerate(g.roots):
        for _ in range(values):
            try:
                v = gen_value(rng, r, g.env, g.mod)
            except Exception as e:
                run.notes.append(f"value generation failed for {r!r}: {e!r}")
                continue
            rec = coreprop.Record(g, ri, v)
            rec.wire = g.add("m", ri, v)
            pool = [("valid", v)]
            if rec.wire[0] == "ok":
                pool.append(("wire", rec.wire[1]))
                if coregen.jsonable(rec.wire[1]):
                    pool.append(("json", json.dumps(rec.wire[1])))
            pool.append(("unrelated", rng.choice(coregen.UNRELATED)))
            for tag, x in pool:
                rec.inputs.append((tag, x, g.add("u", ri, x)))
            records.append(rec)


def correspond(run: lib.Run):
    groups, records, anns = build_groups(run)
    run._c15 = (groups, records, anns)
    problems = []
    for g in groups:
        for t in g.pytys:
            g.collect_orders(t)
        problems += g.order_problems
    run.oblige("tie:every observed graph node has a model annotation", not problems, "; ".join(problems[:3]))
    bs, bm, ba = coremodel.evaluate_groups_mech(run, groups, "c15", per_file=3)
    ncases = sum(len(g.cases) for g in groups)
    distinct = len({(g.env["module"], c[0], c[1], c[2]) for g in groups for c in g.cases})
    heads = {}
    for a in anns:
        heads[a[0]] = heads.get(a[0], 0) + 1
    dist = {"annotations": len(anns), "heads": heads,
            "observed_raise": sum(1 for g in groups for c in g.cases if "Raise" in c[3]),
            "shared_sub_annotation_stratum": {k: v for k, v in run._c15_shared.items() if k != "oracle_specs"}}
    run.record_corr("reference-semantics-vs-implementation", ncases, [g.cases[i][4] for g, i in bs], distinct, dist)
    run.record_corr("mechanism-on-observed-order-vs-implementation", ncases, [g.cases[i][4] for g, i in bm], distinct, dist)
    run.record_corr("mechanism-vs-reference-semantics", ncases, [g.cases[i][4] for g, i in ba], distinct, dist)
    if groups and groups[0].cases:
        run.samples.append(groups[0].cases[-1][4])
    # the order contract assumed by this property's theorems is decided through the graph model (notes/bridge.md)
    bridgetie.bridge_obligations(run, groups, "c15")
    # which routine class each head gets (incl. the pass-through family: Any, object, TypeVar, Callable, type[...], bare
    # generics, classes without hints) is a theorem over the live _HANDLERS tables (dyn/Dispatch), no longer tie-only
    lib.run_tie(run, dispatchtie, streams=False, core=True, groups=groups[:run.budget(40, 80)], tag="c15")      # the extended class lattice is decided by vm_compute: bounded
    # the class environments handed to the core model are what the code's own hint machinery yields (Model/InspectHints.v)
    try:
        c17_hints.hints_obligations(run, groups, "c15")
    except Exception as ex:
        run.oblige("tie:c17_hints.hints_obligations ran to completion", False, repr(ex)[:400])


# ----------------------------------------------------------------------------------
# oracle
# ----------------------------------------------------------------------------------

class Timeout(Exception):
    pass


def _alarm(signum, frame):
    raise Timeout()


NOOP_FALLBACK = "Will default to no-op"
FALLBACKS: list = []        # no-op fallbacks the structured routines reported during the last construct_all()


def construct_all(t):
    from typelib import codec, marshals, unmarshals
    out = {}
    del FALLBACKS[:]
    for name, f in (("unmarshaller", unmarshals.unmarshaller), ("marshaller", marshals.marshaller), ("codec", codec)):
        signal.alarm(10)
        try:
            with warnings.catch_warnings(record=True) as ws:
                warnings.simplefilter("always")
                try:
                    out[name] = ("ok", f(t))
                finally:
                    FALLBACKS.extend(f"{name}: {w.message}"[:300] for w in ws if NOOP_FALLBACK in str(w.message))
        except Timeout:
            out[name] = ("timeout", None)
        except RecursionError:
            out[name] = ("raise", "RecursionError")
        except BaseException as e:
            out[name] = ("raise", f"{type(e).__name__}: {str(e)[:80]}")
        finally:
            signal.alarm(0)
    return out


def bad_fallbacks():
    """no-op fallbacks of the last construct_all() at members whose annotation CAN be resolved.  The structured
    routines warn when they find no routine for a member and fall back to a no-op; on /repo HEAD that happens for
    members annotated typing.Any (also: a free TypeVar, no annotation) and for nothing else -- the designed
    pass-through.  Any other member is one the library resolves, so a no-op there is not a working routine."""
    return [w for w in FALLBACKS if "Original ref: typing.Any," not in w]


def category(src):
    for cat, items in ORACLE_ONLY.items():
        if any(i in src for i in items if i not in ("XT", "XTB", "XTC", "XG", "XGD", "type")):
            return cat
    return None


def oracle_sources(rng, n):
    """annotation sources for the oracle-only constructors, bare and nested"""
    out = []
    for cat, items in ORACLE_ONLY.items():
        for s in items:
            out.append((cat + ":root", s))
            if cat != "bare-typevar":
                out.append((cat + ":list", f"list[{s}]"))
                out.append((cat + ":dict-value", f"dict[str, {s}]"))
                out.append((cat + ":optional", f"typing.Optional[{s}]"))
                out.append((cat + ":tuple", f"tuple[int, {s}]"))
    out.append(("empty-tuple:root", "tuple[()]"))
    return out


def oracle_behaviour(cat, src, t, mod):
    """what the constructed routines of an oracle-only annotation must do: an unresolvable position hands the
    very object through; a TypeVar stands for its bound / constraints / Any; tuple[()] is the empty fixed tuple"""
    from typelib import marshals, unmarshals
    family, pos = cat.split(":")
    out = []

    def fail(sym, got=None):
        out.append({"symptom": sym, "annotation": src, "category": family, "position": pos, "got": got,
                    "key": "C15-behave-" + src})

    def both(x):
        with warnings.catch_warnings():
            warnings.simplefilter("ignore")
            impl.clear_caches()
            a = unmarshals.unmarshal(t, x)
            b = marshals.marshal(x, t=t)
        return a, b
    o = object()
    wrap = {"root": lambda v: v, "list": lambda v: [v], "dict-value": lambda v: {"k": v}, "optional": lambda v: v,
            "tuple": lambda v: (1, v)}[pos]
    inner = {"root": lambda r: r, "list": lambda r: list(r)[0], "dict-value": lambda r: r["k"], "optional": lambda r: r,
             "tuple": lambda r: list(r)[1]}[pos]
    try:
        if family in ("callable-args", "callable-ellipsis", "type-of") or src in ("XT", "list[XT]"):
            a, b = both(wrap(o))
            if inner(a) is not o or inner(b) is not o:
                fail("unresolvable position is not pass-through", repr((a, b))[:200])
        elif src == "XTB":
            a, b = both("5")
            if a != 5 or type(a) is not int:
                fail("a bound TypeVar does not stand for its bound", repr(a))
        elif src == "XTC":
            a, _ = both("5")
            a2, _ = both("x")
            if (a, a2) != (5, "x"):
                fail("a constrained TypeVar does not stand for the union of its constraints", repr((a, a2)))
        elif family == "bare-generic-class":
            cls = mod.XG if "XGD" not in src else mod.XGD
            a, b = both(wrap(cls(o)))
            if not isinstance(inner(a), cls) or inner(a).v is not o or inner(b) != {"v": o}:
                fail("member annotated with a free TypeVar is not pass-through", repr((a, b))[:200])
            a, _ = both(wrap({"v": o}))
            if not isinstance(inner(a), cls) or inner(a).v is not o:
                fail("member annotated with a free TypeVar is not pass-through (mapping input)", repr(a)[:200])
        elif family == "empty-tuple":
            a, b = both([])
            a2, _ = both("[]")
            if a != () or a2 != () or b != []:
                fail("tuple[()] is not the fixed tuple without members", repr((a, a2, b)))
    except BaseException as e:
        fail("routine of a valid annotation raised on a pass-through position", repr(e)[:200])
    return out


class SkipBehaviour(Exception):
    pass


SENTINELS = {"callable": lambda: (lambda x: str(x)), "type-of": lambda: int, "literal": lambda: 1}


def sentinel_value(d, env, mod, sentinel):
    """a valid value of d with exactly one member per container and `sentinel` at the oracle-only positions"""
    k = d[0]
    if k == "leaf":
        if d[1] in c15_shared.ORACLE_SRCS:
            return sentinel
        return {"int": 7, "str": "s"}[d[1]]
    try:
        if k == "seq":
            return universe.SEQ_PY[d[1]]([sentinel_value(d[3], env, mod, sentinel)])
        if k == "map":
            return {sentinel_value(d[3], env, mod, sentinel): sentinel_value(d[4], env, mod, sentinel)}
    except TypeError:
        raise SkipBehaviour("a member that cannot be hashed in a set / as a key: no non-empty valid value")
    if k == "tuple":
        return tuple(sentinel_value(x, env, mod, sentinel) for x in d[2])
    if k == "union":
        if d[1] != "Optional":
            raise SkipBehaviour("which member of a union takes the value is the union's business (C08)")
        return sentinel_value(d[2][0], env, mod, sentinel)
    if k == "name":
        df = env["defs"][d[1]]
        return getattr(mod, universe.cname(d[1]))(**{f: sentinel_value(t, env, mod, sentinel) for f, t, _ in df[3]})
    raise SkipBehaviour(k)


def occurrences(x, sentinel, depth=0):
    if x is sentinel:
        return 1
    if depth > 12:
        return 0
    if isinstance(x, dict):
        return sum(occurrences(a, sentinel, depth + 1) + occurrences(b, sentinel, depth + 1) for a, b in x.items())
    if isinstance(x, (list, tuple, set, frozenset)):
        return sum(occurrences(a, sentinel, depth + 1) for a in x)
    if hasattr(x, "__dict__") and not isinstance(x, type) and type(x).__module__.startswith("verif_core"):
        return sum(occurrences(a, sentinel, depth + 1) for a in vars(x).values())
    return 0


def check_oracle_spec(spec, stats, shared):
    """PARENT(C1[g], C2[g]) for an oracle-only generic g: constructed, repeatable, and a valid value travels
    through both directions with the object at the g positions handed through as it is"""
    from typelib import marshals, unmarshals
    env = {"module": coregen.new_module_name("c15o"), "defs": {}}
    d = c15_shared.realise(spec, c15_shared.Alloc(env))
    if d is None:
        shared["not_generated"] = shared.get("not_generated", 0) + 1
        return []
    try:
        mod, tys, src = universe.materialise(env, [d])
    except Exception as e:
        shared["not_materialised"] = shared.get("not_materialised", 0) + 1
        return []
    shared["oracle_only"] = shared.get("oracle_only", 0) + 1
    ann = universe.src_ty(d, env)
    base = {"annotation": ann, "category": "shared-sub-annotation", "shape": c15_shared.spec_label(spec),
            "spec": list(spec), "module_source": src}
    out = []
    try:
        t = tys[0]
        impl.clear_caches()
        res = construct_all(t)
        stats["evaluations"] += 1
        bad = {k: v[1] or v[0] for k, v in res.items() if v[0] != "ok"}
        if bad:
            return [dict(base, symptom="construction failed", got=bad, key="C15-construct-" + ann)]
        stats["nontrivial"] += 1
        if bad_fallbacks():
            out.append(dict(base, symptom="a member with a resolvable annotation got the no-op fallback",
                            got=bad_fallbacks()[:3], key="C15-fallback-" + ann))
        second = construct_all(t)
        impl.clear_caches()
        third = construct_all(t)
        if any(v[0] != "ok" for v in list(second.values()) + list(third.values())):
            out.append(dict(base, symptom="construction is not repeatable", key="C15-repeat-" + ann))
        sentinel = SENTINELS[spec[0]]()
        try:
            v = sentinel_value(d, env, mod, sentinel)
        except SkipBehaviour:
            shared["behaviour_skipped"] = shared.get("behaviour_skipped", 0) + 1
            return out
        want = occurrences(v, sentinel)
        has_set = any(s[0] == "seq" and s[1] in ("KSet", "KFrozenset") for s in c15_shared.subdescs_env(d, env))
        # a composite in key position marshals to a list / dict, which no dict can have as a key: what the marshaller
        # of such a mapping does with a non-empty value is not this property's business -- unmarshal side only
        composite_key = any(s[0] == "map" and any(k[0] in ("seq", "tuple", "map", "name") for k in universe.subdescs(s[3], []))
                            for s in c15_shared.subdescs_env(d, env))
        for name, call in (("unmarshal", lambda: unmarshals.unmarshal(t, v)), ("marshal", lambda: marshals.marshal(v, t=t))):
            if composite_key and name == "marshal":
                continue
            impl.clear_caches()
            try:
                with warnings.catch_warnings():
                    warnings.simplefilter("ignore")
                    r = call()
            except BaseException as e:
                out.append(dict(base, symptom="routine of a valid annotation raised on a valid value with pass-through positions",
                                got=f"{name}: {e!r}"[:200], key="C15-behave-" + ann))
                continue
            got = occurrences(r, sentinel)
            if (got < 1) if has_set else (got != want):
                out.append(dict(base, symptom="unresolvable position is not pass-through",
                                got=f"{name}: {r!r}"[:200], key="C15-behave-" + ann))
        shared["behaviour_checked"] = shared.get("behaviour_checked", 0) + 1
    finally:
        impl.drop_module(env["module"])
    return out


def class_topologies(run, stats):
    import itertools as it
    from props import c07
    rng = random.Random(run.seed * 7 + 3)
    fails, topos = [], []
    per = lambda kind: [[(kind, t)] for t in range(3)] + [[(kind, a), (kind, b)] for a, b in it.product(range(3), repeat=2)]
    for kind in c07.EDGES:
        allk = list(it.product(per(kind), repeat=3))
        topos += allk if run.tier == "thorough" else rng.sample(allk, 150)
    topos += list(c07.topologies(3, rng, run.budget(60, 1500)))
    for topo in topos:
        env = c07.make_env(topo, rng)
        try:
            mod, tys, src = universe.materialise(env, [("name", n) for n in range(3)])
        except Exception as e:
            run.notes.append(f"class topology did not materialise: {e!r}")
            continue
        try:
            for n, t in enumerate(tys):
                impl.clear_caches()
                res = construct_all(t)
                stats["evaluations"] += 1
                bad = {k: v[1] or v[0] for k, v in res.items() if v[0] != "ok"}
                if bad:
                    fails.append({"symptom": "construction failed", "annotation": f"N{n}", "category": "class-topology",
                                  "module_source": src, "got": bad, "key": "C15-topology-" + repr(topo)})
                    break
                stats["nontrivial"] += 1
                if bad_fallbacks():
                    fails.append({"symptom": "a member with a resolvable annotation got the no-op fallback",
                                  "annotation": f"N{n}", "category": "class-topology", "module_source": src,
                                  "got": bad_fallbacks()[:3], "key": "C15-topology-fallback-" + repr(topo)})
                    break
        finally:
            impl.drop_module(env["module"])
    return fails


def corpus_cases():
    import glob
    import os
    out = []
    for p in sorted(glob.glob(os.path.join(lib.VERIF, "corpus", "C15", "*.json"))):
        try:
            data = json.load(open(p))
        except Exception:
            continue
        for i, c in enumerate(data if isinstance(data, list) else [data]):
            out.append((f"{os.path.basename(p)}#{i}", c))
    return out


def search(run: lib.Run, broken):
    from typelib import marshals, unmarshals
    groups, records, anns = getattr(run, "_c15", (None, None, None))
    if groups is None:
        groups, records, anns = build_groups(run)
    fails, stats = [], {"evaluations": 0, "nontrivial": 0}
    signal.signal(signal.SIGALRM, _alarm)
    # 0. corpus: minimised regression inputs (replay payloads), run first
    ncorpus = 0
    for fn, payload in corpus_cases():
        ncorpus += 1
        stats["evaluations"] += 1
        try:
            r = replay(payload)
        except BaseException as e:
            run.notes.append(f"corpus case {fn} could not be evaluated: {e!r}")
            continue
        if r.get("fails"):
            fails.append(dict(payload, symptom=payload.get("symptom", "corpus case fails"), corpus=fn,
                              got=r.get("got") or r.get("no_op_fallbacks_at_resolvable_members"),
                              key="C15-corpus-" + fn))
        else:
            stats["nontrivial"] += 1
    # 1. construction on the modelled grammar + repeatability + pass-through
    for g in groups:
        for ri, t in enumerate(g.pytys):
            src = universe.src_ty(g.roots[ri], g.env)
            impl.clear_caches()
            first = construct_all(t)
            stats["evaluations"] += 1
            bad = {k: v for k, v in first.items() if v[0] != "ok"}
            if bad:
                f = {"symptom": "construction failed", "annotation": src, "category": "modelled-grammar",
                     "got": {k: v[1] or v[0] for k, v in bad.items()}, "key": "C15-construct-" + src}
                if g.env["defs"]:
                    f["module_source"] = g.src
                    f["key"] += "@" + g.env["module"]
                if getattr(g, "c15_labels", None):
                    f["category"] = "shared-sub-annotation"
                    f["shape"] = g.c15_labels[ri]
                fails.append(f)
                continue
            stats["nontrivial"] += 1
            fb = bad_fallbacks()
            if fb:
                f = {"symptom": "a member with a resolvable annotation got the no-op fallback", "annotation": src,
                     "category": "modelled-grammar", "got": fb[:3], "key": "C15-fallback-" + src}
                if g.env["defs"]:
                    f["module_source"] = g.src
                    f["key"] += "@" + g.env["module"]
                if getattr(g, "c15_labels", None):
                    f["category"] = "shared-sub-annotation"
                    f["shape"] = g.c15_labels[ri]
                fails.append(f)
            second = construct_all(t)            # served from the caches
            impl.clear_caches()
            third = construct_all(t)             # rebuilt
            if any(v[0] != "ok" for v in list(second.values()) + list(third.values())):
                fails.append({"symptom": "construction is not repeatable", "annotation": src,
                              "category": "modelled-grammar", "key": "C15-repeat-" + src})
    for rec in records:
        # behaviour must not change between the first build, the cached build and a rebuild
        t, g = rec.pytype, rec.group
        for tag, x, obs in rec.inputs[:2]:
            impl.clear_caches()
            again = g.observe("u", rec.ri, x)
            warm = g.observe.__func__(g, "u", rec.ri, x) if False else again
            if again[0] != obs[0] or (again[0] == "ok" and not (coreprop.same(again[1], obs[1]) or repr(again[1]) == repr(obs[1]))):
                fails.append({"symptom": "rebuilding the routine changes the behaviour",
                              "annotation": universe.src_ty(rec.tdesc, g.env), "input": repr(x)[:200],
                              "got": repr(again[1])[:200], "expected": repr(obs[1])[:200],
                              "key": "C15-rebuild-" + universe.src_ty(rec.tdesc, g.env)})
        # pass-through: a root that cannot be resolved returns the very object
        if rec.tdesc[0] == "leaf" and rec.tdesc[1] in PASSTHROUGH:
            o = object()
            impl.clear_caches()
            try:
                if unmarshals.unmarshal(t, o) is not o or marshals.marshal(o, t=t) is not o:
                    fails.append({"symptom": "unresolvable position is not pass-through",
                                  "annotation": rec.tdesc[1], "key": "C15-pass-" + rec.tdesc[1]})
            except BaseException as e:
                fails.append({"symptom": "unresolvable position raised", "annotation": rec.tdesc[1], "got": repr(e),
                              "key": "C15-pass-raise-" + rec.tdesc[1]})
        if rec.tdesc[0] == "seq" and rec.tdesc[3][0] == "leaf" and rec.tdesc[3][1] in PASSTHROUGH:
            o = object()
            impl.clear_caches()
            try:
                r = unmarshals.unmarshal(t, [o])
                if not (len(r) == 1 and list(r)[0] is o):
                    fails.append({"symptom": "unresolvable member position is not pass-through",
                                  "annotation": universe.src_ty(rec.tdesc, g.env), "key": "C15-pass-member-" + rec.tdesc[3][1]})
            except BaseException as e:
                fails.append({"symptom": "unresolvable member position raised",
                              "annotation": universe.src_ty(rec.tdesc, g.env), "got": repr(e),
                              "key": "C15-pass-member-raise-" + rec.tdesc[3][1]})
    # 2. oracle-only constructors
    mod = impl.new_module("verif_c15_oracle", universe.PRELUDE)
    try:
        for cat, src in oracle_sources(run.rng, 0):
            try:
                t = eval(src, mod.__dict__)
            except Exception:
                continue
            impl.clear_caches()
            res = construct_all(t)
            stats["evaluations"] += 1
            bad = {k: v for k, v in res.items() if v[0] != "ok"}
            if bad:
                fails.append({"symptom": "construction failed", "annotation": src, "category": cat.split(":")[0],
                              "position": cat.split(":")[1],
                              "got": {k: v[1] or v[0] for k, v in bad.items()}, "key": "C15-construct-" + src})
            else:
                stats["nontrivial"] += 1
                fails += oracle_behaviour(cat, src, t, mod)
    finally:
        impl.drop_module("verif_c15_oracle")
    # 2b. the shared sub-annotation stratum over the oracle-only generics (Callable[[..], ..], type[X], Literal)
    shared = getattr(run, "_c15_shared", None) or {"oracle_specs": []}
    for spec in shared["oracle_specs"]:
        fails += check_oracle_spec(spec, stats, shared)
    # 2c. rebuild histories in which only some caches are cleared
    hfails, hcounts = c15_hist.stream(run, records, universe.PRELUDE, stats)
    fails += hfails
    # 3. user classes: construction over class graphs (cycles, diamonds, crosswise same-named members), one edge
    #    kind at a time exhaustively over 3 classes with <= 2 members each, plus mixed kinds at random
    fails += class_topologies(run, stats)
    run.search_stats["oracle"] = {
        "evaluations": stats["evaluations"], "distinct_nontrivial": stats["nontrivial"],
        "annotations": len(anns), "failures": len(fails),
        "shared_sub_annotation_stratum": {k: v for k, v in shared.items() if k != "oracle_specs"},
        "rebuild_histories": hcounts, "corpus_cases": ncorpus,
        "rule": "extended constructor grammar: leaves {int, str, Decimal, Any, object, bare list/dict/tuple/set, "
                "typing.List/Dict/Sequence/Mapping, Callable, user Generic[T] parameterised, classes without hints} "
                "+ TypeVars (free/bound/constrained) as generic arguments, closed under list/tuple[...]/dict/Optional/"
                "Sequence/fixed tuple/Union to depth 2 (depth 1 exhaustive, depth 2-3 sampled); plus bare TypeVars, "
                "Callable[[..], ..], type[X], bare Generic classes at root and nested (oracle only). For each: "
                "marshaller/unmarshaller/codec constructed within 10 s, again from the caches and after clearing them, "
                "same behaviour after a rebuild, unresolvable positions return the very object; non-trivial = all "
                "three routines were constructed.  Round 3: (a) shared sub-annotation stratum (c15_shared): "
                "PARENT(C1[g], C2[g]) for generic g, context paths of length 0-2, parents tuple / dict / union / class in "
                "both orders, and the singles C[g] of depth 2 -- modelled g through the same checks as the grammar, "
                "oracle-only g constructed, repeatable and pass-through by identity; (b) rebuild histories "
                "(c15_hist): fresh state, build, cache_clear() of a SUBSET of the caches (every subset of the public "
                "ones, each discoverable cache alone, all but one), build again: same construction outcome and same "
                "behaviour on the inputs",
    }
    coreprop.close(groups)
    return fails


def replay(payload):
    if payload.get("cleared") is not None:
        return c15_hist.replay(payload, universe.PRELUDE)
    if payload.get("spec") is not None:
        sp = payload["spec"]
        spec = (sp[0], tuple(sp[1]), None if sp[2] is None else tuple(sp[2]), None if sp[3] is None else tuple(sp[3]))
        signal.signal(signal.SIGALRM, _alarm)
        fs = check_oracle_spec(spec, {"evaluations": 0, "nontrivial": 0}, {})
        return {"fails": bool(fs), "got": [f.get("got") for f in fs], "symptoms": [f["symptom"] for f in fs]}
    mod = impl.new_module("verif_c15_replay", payload.get("module_source") or universe.PRELUDE)
    try:
        t = eval(payload["annotation"], mod.__dict__)
        impl.clear_caches()
        signal.signal(signal.SIGALRM, _alarm)
        res = construct_all(t)
        bad = {k: v[1] or v[0] for k, v in res.items() if v[0] != "ok"}
        fb = bad_fallbacks()
        return {"fails": bool(bad) or bool(fb), "got": bad, "no_op_fallbacks_at_resolvable_members": fb[:3]}
    finally:
        impl.drop_module("verif_c15_replay")


def reproduces(entry):
    return replay(entry["replay"])["fails"]


def matches(entry, failure):
    m = entry.get("matches", {})
    if failure.get("symptom") != m.get("symptom", failure.get("symptom")):
        return False
    if "category" in m and failure.get("category") != m["category"]:
        return False
    if "annotation_contains" in m and m["annotation_contains"] not in failure.get("annotation", ""):
        return False
    if "error_contains" in m and m["error_contains"] not in json.dumps(failure.get("got", "")):
        return False
    return True
