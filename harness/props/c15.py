"""C15 -- every valid annotation yields working routines (DESIGN 7/C15).

Theorems: Props/C15.v (construction total along the graph contract, pass-through of unresolvable positions,
repeatability) -- in the model the exotic constructors are leaves.  Tie: three-way correspondence on the
extended grammar (exotic leaves inside composites go through the graph / context / proxies).  Oracle: the
statement on the implementation over the extended constructor grammar (exhaustive to depth 1-2, sampled
to depth 3): marshaller / unmarshaller / codec are constructed, unresolvable positions pass through,
building twice and after clearing caches behaves alike.
"""
from __future__ import annotations

import itertools
import json
import random
import signal
import typing
import warnings

import bridgetie
import coregen
import coremodel
import coreprop
import impl
import lib
import universe

COQ_TARGETS = ["theories/Props/C15.vo", "theories/Model/BuildTables.vo", "theories/Model/CoreTables.vo",
               "theories/Props/C05Bridge.vo", "theories/Model/GraphBridgeEq.vo"]
THEOREMS = ["C15_construction_total", "C15_passthrough", "C15_noop_only_at_passthrough", "C15_repeatable"]

# leaves of the extended grammar that the model knows (tie + oracle)
MODEL_LEAVES = ["int", "str", "Any", "object", "list", "dict", "tuple", "set", "typing.List", "typing.Dict",
                "typing.Sequence", "typing.Mapping", "Callable", "XG_int", "XGD_int", "XNoAnn", "XEmpty", "Decimal"]
TVARS = ["XT", "XTB", "XTC"]
PASSTHROUGH = {"Any", "object", "Callable"}
# annotation sources only the oracle uses (the implementation rejects several of them: known findings)
ORACLE_ONLY = {
    "bare-typevar": ["XT", "XTB", "XTC"],
    "callable-args": ["typing.Callable[[int], str]", "collections.abc.Callable[[int], str]"],
    "callable-ellipsis": ["typing.Callable[..., int]"],
    "type-of": ["type[int]", "typing.Type[int]", "type"],
    "bare-generic-class": ["XG", "XGD"],
}


def prove(run: lib.Run):
    run.check_props("Props/C15.v", THEOREMS)
    run.assumptions += [
        "C15: the exotic constructors (Any, object, TypeVar, Callable, bare containers, user generics, classes "
        "without hints) are leaf types of the model; that the implementation's dispatch accepts them is decided "
        "by the tie and the oracle only",
    ]


def leaf_desc(name):
    if name in TVARS:
        return ("tvar", name)
    return ("leaf", name)


def depth1(inner_pool):
    out = []
    for x in inner_pool:
        out.append(("seq", "KList", "list[{}]", x))
        out.append(("seq", "KTuple", "tuple[{}, ...]", x))
        out.append(("map", "KDict", "dict[{}, {}]", ("leaf", "str"), x))
        if x[0] != "union":          # typing flattens nested unions
            out.append(("union", "Optional", [x, ("none",)]))
        out.append(("seq", "KList", "typing.Sequence[{}]", x))
    return out


def binary(pool_a, pool_b):
    out = []
    for a, b in itertools.product(pool_a, pool_b):
        out.append(("tuple", "tuple[{}]", [a, b]))
        if a != b and a[0] != "union" and b[0] != "union":
            out.append(("union", "Union", [a, b]))
    return out


def grammar(run, rng):
    leaves = [leaf_desc(n) for n in MODEL_LEAVES]
    member_leaves = leaves + [leaf_desc(t) for t in TVARS]      # TypeVars only as generic arguments
    d1 = depth1(member_leaves) + binary(member_leaves[:10], member_leaves)
    d2 = depth1(d1)
    # variadic tuples used more than once
    d1.append(("tuple", "tuple[{}]", [("seq", "KTuple", "tuple[{}, ...]", ("leaf", "int")),
                                      ("seq", "KTuple", "tuple[{}, ...]", ("leaf", "str"))]))
    full = leaves + d1 + d2
    n = run.budget(520, 12000)
    if len(full) > n:
        keep = leaves + d1[:: max(1, len(d1) * 3 // n)]
        rest = [x for x in full if x not in keep]
        full = keep + rng.sample(rest, max(0, n - len(keep)))
    for _ in range(run.budget(60, 1500)):               # depth 3, sampled
        full.append(rng.choice(depth1([rng.choice(d2)])))
    return full


XVALUES = {
    "object": [1, "s", None, [1]], "tuple": [(1, "a"), ()], "set": [{1, 2}, set()], "frozenset": [frozenset({1})],
    "typing.List": [[1, "a"], []], "typing.Dict": [{"a": 1}], "typing.Set": [{1}], "typing.Tuple": [(1, 2)],
    "typing.Sequence": [[1, 2]], "typing.Mapping": [{"k": "v"}], "Callable": [len, print], "Hashable": ["h", 3],
}


def gen_value(rng, t, env, mod, depth=2):
    k = t[0]
    if k == "tvar":
        return gen_value(rng, universe.TVARS[t[1]], env, mod, depth)
    if k == "leaf":
        n = t[1]
        if n in XVALUES:
            return rng.choice(XVALUES[n])
        if n == "XG_int":
            return mod.XG(rng.choice([1, 2]))
        if n == "XGD_int":
            return mod.XGD(rng.choice([1, 2]))
        if n == "XNoAnn":
            return mod.XNoAnn(rng.choice([1, "x"]), 2)
        if n == "XEmpty":
            return mod.XEmpty()
        return coregen.gen_value(rng, t, env, mod, depth)
    if k == "seq":
        vals = [gen_value(rng, t[3], env, mod, depth - 1) for _ in range(rng.randint(0, 2) if depth > 0 else 0)]
        return universe.SEQ_PY[t[1]](vals)
    if k == "map":
        return {f"k{i}": gen_value(rng, t[4], env, mod, depth - 1) for i in range(rng.randint(0, 2) if depth > 0 else 0)}
    if k == "tuple":
        return tuple(gen_value(rng, x, env, mod, depth - 1) for x in t[2])
    if k == "union":
        m = rng.choice(t[2])
        return None if m == ("none",) else gen_value(rng, m, env, mod, depth - 1)
    return coregen.gen_value(rng, t, env, mod, depth)


def build_groups(run):
    rng = random.Random(run.seed * 13 + 5)
    anns = grammar(run, rng)
    groups, records = [], []
    chunk = 40
    for i in range(0, len(anns), chunk):
        env = {"module": coregen.new_module_name("c15"), "defs": {}}
        roots = anns[i:i + chunk]
        try:
            g = coremodel.Group(env, roots, coreprop.suppressed())
        except Exception as e:
            run.notes.append(f"materialise failed: {e!r}")
            continue
        for ri, r in enumerate(roots):
            try:
                v = gen_value(rng, r, env, g.mod)
            except Exception as e:
                run.notes.append(f"value generation failed for {r!r}: {e!r}")
                continue
            rec = coreprop.Record(g, ri, v)
            rec.wire = g.add("m", ri, v)
            pool = [("valid", v)]
            if rec.wire[0] == "ok":
                pool.append(("wire", rec.wire[1]))
                if coregen.jsonable(rec.wire[1]):
                    pool.append(("json", json.dumps(rec.wire[1])))
            pool.append(("unrelated", rng.choice(coregen.UNRELATED)))
            for tag, x in pool:
                rec.inputs.append((tag, x, g.add("u", ri, x)))
            records.append(rec)
        groups.append(g)
    return groups, records, anns


def correspond(run: lib.Run):
    groups, records, anns = build_groups(run)
    run._c15 = (groups, records, anns)
    problems = []
    for g in groups:
        for t in g.pytys:
            g.collect_orders(t)
        problems += g.order_problems
    run.oblige("tie:every observed graph node has a model annotation", not problems, "; ".join(problems[:3]))
    bs, bm, ba = coremodel.evaluate_groups_mech(run, groups, "c15", per_file=3)
    ncases = sum(len(g.cases) for g in groups)
    distinct = len({(g.env["module"], c[0], c[1], c[2]) for g in groups for c in g.cases})
    heads = {}
    for a in anns:
        heads[a[0]] = heads.get(a[0], 0) + 1
    dist = {"annotations": len(anns), "heads": heads,
            "observed_raise": sum(1 for g in groups for c in g.cases if "Raise" in c[3])}
    run.record_corr("reference-semantics-vs-implementation", ncases, [g.cases[i][4] for g, i in bs], distinct, dist)
    run.record_corr("mechanism-on-observed-order-vs-implementation", ncases, [g.cases[i][4] for g, i in bm], distinct, dist)
    run.record_corr("mechanism-vs-reference-semantics", ncases, [g.cases[i][4] for g, i in ba], distinct, dist)
    if groups and groups[0].cases:
        run.samples.append(groups[0].cases[-1][4])
    # the order contract assumed by this property's theorems is decided through the graph model (notes/bridge.md)
    bridgetie.bridge_obligations(run, groups, "c15")


# ----------------------------------------------------------------------------------
# oracle
# ----------------------------------------------------------------------------------

class Timeout(Exception):
    pass


def _alarm(signum, frame):
    raise Timeout()


def construct_all(t):
    from typelib import codec, marshals, unmarshals
    out = {}
    for name, f in (("unmarshaller", unmarshals.unmarshaller), ("marshaller", marshals.marshaller), ("codec", codec)):
        signal.alarm(10)
        try:
            with warnings.catch_warnings():
                warnings.simplefilter("ignore")
                out[name] = ("ok", f(t))
        except Timeout:
            out[name] = ("timeout", None)
        except RecursionError:
            out[name] = ("raise", "RecursionError")
        except BaseException as e:
            out[name] = ("raise", f"{type(e).__name__}: {str(e)[:80]}")
        finally:
            signal.alarm(0)
    return out


def category(src):
    for cat, items in ORACLE_ONLY.items():
        if any(i in src for i in items if i not in ("XT", "XTB", "XTC", "XG", "XGD", "type")):
            return cat
    return None


def oracle_sources(rng, n):
    """annotation sources for the oracle-only constructors, bare and nested"""
    out = []
    for cat, items in ORACLE_ONLY.items():
        for s in items:
            out.append((cat + ":root", s))
            if cat != "bare-typevar":
                out.append((cat + ":list", f"list[{s}]"))
                out.append((cat + ":dict-value", f"dict[str, {s}]"))
                out.append((cat + ":optional", f"typing.Optional[{s}]"))
                out.append((cat + ":tuple", f"tuple[int, {s}]"))
    out.append(("empty-tuple:root", "tuple[()]"))
    return out


def oracle_behaviour(cat, src, t, mod):
    """what the constructed routines of an oracle-only annotation must do: an unresolvable position hands the
    very object through; a TypeVar stands for its bound / constraints / Any; tuple[()] is the empty fixed tuple"""
    from typelib import marshals, unmarshals
    family, pos = cat.split(":")
    out = []

    def fail(sym, got=None):
        out.append({"symptom": sym, "annotation": src, "category": family, "position": pos, "got": got,
                    "key": "C15-behave-" + src})

    def both(x):
        with warnings.catch_warnings():
            warnings.simplefilter("ignore")
            impl.clear_caches()
            a = unmarshals.unmarshal(t, x)
            b = marshals.marshal(x, t=t)
        return a, b
    o = object()
    wrap = {"root": lambda v: v, "list": lambda v: [v], "dict-value": lambda v: {"k": v}, "optional": lambda v: v,
            "tuple": lambda v: (1, v)}[pos]
    inner = {"root": lambda r: r, "list": lambda r: list(r)[0], "dict-value": lambda r: r["k"], "optional": lambda r: r,
             "tuple": lambda r: list(r)[1]}[pos]
    try:
        if family in ("callable-args", "callable-ellipsis", "type-of") or src in ("XT", "list[XT]"):
            a, b = both(wrap(o))
            if inner(a) is not o or inner(b) is not o:
                fail("unresolvable position is not pass-through", repr((a, b))[:200])
        elif src == "XTB":
            a, b = both("5")
            if a != 5 or type(a) is not int:
                fail("a bound TypeVar does not stand for its bound", repr(a))
        elif src == "XTC":
            a, _ = both("5")
            a2, _ = both("x")
            if (a, a2) != (5, "x"):
                fail("a constrained TypeVar does not stand for the union of its constraints", repr((a, a2)))
        elif family == "bare-generic-class":
            cls = mod.XG if "XGD" not in src else mod.XGD
            a, b = both(wrap(cls(o)))
            if not isinstance(inner(a), cls) or inner(a).v is not o or inner(b) != {"v": o}:
                fail("member annotated with a free TypeVar is not pass-through", repr((a, b))[:200])
            a, _ = both(wrap({"v": o}))
            if not isinstance(inner(a), cls) or inner(a).v is not o:
                fail("member annotated with a free TypeVar is not pass-through (mapping input)", repr(a)[:200])
        elif family == "empty-tuple":
            a, b = both([])
            a2, _ = both("[]")
            if a != () or a2 != () or b != []:
                fail("tuple[()] is not the fixed tuple without members", repr((a, a2, b)))
    except BaseException as e:
        fail("routine of a valid annotation raised on a pass-through position", repr(e)[:200])
    return out


def class_topologies(run, stats):
    import itertools as it
    from props import c07
    rng = random.Random(run.seed * 7 + 3)
    fails, topos = [], []
    per = lambda kind: [[(kind, t)] for t in range(3)] + [[(kind, a), (kind, b)] for a, b in it.product(range(3), repeat=2)]
    for kind in c07.EDGES:
        allk = list(it.product(per(kind), repeat=3))
        topos += allk if run.tier == "thorough" else rng.sample(allk, 150)
    topos += list(c07.topologies(3, rng, run.budget(60, 1500)))
    for topo in topos:
        env = c07.make_env(topo, rng)
        try:
            mod, tys, src = universe.materialise(env, [("name", n) for n in range(3)])
        except Exception as e:
            run.notes.append(f"class topology did not materialise: {e!r}")
            continue
        try:
            for n, t in enumerate(tys):
                impl.clear_caches()
                res = construct_all(t)
                stats["evaluations"] += 1
                bad = {k: v[1] or v[0] for k, v in res.items() if v[0] != "ok"}
                if bad:
                    fails.append({"symptom": "construction failed", "annotation": f"N{n}", "category": "class-topology",
                                  "module_source": src, "got": bad, "key": "C15-topology-" + repr(topo)})
                    break
                stats["nontrivial"] += 1
        finally:
            impl.drop_module(env["module"])
    return fails


def search(run: lib.Run, broken):
    from typelib import marshals, unmarshals
    groups, records, anns = getattr(run, "_c15", (None, None, None))
    if groups is None:
        groups, records, anns = build_groups(run)
    fails, stats = [], {"evaluations": 0, "nontrivial": 0}
    signal.signal(signal.SIGALRM, _alarm)
    # 1. construction on the modelled grammar + repeatability + pass-through
    for g in groups:
        for ri, t in enumerate(g.pytys):
            src = universe.src_ty(g.roots[ri], g.env)
            impl.clear_caches()
            first = construct_all(t)
            stats["evaluations"] += 1
            bad = {k: v for k, v in first.items() if v[0] != "ok"}
            if bad:
                fails.append({"symptom": "construction failed", "annotation": src, "category": "modelled-grammar",
                              "got": {k: v[1] or v[0] for k, v in bad.items()}, "key": "C15-construct-" + src})
                continue
            stats["nontrivial"] += 1
            second = construct_all(t)            # served from the caches
            impl.clear_caches()
            third = construct_all(t)             # rebuilt
            if any(v[0] != "ok" for v in list(second.values()) + list(third.values())):
                fails.append({"symptom": "construction is not repeatable", "annotation": src,
                              "category": "modelled-grammar", "key": "C15-repeat-" + src})
    for rec in records:
        # behaviour must not change between the first build, the cached build and a rebuild
        t, g = rec.pytype, rec.group
        for tag, x, obs in rec.inputs[:2]:
            impl.clear_caches()
            again = g.observe("u", rec.ri, x)
            warm = g.observe.__func__(g, "u", rec.ri, x) if False else again
            if again[0] != obs[0] or (again[0] == "ok" and not (coreprop.same(again[1], obs[1]) or repr(again[1]) == repr(obs[1]))):
                fails.append({"symptom": "rebuilding the routine changes the behaviour",
                              "annotation": universe.src_ty(rec.tdesc, g.env), "input": repr(x)[:200],
                              "got": repr(again[1])[:200], "expected": repr(obs[1])[:200],
                              "key": "C15-rebuild-" + universe.src_ty(rec.tdesc, g.env)})
        # pass-through: a root that cannot be resolved returns the very object
        if rec.tdesc[0] == "leaf" and rec.tdesc[1] in PASSTHROUGH:
            o = object()
            impl.clear_caches()
            try:
                if unmarshals.unmarshal(t, o) is not o or marshals.marshal(o, t=t) is not o:
                    fails.append({"symptom": "unresolvable position is not pass-through",
                                  "annotation": rec.tdesc[1], "key": "C15-pass-" + rec.tdesc[1]})
            except BaseException as e:
                fails.append({"symptom": "unresolvable position raised", "annotation": rec.tdesc[1], "got": repr(e),
                              "key": "C15-pass-raise-" + rec.tdesc[1]})
        if rec.tdesc[0] == "seq" and rec.tdesc[3][0] == "leaf" and rec.tdesc[3][1] in PASSTHROUGH:
            o = object()
            impl.clear_caches()
            try:
                r = unmarshals.unmarshal(t, [o])
                if not (len(r) == 1 and list(r)[0] is o):
                    fails.append({"symptom": "unresolvable member position is not pass-through",
                                  "annotation": universe.src_ty(rec.tdesc, g.env), "key": "C15-pass-member-" + rec.tdesc[3][1]})
            except BaseException as e:
                fails.append({"symptom": "unresolvable member position raised",
                              "annotation": universe.src_ty(rec.tdesc, g.env), "got": repr(e),
                              "key": "C15-pass-member-raise-" + rec.tdesc[3][1]})
    # 2. oracle-only constructors
    mod = impl.new_module("verif_c15_oracle", universe.PRELUDE)
    try:
        for cat, src in oracle_sources(run.rng, 0):
            try:
                t = eval(src, mod.__dict__)
            except Exception:
                continue
            impl.clear_caches()
            res = construct_all(t)
            stats["evaluations"] += 1
            bad = {k: v for k, v in res.items() if v[0] != "ok"}
            if bad:
                fails.append({"symptom": "construction failed", "annotation": src, "category": cat.split(":")[0],
                              "position": cat.split(":")[1],
                              "got": {k: v[1] or v[0] for k, v in bad.items()}, "key": "C15-construct-" + src})
            else:
                stats["nontrivial"] += 1
                fails += oracle_behaviour(cat, src, t, mod)
    finally:
        impl.drop_module("verif_c15_oracle")
    # 3. user classes: construction over class graphs (cycles, diamonds, crosswise same-named members), one edge
    #    kind at a time exhaustively over 3 classes with <= 2 members each, plus mixed kinds at random
    fails += class_topologies(run, stats)
    run.search_stats["oracle"] = {
        "evaluations": stats["evaluations"], "distinct_nontrivial": stats["nontrivial"],
        "annotations": len(anns), "failures": len(fails),
        "rule": "extended constructor grammar: leaves {int, str, Decimal, Any, object, bare list/dict/tuple/set, "
                "typing.List/Dict/Sequence/Mapping, Callable, user Generic[T] parameterised, classes without hints} "
                "+ TypeVars (free/bound/constrained) as generic arguments, closed under list/tuple[...]/dict/Optional/"
                "Sequence/fixed tuple/Union to depth 2 (depth 1 exhaustive, depth 2-3 sampled); plus bare TypeVars, "
                "Callable[[..], ..], type[X], bare Generic classes at root and nested (oracle only). For each: "
                "marshaller/unmarshaller/codec constructed within 10 s, again from the caches and after clearing them, "
                "same behaviour after a rebuild, unresolvable positions return the very object; non-trivial = all "
                "three routines were constructed",
    }
    coreprop.close(groups)
    return fails


def replay(payload):
    mod = impl.new_module("verif_c15_replay", payload.get("module_source") or universe.PRELUDE)
    try:
        t = eval(payload["annotation"], mod.__dict__)
        impl.clear_caches()
        signal.signal(signal.SIGALRM, _alarm)
        res = construct_all(t)
        bad = {k: v[1] or v[0] for k, v in res.items() if v[0] != "ok"}
        return {"fails": bool(bad), "got": bad}
    finally:
        impl.drop_module("verif_c15_replay")


def reproduces(entry):
    return replay(entry["replay"])["fails"]


def matches(entry, failure):
    m = entry.get("matches", {})
    if failure.get("symptom") != m.get("symptom", failure.get("symptom")):
        return False
    if "category" in m and failure.get("category") != m["category"]:
        return False
    if "annotation_contains" in m and m["annotation_contains"] not in failure.get("annotation", ""):
        return False
    if "error_contains" in m and m["error_contains"] not in json.dumps(failure.get("got", "")):
        return False
    return True
