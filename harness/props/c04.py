"""C04 -- scalar values survive their text and numeric wire forms exactly (DESIGN 7/C04, notes/C04.md)."""
from __future__ import annotations

import ast
import datetime as D
import decimal
import enum
import fractions
import json
import os
import pathlib
import random
import re
import uuid

import c04_families
import impl
import lib
from lib import coq_list, coq_Z

COQ_TARGETS = ["theories/Props/C04.vo", "theories/Model/ScalarsEq.vo", "theories/Model/IsoTextEq.vo",
               "theories/Model/IsoHistoryEq.vo"]
COQ_TARGETS = COQ_TARGETS + ["theories/Props/SerdesAstTime.vo"]
COQ_TARGETS = COQ_TARGETS + ["theories/Props/LeafBridge.vo", "theories/Model/LeafBridgeEq.vo"]      # = leaftie.COQ_TARGETS (leaftie imports this module)
THEOREMS = ["C04_dur_wellformed", "C04_dur_reader", "C04_refuted_zero_malformed", "C04_not_full",
            "C04_refuted_weeks", "C04_refuted_negative", "C04_iso_cache_transparent", "C04_history_transparent",
            "C04_history_ops", "C04_history_scalar_ops", "C04_dur_roundtrip",
            "C04_text_int", "C04_text_float", "C04_text_decimal", "C04_text_fraction", "C04_text_uuid",
            "C04_text_path", "C04_text_enum", "C04_text_date", "C04_text_datetime", "C04_text_time",
            "C04_text_bool", "C04_subclass_instances",
            "C04_num_to_temporal", "C04_temporal_to_num", "C04_temporal_to_text",
            "C04_date_reader", "C04_time_reader", "C04_datetime_reader",
            "C04_date_law_from_reader", "C04_datetime_law_from_reader", "C04_time_law_from_reader"]
# non-vacuity: a concrete runtime satisfies RuntimeLaws, and text theorems instantiated on it (Examples of Props/C04.v)
EXAMPLES = ["C04_runtime_laws_satisfiable", "C04_text_int_on_toy", "C04_dur_roundtrip_on_toy", "C04_text_date_on_toy",
            "C04_text_enum_on_toy", "C04_history_example", "C04_history_scalar_example", "C04_subclass_on_toy"]
UTC = D.timezone.utc
EPOCH = D.datetime(1970, 1, 1, tzinfo=UTC)
TD = D.timedelta
HDR = ("From Coq Require Import List ZArith NArith Ascii String. Import ListNotations.\n"
       "Require Import TL.Model.Duration TL.Model.Temporal TL.Model.Scalars TL.Model.ScalarsEq.\n"
       "Require Import TL.Model.IsoText TL.Model.IsoTextEq.\n"
       "Require Import TL.Model.ScalarsToy TL.Model.IsoHistory TL.Model.IsoHistoryEq.\n"
       "Open Scope Z_scope.\n"
       "Definition sb (l : list N) : string := string_of_list_ascii (map ascii_of_N l).\n")


_ORDER = ["Model/Duration", "Model/Temporal", "Model/Scalars", "Model/ScalarsEq", "Proofs/DurationLemmas",
          "Proofs/ScalarsLemmas", "Model/IsoText", "Model/IsoTextEq", "Proofs/IsoTextLemmas", "Model/ScalarsToy",
          "Proofs/ScalarsToyLemmas", "Model/IsoHistory", "Proofs/IsoHistoryLemmas", "Model/IsoHistoryEq", "Props/C04"]     # a linear extension of the Require order of C04's files


def _prebuild():
    """lib.base_make hands make relative targets while the generated dependency file names absolute paths, so make
    does not notice that a *dependency* of a target changed.  Recompile C04's own files in dependency order when
    a source is newer than its .vo (or an earlier file was rebuilt); no-op when up to date."""
    import fcntl
    os.makedirs(lib.COQ, exist_ok=True)
    with open(os.path.join(lib.COQ, ".lock"), "w") as lock:
        fcntl.flock(lock, fcntl.LOCK_EX)
        try:
            dirty = False
            for m in _ORDER:
                v = os.path.join(lib.THEORIES, m + ".v")
                vo = v + "o"
                if dirty or not os.path.exists(vo) or os.path.getmtime(vo) < os.path.getmtime(v):
                    dirty = True
                    rc, out, err = lib.sh(["coqc", "-q", "-Q", lib.THEORIES, "TL", v], timeout=600, cwd=lib.COQ)
                    if rc != 0:
                        if os.path.exists(vo):
                            os.unlink(vo)         # base_make then reports the failing file
                        break
        finally:
            fcntl.flock(lock, fcntl.LOCK_UN)


_prebuild()


class EInt(enum.Enum):
    one = 1
    two = 2


class EStr(enum.Enum):
    one = "one"
    num = "1"
    nul = "null"
    lst = "[1]"
    uni = "\u00e9t\u00e9"


class ESMix(str, enum.Enum):
    a = "a"
    five = "5"


class EIntEnum(enum.IntEnum):
    x = 7
    y = -3


class EBig(enum.Enum):
    """int values at and beyond the 64-bit boundaries (the JSON decoder in use reads integers beyond 64 bits as floats)"""
    max64 = 2 ** 63 - 1
    min64 = -2 ** 63
    umax = 2 ** 64 - 1
    over = 2 ** 64
    huge = 12345678901234567890123
    under = -2 ** 63 - 1


class EBigInt(enum.IntEnum):
    umax = 2 ** 64 - 1
    over = 2 ** 64
    under = -2 ** 70


ENUMS = [EInt, EStr, ESMix, EIntEnum]
# the oracle also judges enums with int values at / beyond the 64-bit boundaries.  They are NOT given to the
# model/implementation correspondence: the scalar model reads integer text exactly (Z) while the JSON decoder in use reads
# integers beyond 64 bits as floats -- that difference IS the listed finding KF-C04-enum-int-beyond-64-bits.
ENUMS_ORACLE = ENUMS + [EBig, EBigInt]
CARRIERS = ["CStr", "CBytes", "CBytearray", "CMvBytes", "CMvBytearray"]
HASHABLE = ["CStr", "CBytes", "CMvBytes"]


def carry(c: str, s: str):
    b = s.encode("utf-8")
    return {"CStr": lambda: s, "CBytes": lambda: b, "CBytearray": lambda: bytearray(b),
            "CMvBytes": lambda: memoryview(b), "CMvBytearray": lambda: memoryview(bytearray(b))}[c]()


# ----------------------------------------------------------------------------------
# findings: this module reads findings.d/C04.json itself (known_findings.json is merged by the lead)
# ----------------------------------------------------------------------------------

def _own_findings():
    p = os.path.join(lib.VERIF, "findings.d", "C04.json")
    return json.load(open(p)).get("open", []) if os.path.exists(p) else []


def _patch_findings(run):
    base = run.findings

    def findings():
        seen = {e["id"] for e in base()}
        return base() + [e for e in _own_findings() if e["id"] not in seen]
    run.findings = findings


def prove(run: lib.Run):
    _patch_findings(run)
    run.check_props("Props/C04.v", THEOREMS)
    src = open(os.path.join(lib.THEORIES, "Props", "C04.v")).read()
    missing = [e for e in EXAMPLES if not re.search(r"Example\s+%s\b" % e, src) or f"Print Assumptions {e}." not in src]
    run.oblige("props:non-vacuity Examples (RuntimeLaws toy_rt and instances) stated and under Print Assumptions",
               not missing, "missing: " + ", ".join(missing))
    run.assumptions += [
        "C04: interpreter/third-party behaviour (int/float/Decimal/Fraction/UUID/Path/Enum constructors, str(), "
        "date/time/datetime.isoformat(), pendulum.parse, time.fromisoformat, datetime.fromtimestamp, timestamp(), "
        "timedelta(seconds=), total_seconds(), UTF-8) enters the theorems as the record RuntimeLaws rt; the laws are "
        "sampled against the interpreter on every run (runtime_laws_sampled), never proved",
        "C04: serdes.load is owned by C14: C04_text_uuid / C04_text_enum assume what it returns on hashable carriers",
        "C04: Model/Duration.v (the writer serdes._isoduration, character by character) and Model/Scalars.v (branch "
        "structure of the scalar unmarshallers, dateparse, _nomalize_dt, _normalize_number, unixtime) are hand-written "
        "and tied by correspondence only",
    ]


# ----------------------------------------------------------------------------------
# emission
# ----------------------------------------------------------------------------------

def cs(s) -> str:
    """Coq string for a Python str (as its UTF-8 bytes) or bytes-like."""
    b = s.encode("utf-8") if isinstance(s, str) else bytes(s)
    if all(32 <= c < 127 and c != 34 for c in b):
        return '"' + b.decode() + '"%string'
    return "(sb " + coq_list([f"{c}%N" for c in b], "N") + ")"


def fields(td: TD):
    td = +td          # the plain timedelta: a pendulum.Duration answers .seconds/.microseconds from floats
    return td.days, td.seconds, td.microseconds


def off_of(x):
    o = x.utcoffset()
    return "None" if o is None else f"(Some {coq_Z(o.days * 86400 + o.seconds)})"


def emit_dtf(x: D.datetime) -> str:
    return ("{| dy := %d; dmo := %d; dd := %d; dh := %d; dmi := %d; ds := %d; dus := %d; doff := %s; dfold := %d |}"
            % (x.year, x.month, x.day, x.hour, x.minute, x.second, x.microsecond, off_of(x), x.fold))


def emit_tmf(x: D.time) -> str:
    return ("{| th := %d; tmi := %d; ts := %d; tus := %d; toff := %s; tfold := %d |}"
            % (x.hour, x.minute, x.second, x.microsecond, off_of(x), x.fold))


def tok(x) -> str:
    if isinstance(x, enum.Enum):
        return type(x).__name__ + "." + x.name
    if isinstance(x, float):
        return x.hex()
    if isinstance(x, pathlib.PurePath):
        return type(x).__name__ + ":" + str(x)
    if isinstance(x, re.Pattern):
        return repr(x)
    return str(x)


def emit_val(x) -> str:
    if x is None:
        return "VNone"
    if isinstance(x, enum.Enum):
        return f"(VEnum {cs(tok(x))})"
    if isinstance(x, bool):
        return f"(VBool {lib.coq_bool(x)})"
    if isinstance(x, int):
        return f"(VInt {coq_Z(x)})"
    if isinstance(x, float):
        return f"(VFloat {cs(tok(x))})"
    if isinstance(x, str):
        return f"(VText CStr {cs(x)})"
    if isinstance(x, bytes):
        return f"(VText CBytes {cs(x)})"
    if isinstance(x, bytearray):
        return f"(VText CBytearray {cs(x)})"
    if isinstance(x, memoryview):
        return f"(VText {'CMvBytes' if x.readonly else 'CMvBytearray'} {cs(x.tobytes())})"
    if isinstance(x, decimal.Decimal):
        return f"(VDec {cs(tok(x))})"
    if isinstance(x, fractions.Fraction):
        return f"(VFrac {cs(tok(x))})"
    if isinstance(x, uuid.UUID):
        return f"(VUuid {cs(tok(x))})"
    if isinstance(x, pathlib.PurePath):
        return f"(VPath {cs(tok(x))})"
    if isinstance(x, D.datetime):
        return f"(VDateTime {emit_dtf(x)})"
    if isinstance(x, D.date):
        return f"(VDate {x.year} {x.month} {x.day})"
    if isinstance(x, D.time):
        return f"(VTime {emit_tmf(x)})"
    if isinstance(x, TD):
        d, s, u = fields(x)
        return f"(VTimeDelta {coq_Z(d)} {s} {u})"
    if isinstance(x, re.Pattern):
        return f"(VPattern {cs(tok(x))})"
    return f"(VOther {cs(repr(x)[:60])})"


def exn(e: BaseException) -> str:
    if isinstance(e, ValueError):
        return "EValue"
    if isinstance(e, TypeError):
        return "EType"
    if isinstance(e, OverflowError):
        return "EOverflow"
    return "EOther"


def emit_res(f, emit, ty) -> str:
    """Apply f(); Coq res term of its result."""
    try:
        r = f()
    except Exception as e:
        return f"(@Raise {ty} {exn(e)})"
    return f"(Ok {emit(r)})"


def emit_parsed(p) -> str:
    if isinstance(p, D.datetime):
        return f"(PDT {emit_dtf(p)})"
    if isinstance(p, TD):
        d, s, u = fields(p)
        return f"(PDur {coq_Z(d)} {s} {u})"
    raise TypeError(f"unexpected parse result {p!r}")


def py_load(x):
    """serdes.load re-stated with the interpreter only (C14 owns the real one)."""
    if not isinstance(x, (str, bytes, bytearray, memoryview)):
        return x
    hash(x)     # the real one is memoised: unhashable carriers raise
    try:
        return json.loads(x.tobytes() if isinstance(x, memoryview) else x)
    except ValueError:
        pass
    s = x if isinstance(x, str) else bytes(x).decode("utf-8")
    try:
        return ast.literal_eval(s)
    except (ValueError, TypeError, SyntaxError):
        return s


# ----------------------------------------------------------------------------------
# generators
# ----------------------------------------------------------------------------------

def gen_td(rng: random.Random) -> TD:
    days = rng.choice([0, 0, 1, 6, 7, 8, 14, 21, 365, 999999999, -1, -7, -8, -999999999,
                       rng.randint(-999999999, 999999999), rng.randint(-1000, 1000), 7 * rng.randint(-10 ** 8, 10 ** 8)])
    secs = rng.choice([0, 0, 1, 59, 60, 61, 3599, 3600, 3661, 86399, rng.randint(0, 86399)])
    us = rng.choice([0, 0, 1, 10, 999999, 500000, 999990, rng.randint(0, 999999)])
    if days == 999999999 and rng.random() < 0.5:
        secs, us = 86399, 999999
    return TD(days=days, seconds=secs, microseconds=us)


def gen_off(rng):
    m = rng.choice([0, 0, 330, -330, 60, -60, 1439, -1439, 845, rng.randint(-1439, 1439)])
    return D.timezone(TD(minutes=m))


def gen_date(rng):
    return rng.choice([D.date.min, D.date.max, D.date(1970, 1, 1), D.date(1969, 12, 31), D.date(2024, 2, 29),
                       D.date.fromordinal(rng.randint(1, D.date.max.toordinal()))])


def gen_time(rng):
    return D.time(rng.choice([0, 23, rng.randint(0, 23)]), rng.choice([0, 59, rng.randint(0, 59)]),
                  rng.choice([0, 59, rng.randint(0, 59)]), rng.choice([0, 0, 1, 999999, 500000, rng.randint(0, 999999)]),
                  tzinfo=gen_off(rng), fold=rng.choice([0, 0, 1]))


def gen_datetime(rng):
    d, t = gen_date(rng), gen_time(rng)
    if d.year in (1, 9999):           # keep the UTC instant inside the supported years
        d = d.replace(year=rng.randint(2, 9998))
    return D.datetime.combine(d, t)


def gen_int(rng):
    return rng.choice([0, 1, -1, 7, 10, 2 ** 63, -2 ** 64, 10 ** 30, -10 ** 40 + 1, rng.randint(-10 ** 6, 10 ** 6),
                       rng.randint(-10 ** 25, 10 ** 25)])


def gen_float(rng):
    return rng.choice([0.0, -0.0, 1.0, 0.1, -2.5, 1e22, 1e-7, 5e-324, 1.7976931348623157e308, 1 / 3,
                       rng.uniform(-1e6, 1e6), rng.random() * 10 ** rng.randint(-20, 20)])


def gen_dec(rng):
    return rng.choice([decimal.Decimal("0"), decimal.Decimal("-0"), decimal.Decimal("1.0"), decimal.Decimal("1.00"),
                       decimal.Decimal("1E+30"), decimal.Decimal("-1.5E-400"), decimal.Decimal("123456789.123456789012345678901234567890"),
                       decimal.Decimal(rng.randint(-10 ** 12, 10 ** 12)).scaleb(rng.randint(-50, 50))])


def gen_frac(rng):
    return rng.choice([fractions.Fraction(0), fractions.Fraction(1, 2), fractions.Fraction(-7, 3), fractions.Fraction(10 ** 20, 3),
                       fractions.Fraction(rng.randint(-10 ** 9, 10 ** 9), rng.randint(1, 10 ** 9))])


def gen_uuid(rng):
    return rng.choice([uuid.UUID(int=0), uuid.UUID(int=2 ** 128 - 1), uuid.UUID(int=rng.getrandbits(128)),
                       uuid.UUID("12345678-1234-5678-1234-567812345678"), uuid.UUID("00000000-0000-0000-0000-000000001e10")])


def gen_path(rng):
    cls = rng.choice([pathlib.PurePosixPath, pathlib.PureWindowsPath, pathlib.Path])
    s = rng.choice(["/my/path", "rel/a.txt", ".", "/", "1", "1.5", "null", "true", "[1]", '"q"', "None", "(1, 2)", "1e5",
                    "a b", "\u00e9t\u00e9/\u65e5\u672c", "C:/x/y", "-Px", "{}"])
    return cls(s)


def gen_epoch(rng):
    return rng.choice([0, 1, -1, 86399, 86400, 1700000000, -2208988800, 253402300799, -62135596800 + 86400,
                       rng.randint(-10 ** 10, 10 ** 10), 0.5, 1.5, -0.25, 1e-6, 1700000000.123456, 0.9999995,
                       rng.uniform(-10 ** 9, 10 ** 10), 2.5e-7])


# ----------------------------------------------------------------------------------
# correspondence
# ----------------------------------------------------------------------------------

def eval_shards(run, prefix, okfn, coq_cases, extra_evals=()):
    """mismatch indexes of `okfn` over the cases (<= 500 per file); extra_evals: more (name, fn) counted."""
    files, spans = {}, []
    for k in range(0, len(coq_cases), 500):
        chunk = coq_cases[k:k + 500]
        body = HDR + "Definition cases := \n " + coq_list(chunk).replace("; (", ";\n  (") + ".\n"
        body += f"Eval vm_compute in mismatches {okfn} cases.\n"
        for _, fn in extra_evals:
            body += f"Eval vm_compute in mismatches {fn} cases.\n"
        name = f"cases_{prefix}_{k // 500}.v"
        files[name] = body
        spans.append((name, k))
    res = run.coq_eval_many(files)
    bad, extra = [], {n: [] for n, _ in extra_evals}
    for name, k in spans:
        r = res.get(name)
        if r is None:
            run.oblige(f"evaluate:{name}", False, "model evaluation did not compile")
            bad += list(range(k, min(k + 500, len(coq_cases))))
            continue
        bad += [k + j for j in lib.parse_nat_list(r[0])]
        for i, (n, _) in enumerate(extra_evals):
            extra[n] += [k + j for j in lib.parse_nat_list(r[1 + i])]
    return sorted(bad), extra


def corr_writer(run):
    from typelib import serdes
    n = run.budget(2000, 20000)
    rng = random.Random(run.seed + 11)
    tds = [TD(0), TD(days=7), TD(days=8), TD(days=1), TD.max, TD.min, TD(seconds=-1), TD(microseconds=-10), TD(days=-1),
           TD(seconds=59, microseconds=999999), TD(days=-999999999, microseconds=1), TD(days=14, seconds=59, microseconds=999999)]
    tds += [TD(**c) for c in corpus("writer")]
    while len(tds) < n:
        tds.append(gen_td(rng))
    cases, coq, dist = [], [], {"zero": 0, "negative": 0, "multiple_of_7_days": 0, "micros": 0, "huge(|days|>=1e8)": 0}
    for td in tds:
        impl.clear_caches()
        d, s, u = fields(td)
        try:
            text = serdes.isoformat(td)
        except Exception as e:
            text = "EXC " + type(e).__name__
        cases.append({"layer": "duration-writer", "td": [d, s, u], "observed": text})
        coq.append(f"(({coq_Z(d)}, {s}, {u}), {cs(text)})")
        dist["zero"] += td == TD(0)
        dist["negative"] += td < TD(0)
        dist["multiple_of_7_days"] += d % 7 == 0 and d != 0
        dist["micros"] += u != 0
        dist["huge(|days|>=1e8)"] += abs(d) >= 10 ** 8
    bad, extra = eval_shards(run, "writer", "writer_case_ok", coq,
                             [("pinned", "pinned_case_ok"), ("wellformed", "wellformed_case_ok")])
    if bad:
        agree_pinned = len(cases) - len(extra["pinned"])
        run.notes.append(f"duration-writer: implementation agrees with the PINNED (unrepaired) writer model on {agree_pinned}"
                         f" of {len(cases)} cases -- is proposed_fixes/C04-1-duration-writer.diff applied?")
    run.record_corr("duration-writer", len(cases), [cases[i] for i in bad], len({c["observed"] for c in cases}), dist)
    run.record_corr("duration-wellformed(automaton on emitted text, zero exempt)", len(cases),
                    [cases[i] for i in extra["wellformed"]], len(cases), {})
    run.samples.append(cases[-1])
    return [cases[i] for i in bad]


def mutate(rng, s: str) -> str:
    ops = rng.randint(1, 2)
    for _ in range(ops):
        k = rng.randint(0, 7)
        i = rng.randint(0, max(0, len(s) - 1))
        if k == 0 and s:
            s = s[:i] + s[i + 1:]
        elif k == 1:
            s = s[:i] + rng.choice("PTDHMSW.-,0159 ") + s[i:]
        elif k == 2 and s:
            s = s[:i] + rng.choice("PTDHMSW.-0159YpT") + s[i + 1:]
        elif k == 3:
            s = s + rng.choice(["T", "S", "0", "1H", " ", "W"])
        elif k == 4:
            s = s.replace("T", "", 1)
        elif k == 5:
            parts = re.split(r"(?<=[DHMS])", s)
            rng.shuffle(parts)
            s = "".join(parts)
        elif k == 6:
            s = s.replace(".", rng.choice([",", "..", ".0000000"]), 1)
        else:
            s = "-" + s
    return s


def corr_reader(run):
    from typelib import serdes
    n = run.budget(1500, 12000)
    rng = random.Random(run.seed + 12)
    texts = ["P8D", "PT", "PT0S", "P0D", "-PT1S", "P1DT", "P1W", "PT1.5S", "PT0.000001S", "P999999999DT23H59M59.999999S",
             "-P999999999D", "PT36H", "PT1M1H", "P", "", "-P", "PT5.S", "PT.5S", "P1Y", "P1M", "PT1,5S", "P1DT1H1H", "PT01S",
             "PT1.1234567S", "--P1D", "-PT0S", "P1.5D"]
    texts += [c["text"] for c in corpus("reader")]
    while len(texts) < n:
        base = iso_py(gen_td(rng))
        texts.append(base if rng.random() < 0.4 else mutate(rng, base))
    cases, coq, dist = [], [], {"typelib_reads": 0, "typelib_rejects": 0, "spec_reader_reads(py mirror)": 0}
    for s in texts:
        if not all(32 <= ord(c) < 127 for c in s):
            continue
        impl.clear_caches()
        try:
            r = serdes.dateparse(s, TD)
            obs = list(fields(r)) if isinstance(r, TD) else None
        except Exception:
            obs = None
        cases.append({"layer": "duration-reader", "text": s, "typelib": obs, "spec_py": spec_read_duration(s)})
        dist["typelib_reads" if obs is not None else "typelib_rejects"] += 1
        dist["spec_reader_reads(py mirror)"] += spec_read_duration(s) is not None
        o = "None" if obs is None else f"(Some ({coq_Z(obs[0])}, {obs[1]}, {obs[2]}))"
        coq.append(f"({cs(s)}, {o})")
    bad, extra = eval_shards(run, "reader", "reader_case_ok", coq)
    run.record_corr("duration-reader(read_iso_duration vs dateparse on emitted language + mutations)", len(cases),
                    [cases[i] for i in bad], len({c["text"] for c in cases}), dist)
    return [cases[i] for i in bad]


def corr_pendulum(run):
    """third-party law: Model pendulum_duration == pendulum.duration(...) where its float arithmetic is exact"""
    import pendulum
    n = run.budget(500, 3000)
    rng = random.Random(run.seed + 13)
    coq, cases = [], []
    for i in range(n):
        td = gen_td(rng)
        d, s, u = fields(td)
        if abs(d) > 90000:
            d = rng.randint(-90000, 90000)
        p = pendulum.duration(days=d, seconds=s, microseconds=u)
        obs = [p.years, p.months, p.weeks, p._days, p.remaining_days, p.hours, p.minutes, p.seconds, p.remaining_seconds, p.microseconds]
        cases.append({"layer": "pendulum-normalisation", "td": [d, s, u], "observed": obs})
        coq.append(f"(({coq_Z(d)}, {s}, {u}), {coq_list([coq_Z(x) for x in obs], 'Z')})")
    bad, _ = eval_shards(run, "pdur", "pdur_case_ok", coq)
    run.laws["pendulum.duration normalisation == Model.pendulum_duration (|days| <= 90000)"] = len(cases) - len(bad)
    run.record_corr("pendulum-normalisation(third-party law; feeds the pinned-writer model only)", len(cases),
                    [cases[i] for i in bad], len(cases), {})


ROUTINE_T = {"RInt": int, "RFloat": float, "RDec": decimal.Decimal, "RFrac": fractions.Fraction, "RUuid": uuid.UUID,
             "RDate": D.date, "RDateTime": D.datetime, "RTime": D.time, "RTimeDelta": TD, "RStr": str, "RBytes": bytes}


def text_of(x):
    """(payload bytes, decoded str or None) of a text carrier"""
    if isinstance(x, str):
        return x.encode("utf-8"), x
    b = x.tobytes() if isinstance(x, memoryview) else bytes(x)
    try:
        return b, b.decode("utf-8")
    except UnicodeDecodeError:
        return b, None


def base_of(m):
    """the member of a mixin enum as the plain str / int / float / bytes it also is (None: a plain Enum member)"""
    if isinstance(m, str):
        return str.__str__(m)
    if isinstance(m, int):
        return int.__int__(m)
    if isinstance(m, float):
        return float.__float__(m)
    if isinstance(m, bytes):
        return bytes(m)
    return None


def answers(**kw) -> str:
    """a Coq `answers` record (Model/ScalarsEq.v): every primitive unanswered unless given"""
    un = lambda ty: f"(@Unmodelled {ty})"
    f = {k: "[]" for k in ("a_utf8", "a_int", "a_tok", "a_parse", "a_timeiso", "a_isdigit")}
    f.update(a_canon='""%string', a_uuid_int=un("tok"), a_enum="(@nil (val * res tok))", a_load=un("val"),
             a_int_of_float=un("Z"), a_float_of_int=un("tok"), a_fromts=un("dtf"), a_timestamp=un("tok"),
             a_total_seconds='""%string', a_tdsec=un("(Z * Z * Z)"), a_member="(@nil (string * bool))",
             a_base="(@nil (string * val))",
             a_pyeq="(@nil (val * (val * bool)))", a_truthy="(@nil (val * res bool))",
             a_compile="(@nil (string * res tok))", a_ptext="(@nil (string * val))")
    f.update(kw)
    return "{| " + "; ".join(f"{k} := {v}" for k, v in f.items()) + " |}"


def in_val(x) -> bool:
    """x has a faithful `val` term (Temporal.val: aware temporals with whole-minute offsets; no containers)"""
    if x is None or isinstance(x, (enum.Enum, bool, re.Pattern)):
        return True
    if isinstance(x, (D.datetime, D.time)):
        o = x.utcoffset()
        return o is not None and not o.microseconds and o.seconds % 60 == 0
    return type(x) in (int, float, str, bytes, bytearray, memoryview, decimal.Decimal, fractions.Fraction, uuid.UUID,
                       D.date, TD) or isinstance(x, pathlib.PurePath)


def tables(objs, enum_T=None, members=(), cands=(), truth=(), compile_texts=()):
    """the keyed answer tables: mixin views and pattern texts of the objects in sight, E(v) for the lookup candidates,
    x == m for candidate / member pairs, bool(x), re.compile(s)"""
    tokv = lambda v: cs(tok(v))
    kw = {}
    base, ptext, seen = [], [], set()
    for o in objs:
        if isinstance(o, enum.Enum) and tok(o) not in seen and base_of(o) is not None:
            seen.add(tok(o))
            base.append(f"({cs(tok(o))}, {emit_val(base_of(o))})")
        if isinstance(o, re.Pattern) and tok(o) not in seen:
            seen.add(tok(o))
            ptext.append(f"({cs(tok(o))}, {emit_val(o.pattern)})")
    if enum_T is not None:
        mem = {tok(o): isinstance(o, enum_T) for o in objs if isinstance(o, enum.Enum)}
        if mem:
            kw["a_member"] = coq_list([f"({cs(k)}, {lib.coq_bool(v)})" for k, v in mem.items()])
    if base:
        kw["a_base"] = coq_list(base)
    if ptext:
        kw["a_ptext"] = coq_list(ptext)
    if enum_T is not None:
        rows, seen = [], set()
        for c in cands:
            if in_val(c) and emit_val(c) not in seen:
                seen.add(emit_val(c))
                rows.append(f"({emit_val(c)}, {emit_res(lambda c=c: enum_T(c), tokv, 'tok')})")
        if rows:
            kw["a_enum"] = coq_list(rows)
    if members:
        rows, seen = [], set()
        for c in cands:
            for m in members:
                if in_val(c) and in_val(m) and (emit_val(c), emit_val(m)) not in seen:
                    seen.add((emit_val(c), emit_val(m)))
                    try:
                        r = c is m or bool(c == m)
                    except Exception:
                        r = False
                    rows.append(f"({emit_val(c)}, ({emit_val(m)}, {lib.coq_bool(r)}))")
        if rows:
            kw["a_pyeq"] = coq_list(rows)
    rows, seen = [], set()
    for c in truth:
        if in_val(c) and emit_val(c) not in seen:
            seen.add(emit_val(c))
            rows.append(f"({emit_val(c)}, {emit_res(lambda c=c: bool(c), lib.coq_bool, 'bool')})")
    if rows:
        kw["a_truthy"] = coq_list(rows)
    rows = [f"({cs(t)}, {emit_res(lambda t=t: re.compile(t), tokv, 'tok')})" for t in dict.fromkeys(compile_texts)]
    if rows:
        kw["a_compile"] = coq_list(rows)
    return kw


def answers_for(routine: str, T, x, members=(), also=()) -> str:
    """the interpreter's answers to every primitive the model may ask on this case (never through typelib);
    members: the values of the Literal for routine RLit; also: further objects in sight (their mixin views ...)"""
    import pendulum
    is_enum = isinstance(x, enum.Enum)
    is_text = isinstance(x, (str, bytes, bytearray, memoryview)) and not is_enum
    f = {}
    s = None
    if is_text:
        b, s = text_of(x)
        if not isinstance(x, str):
            f["a_utf8"] = coq_list([f"({cs(b)}, {'(Ok ' + cs(s) + ')' if s is not None else '(@Raise string EValue)'})"])
    elif is_enum and isinstance(x, str):
        s = base_of(x)                      # a member of a str-mixin enum is converted as the str it is
    tokv = lambda v: cs(tok(v))
    num = x if isinstance(x, (int, float)) else None          # True and IntEnum members are numbers
    if s is not None:
        f["a_int"] = coq_list([f"({cs(s)}, {emit_res(lambda: int(s), coq_Z, 'Z')})"])
        toks = [("float:", float), ("dec:", decimal.Decimal), ("frac:", fractions.Fraction), ("uuid:", uuid.UUID)]
        if routine == "RPath":
            toks.append(("path:", T))
        f["a_tok"] = coq_list([f"({cs(p + s)}, {emit_res(lambda c=c: c(s), tokv, 'tok')})" for p, c in toks])
        if routine in ("RDate", "RDateTime", "RTime", "RTimeDelta") and is_text:
            keys = [s] + ([s[1:]] if s.startswith("-P") else [])
            f["a_parse"] = coq_list([f"({cs(k)}, {emit_res(lambda k=k: pendulum.parse(k), emit_parsed, 'parsed')})" for k in keys])
            f["a_timeiso"] = coq_list([f"({cs(s)}, {emit_res(lambda: D.time.fromisoformat(s), emit_tmf, 'tmf')})"])
            dig = s.isdigit() or s.isdecimal()
            f["a_isdigit"] = coq_list([f"({cs(s)}, {lib.coq_bool(dig)})"])
            if dig:
                try:
                    num = float(s)
                except ValueError:
                    pass
    if isinstance(x, int) and routine in ("RDec", "RFrac"):          # Decimal(z) / Fraction(z) of an int (True, IntEnum)
        zs = str(int(x))
        f["a_tok"] = coq_list([f"({cs(p + zs)}, {emit_res(lambda c=c: c(x), tokv, 'tok')})"
                               for p, c in (("dec:", decimal.Decimal), ("frac:", fractions.Fraction))])
    if num is not None:
        f["a_fromts"] = emit_res(lambda: D.datetime.fromtimestamp(num, tz=UTC), emit_dtf, "dtf")
        f["a_tdsec"] = emit_res(lambda: TD(seconds=num), lambda t: "(%s, %d, %d)" % ((coq_Z(fields(t)[0]),) + fields(t)[1:]), "(Z * Z * Z)")
        if isinstance(num, int):
            f["a_float_of_int"] = emit_res(lambda: float(num), tokv, "tok")
    ux = None
    if isinstance(x, TD):
        f["a_total_seconds"] = cs(tok(x.total_seconds()))
        ux = x.total_seconds()
    elif isinstance(x, D.datetime):
        f["a_timestamp"] = emit_res(lambda: x.timestamp(), tokv, "tok")
        ux = x.timestamp()
    elif isinstance(x, D.date):
        f["a_timestamp"] = emit_res(lambda: D.datetime(x.year, x.month, x.day, tzinfo=UTC).timestamp(), tokv, "tok")
        ux = D.datetime(x.year, x.month, x.day, tzinfo=UTC).timestamp()
    if ux is not None:
        f["a_int_of_float"] = emit_res(lambda: int(ux), coq_Z, "Z")
    elif isinstance(x, float):
        f["a_int_of_float"] = emit_res(lambda: int(x), coq_Z, "Z")
    if isinstance(x, (D.date, D.time)):
        f["a_canon"] = cs(x.isoformat())
    elif not is_text:
        f["a_canon"] = cs(str(x))
    loaded, objs, cands = None, [x], []
    if routine in ("RUuid", "REnum", "RLit"):
        f["a_load"] = emit_res(lambda: py_load(x), emit_val, "val")
        try:
            loaded = py_load(x)
            objs.append(loaded)
        except Exception:
            loaded = None
        if routine == "RUuid" and isinstance(loaded, int):
            f["a_uuid_int"] = emit_res(lambda: uuid.UUID(int=loaded), tokv, "tok")
        if routine == "RUuid" and isinstance(loaded, enum.Enum) and isinstance(loaded, str):
            sl = base_of(loaded)
            f["a_tok"] = coq_list([f"({cs('uuid:' + sl)}, {emit_res(lambda: uuid.UUID(sl), tokv, 'tok')})"])
    if routine in ("REnum", "RLit"):
        cands = [x if not is_text else s, loaded] if (not is_text or s is not None) else [loaded]
        cands = [x] + cands
    truth = []
    if routine == "RBool":
        truth = [x] + ([ux] if ux is not None else [])
    if routine == "RPattern" and s is not None:
        arg = x if is_enum else s               # re.compile is handed the decoded object itself (a str-mixin member)
        f["a_compile"] = coq_list([f"({cs(s)}, {emit_res(lambda: re.compile(arg), tokv, 'tok')})"])
        try:
            objs.append(re.compile(arg))
        except Exception:
            pass
    f.update(tables(objs + list(members) + list(also), enum_T=T if routine == "REnum" else None, members=members, cands=cands,
                    truth=truth))
    return answers(**f)


def routine_inputs(rng: random.Random, n: int):
    """(routine, T, input, class) -- canonical text in the five carriers, numeric/temporal crossings, a malformed stream"""
    out = []
    bad_texts = ["abc", "", "1.5.2", "12:61", "2020-13-01", "P1X", "nan?", "\u00e9", "1e", "--1"]

    def texts(routine, T, s, carriers=CARRIERS, cls="canonical-text"):
        c = rng.choice(carriers)
        out.append((routine, T, carry(c, s), f"{cls}/{c}"))

    out += [("RTime", D.time, "2020-01-01", "fixed"), ("RTime", D.time, "2020-01-01T03:04:05.000006+05:30", "fixed"),
            ("RTime", D.time, b"03:04:05+05:30", "fixed"), ("RDate", D.date, "2020-01-01T03:04:05+05:30", "fixed"),
            ("RDateTime", D.datetime, "2020-01-01", "fixed"), ("RTimeDelta", TD, "-PT0.000001S", "fixed"),
            ("RTimeDelta", TD, "P1W", "fixed"), ("RTimeDelta", TD, 1.5, "fixed"), ("RTimeDelta", TD, "15", "fixed"),
            ("RDateTime", D.datetime, "15", "fixed"), ("RTime", D.time, D.datetime(2020, 1, 1, 1, 30, tzinfo=UTC, fold=1), "fixed"),
            ("REnum", EStr, "1", "fixed"), ("REnum", EInt, b"1", "fixed"), ("RPath", pathlib.PurePosixPath, "1", "fixed"),
            ("RStr", str, TD(days=8), "fixed"), ("RBytes", bytes, TD(0), "fixed"), ("RInt", int, TD(seconds=1, microseconds=500000), "fixed")]
    i = -1
    while len(out) < n:
        i += 1
        k = i % 13
        if k == 0:
            v = gen_int(rng); texts("RInt", int, str(v))
            out.append(("RInt", int, rng.choice([gen_date(rng), gen_datetime(rng), gen_td(rng)]), "temporal->int"))
        elif k == 1:
            v = gen_float(rng); texts("RFloat", float, repr(v))
            out.append(("RFloat", float, rng.choice([gen_date(rng), gen_datetime(rng), gen_td(rng), gen_int(rng) % 10 ** 15]), "temporal|int->float"))
        elif k == 2:
            texts("RDec", decimal.Decimal, str(gen_dec(rng)))
        elif k == 3:
            texts("RFrac", fractions.Fraction, str(gen_frac(rng)))
        elif k == 4:
            texts("RUuid", uuid.UUID, str(gen_uuid(rng)), HASHABLE)
            if rng.random() < 0.2:
                out.append(("RUuid", uuid.UUID, rng.getrandbits(128), "int->uuid"))
        elif k == 5:
            p = gen_path(rng); texts("RPath", type(p), str(p))
        elif k == 6:
            E = rng.choice(ENUMS); m = rng.choice(list(E))
            texts("REnum", E, str(m.value), HASHABLE)
            out.append(("REnum", E, rng.choice([m.value, m]), "raw-value|member"))
        elif k == 7:
            texts("RDate", D.date, gen_date(rng).isoformat())
            out.append(("RDate", D.date, rng.choice([gen_epoch(rng), gen_datetime(rng), gen_date(rng)]), "number|temporal->date"))
        elif k == 8:
            texts("RDateTime", D.datetime, gen_datetime(rng).isoformat())
            out.append(("RDateTime", D.datetime, rng.choice([gen_epoch(rng), gen_date(rng)]), "number|date->datetime"))
        elif k == 9:
            texts("RTime", D.time, gen_time(rng).isoformat())
            out.append(("RTime", D.time, rng.choice([gen_epoch(rng), gen_datetime(rng), gen_date(rng)]), "number|temporal->time"))
        elif k == 10:
            texts("RTimeDelta", TD, iso_py(gen_td(rng)))
            out.append(("RTimeDelta", TD, rng.choice([gen_epoch(rng), gen_td(rng), rng.randint(-10 ** 9, 10 ** 9)]), "number|td->timedelta"))
        elif k == 11:
            x = rng.choice([gen_date(rng), gen_datetime(rng), gen_time(rng), gen_td(rng)])
            out.append((rng.choice(["RStr", "RBytes"]), None, x, "temporal->text"))
            out.append(("RStr", str, carry(rng.choice(CARRIERS), rng.choice(["abc", "\u00e9", "1"])), "text->str"))
        else:
            r = rng.choice(["RInt", "RFloat", "RDec", "RFrac", "RDate", "RDateTime", "RTime", "RTimeDelta", "RPath"])
            T = ROUTINE_T.get(r, pathlib.PurePosixPath)
            s = rng.choice(bad_texts + [str(rng.randint(0, 10 ** 9)), "P1D", "2020-01-01"])
            if r in ("RDate", "RDateTime") and re.fullmatch(r"\d{1,2}(:\d\d)*", s):
                continue      # time-only text is filled from now()
            x = rng.choice([carry(rng.choice(CARRIERS), s), b"\xff\xfe"])
            out.append((r, T, x, "malformed|numeric-text"))
    for r in out:
        if r[1] is None:
            pass
    return [(r, (ROUTINE_T[r] if T is None else T), x, c) for r, T, x, c in out][:n]


import typing

LITERALS = [typing.Literal[1, "a"], typing.Literal[1, "a", None, True, b"x"], typing.Literal["1", "null", "true", "[1]"],
            typing.Literal[0, False, "auto"], typing.Literal[EInt.one, "one", 2], typing.Literal[ESMix.a, "5", 7]]


def gen_pattern(rng):
    return rng.choice([re.compile("a+"), re.compile(""), re.compile("a", re.I), re.compile(b"a+"), re.compile("\u00e9t\u00e9|x"),
                       re.compile(r"^\d{2}-\w+$"), re.compile("x", re.M | re.S), re.compile("[1]"), re.compile("null")])


def routine_inputs2(rng: random.Random, n: int):
    """round 4 (leaf bridge): bool and int-subclass inputs, members of mixin enums given to every routine, and the
    routines bool / Literal / Pattern / NoneType"""
    out = []
    mixins = [ESMix.a, ESMix.five, EIntEnum.x, EIntEnum.y]
    scal = lambda: rng.choice([gen_int(rng), gen_float(rng), gen_dec(rng), gen_frac(rng), gen_uuid(rng), gen_path(rng), None,
                               gen_date(rng), gen_td(rng), rng.choice(list(EInt)), gen_pattern(rng)])
    texts = ["", "0", "1", "true", "false", "True", "null", "None", "a", '"a"', "[1]", "1.0", "b'x'", "x", "auto", "one", "5", "7",
             "a+", "(", "\u00e9t\u00e9"]
    # fixed: every subclass instance under every routine; every str member of a Literal in every hashable carrier
    # (the decoded-text step: b"1" is the member "1", although it loads to the int 1), members by == across classes
    for r in ("RInt", "RFloat", "RDec", "RFrac", "RUuid", "RPath", "RDate", "RDateTime", "RTime", "RTimeDelta", "RStr", "RBytes",
              "REnum", "RBool", "RPattern", "RNone"):
        T = {"RPath": pathlib.PurePosixPath, "REnum": EIntEnum, "RBool": bool, "RPattern": re.Pattern, "RNone": type(None)}.get(r) or ROUTINE_T[r]
        for x in [True, False] + mixins:
            if isinstance(x, str) and r in ("RDate", "RDateTime", "RTime", "RTimeDelta"):
                continue
            out.append((r, T, x, "fixed:bool|mixin-member"))
    for L in LITERALS:
        ms = typing.get_args(L)
        for m in ms:
            if isinstance(m, str) and not isinstance(m, enum.Enum):
                out += [(("RLit", ms), L, carry(c, m), "fixed:literal-text") for c in HASHABLE]
                out.append((("RLit", ms), L, json.dumps(m), "fixed:literal-text"))
        out += [(("RLit", ms), L, x, "fixed:literal-eq") for x in (True, False, 1, 0, 1.0, 7, "true", "null", b"x", None, ESMix.a, EInt.one)]
    out += [("RUuid", uuid.UUID, carry(c, t), "fixed:text-loading-to-bool|int") for c in HASHABLE for t in ("true", "false", "1", "True")]
    out += [("RBool", bool, x, "fixed:bool") for x in ("false", "", b"", "0", 0, 0.0, float("nan"), None, decimal.Decimal(0), TD(0), TD(1))]
    while len(out) < n:
        k = len(out) % 8
        if k == 0:      # True / False / mixin members under every existing routine
            r = rng.choice(["RInt", "RFloat", "RDec", "RFrac", "RUuid", "RPath", "RDate", "RDateTime", "RTime", "RTimeDelta",
                            "RStr", "RBytes", "REnum"])
            T = ROUTINE_T.get(r) or (pathlib.PurePosixPath if r == "RPath" else rng.choice(ENUMS))
            pool = [True, False] + mixins
            if r in ("RDate", "RDateTime", "RTime", "RTimeDelta"):      # dateparse of a str-mixin member: outside the model
                pool = [m for m in pool if not isinstance(m, str)]
            out.append((r, T, rng.choice(pool), "bool|mixin-member"))
        elif k == 1:    # text that loads to a bool / an int under UUID and Enum
            r, T = rng.choice([("RUuid", uuid.UUID), ("REnum", rng.choice(ENUMS))])
            out.append((r, T, carry(rng.choice(HASHABLE), rng.choice(["true", "false", "True", "1", "7", "null"])), "text-loading-to-bool|int"))
        elif k in (2, 3):
            x = rng.choice([True, False, rng.choice(mixins), scal(), carry(rng.choice(CARRIERS), rng.choice(texts)), gen_datetime(rng),
                            0, 0.0, -0.0, float("nan"), decimal.Decimal("0"), fractions.Fraction(0), TD(0), ""])
            out.append(("RBool", bool, x, "bool"))
        elif k in (4, 5):
            L = rng.choice(LITERALS)
            ms = typing.get_args(L)
            x = rng.choice([rng.choice(ms), rng.choice(ms), carry(rng.choice(HASHABLE), rng.choice(texts)), True, False, 1, 1.0, 0, 7, 2,
                            decimal.Decimal(1), fractions.Fraction(1), rng.choice(mixins), EInt.one, None, b"x", b"a",
                            carry(rng.choice(HASHABLE), json.dumps(rng.choice([m for m in ms if isinstance(m, (str, int, bool, type(None))) and not isinstance(m, enum.Enum)]))),
                            scal()])
            out.append((("RLit", ms), L, x, "literal"))
        elif k == 6:
            x = rng.choice([gen_pattern(rng), carry(rng.choice(CARRIERS), rng.choice(["a+", "(", "", "[1]", "null", "\u00e9t\u00e9", "a|b"])),
                            5, None, ESMix.a, True, b"\xff"])
            out.append(("RPattern", re.Pattern, x, "pattern"))
        else:
            x = rng.choice([None, None, carry(rng.choice(CARRIERS), rng.choice(["null", "None", "", "0"])), 0, False, b"\xff", scal(),
                            rng.choice(mixins)])
            out.append(("RNone", type(None), x, "none"))
    return out[:n]


def corr_routines(run):
    from typelib import unmarshal
    n = run.budget(1500, 12000)
    rng = random.Random(run.seed + 14)
    cases, coq, dist = [], [], {}
    stream = routine_inputs(rng, n - n // 3) + routine_inputs2(random.Random(run.seed + 18), n // 3)
    for routine, T, x, cls in stream:
        members = ()
        if isinstance(routine, tuple):
            routine, members = routine
        impl.clear_caches()
        try:
            obs = unmarshal(T, x)
            o = f"(Ok {emit_val(obs)})"
            if isinstance(obs, (D.datetime, D.time)) and obs.utcoffset() is not None and obs.utcoffset().microseconds:
                continue
        except Exception as e:
            obs, o = e, f"(@Raise val {exn(e)})"
        if not isinstance(obs, Exception) and not in_val(obs):
            continue
        try:
            ans = answers_for(routine, T, x, members)
        except Exception as e:       # an input the harness cannot describe
            run.notes.append(f"routines: skipped undescribable case {routine} {x!r}: {e!r}")
            continue
        cases.append({"layer": "routines", "routine": routine, "type": getattr(T, "__name__", str(T)),
                      "input": repr(x)[:120], "class": cls, "observed": repr(obs)[:160]})
        rterm = routine if not members else "(RLit " + coq_list([emit_val(m) for m in members], "val") + ")"
        coq.append(f"({rterm}, {ans}, {emit_val(x)}, {o})")
        key = f"{routine}:{cls.split('/')[0]}"
        dist[key] = dist.get(key, 0) + 1
    bad, extra = eval_shards(run, "routines", "routine_case_ok", coq, [("unmodelled", "(fun c => negb (routine_unmodelled c))")])
    dist["model_returned_Unmodelled"] = len(extra["unmodelled"])
    nontriv = len({(c["routine"], c["input"]) for c in cases if not c["observed"].startswith(("ValueError", "TypeError"))})
    run.record_corr("routines(model on interpreter-answer tables vs unmarshal)", len(cases), [cases[i] for i in bad], nontriv, dist)
    run.samples.append(cases[0])
    return [cases[i] for i in bad]


def emit_iso(v) -> str:
    if v is None:
        return "INone"
    if isinstance(v, D.datetime):
        return f"(IDateTime {emit_dtf(v)})"
    if isinstance(v, D.date):
        return f"(IDate {v.year} {v.month} {v.day})"
    return f"(ITime {emit_tmf(v)})"


ISO_KINDS = {"date": (D.date, gen_date, "(IDate 0 0 0)"),
             "time": (D.time, gen_time, "(ITime {| th := 0; tmi := 0; ts := 0; tus := 0; toff := None; tfold := 0 |})"),
             "datetime": (D.datetime, gen_datetime, "(IDateTime {| dy := 0; dmo := 0; dd := 0; dh := 0; dmi := 0; ds := 0; "
                                                    "dus := 0; doff := None; dfold := 0 |})")}


def corr_iso_writer(run):
    """interpreter law, proved useful by C04_*_reader: v.isoformat() is what Model/IsoText.v writes, and the
    independent reader reads that text back as v"""
    n = run.budget(1500, 12000)
    rng = random.Random(run.seed + 16)
    vals = [D.date.min, D.date.max, D.date(2024, 2, 29), D.time(0, 0, tzinfo=UTC), D.time(23, 59, 59, 999999, tzinfo=D.timezone(TD(minutes=-1439))),
            D.datetime(2, 1, 1, tzinfo=D.timezone(TD(minutes=1439))), D.datetime(9998, 12, 31, 23, 59, 59, 1, tzinfo=UTC, fold=1)]
    vals += [build_value(c["kind"], c["value"])[1] for c in corpus("iso-writer")]
    while len(vals) < n:
        k = len(vals) % 10
        v = (gen_date, gen_time, gen_datetime)[k % 3](rng)
        if k in (7, 8):
            v = v.replace(tzinfo=None)       # naive times/datetimes: outside U, inside the writer model
        vals.append(v)
    cases, coq, dist = [], [], {"date": 0, "time": 0, "datetime": 0, "naive": 0, "micros": 0, "negative_offset": 0}
    for v in vals:
        text = v.isoformat()
        kind = "datetime" if isinstance(v, D.datetime) else ("date" if isinstance(v, D.date) else "time")
        cases.append({"layer": "iso-writer", "kind": kind, "value": repr(v), "observed": text})
        coq.append(f"({emit_iso(v)}, {cs(text)})")
        dist[kind] += 1
        if kind != "date":
            dist["naive"] += v.utcoffset() is None
            dist["micros"] += v.microsecond != 0
            dist["negative_offset"] += v.utcoffset() is not None and v.utcoffset() < TD(0)
    bad, extra = eval_shards(run, "isowriter", "isowriter_case_ok", coq, [("readback", "isoread_emitted_ok")])
    run.laws["isoformat() of date/time/datetime == Model.IsoText writers"] = len(cases) - len(bad)
    run.record_corr("iso-writer(date/time/datetime.isoformat() characters vs Model/IsoText.v)", len(cases),
                    [cases[i] for i in bad], len({c["observed"] for c in cases}), dist)
    run.record_corr("iso-readback(independent reader on the interpreter's text)", len(cases),
                    [cases[i] for i in extra["readback"]], len(cases), {})


def mutate_iso(rng, s: str) -> str:
    for _ in range(rng.randint(1, 2)):
        k = rng.randint(0, 5)
        i = rng.randint(0, max(0, len(s) - 1))
        if k == 0 and s:
            s = s[:i] + s[i + 1:]
        elif k == 1:
            s = s[:i] + rng.choice("0123456789:-+T. Z") + s[i:]
        elif k == 2 and s:
            s = s[:i] + rng.choice("0123456789:-+T.") + s[i + 1:]
        elif k == 3:
            s = s + rng.choice(["Z", "0", ":00", "+00:00", " "])
        elif k == 4:
            s = s.replace(":", "", 1)
        else:
            s = s.replace("-", rng.choice(["", "/", "+"]), 1)
    return s


def corr_iso_reader(run):
    """wherever the independent reader assigns a value of U to a text (emitted language + mutations), typelib's own
    reading serdes.dateparse(s, T) is that value"""
    from typelib import serdes
    n = run.budget(1500, 12000)
    rng = random.Random(run.seed + 17)
    items = [("date", "2024-02-29"), ("date", "2023-02-29"), ("time", "03:04:05+05:30"), ("time", "03:04:05.5-00:01"),
             ("time", "24:00:00+00:00"), ("datetime", "2020-01-01T17:00:00+05:00"), ("datetime", "2020-01-01T17:00:00.000001-23:59"),
             ("datetime", "2020-01-01"), ("date", "2020-01-01T00:00:00+00:00"), ("time", "03:04:05+24:00"), ("datetime", "2020-02-30T00:00:00+00:00")]
    items += [(c["kind"], c["text"]) for c in corpus("iso-reader")]
    while len(items) < n:
        kind = rng.choice(list(ISO_KINDS))
        base = ISO_KINDS[kind][1](rng).isoformat()
        items.append((kind, base if rng.random() < 0.35 else mutate_iso(rng, base)))
    cases, coq, dist = [], [], {"typelib_reads": 0, "typelib_rejects": 0}
    for kind, s in items:
        if not all(32 <= ord(c) < 127 for c in s):
            continue
        T, _, kterm = ISO_KINDS[kind]
        impl.clear_caches()
        try:
            r = serdes.dateparse(s, T)
            if kind == "date" and isinstance(r, D.datetime):
                r = r.date()
            if isinstance(r, (D.datetime, D.time)) and r.utcoffset() is not None and (
                    r.utcoffset().microseconds or r.utcoffset().seconds % 60):
                r = None            # offsets with seconds are outside U
            if not isinstance(r, T):
                r = None
        except Exception:
            r = None
        cases.append({"layer": "iso-reader", "kind": kind, "text": s, "typelib": repr(r)})
        dist["typelib_reads" if r is not None else "typelib_rejects"] += 1
        coq.append(f"({kterm}, {cs(s)}, {emit_iso(r)})")
    bad, extra = eval_shards(run, "isoreader", "isoreader_case_ok", coq, [("accepts", "(fun c => negb (isoreader_accepts c))")])
    dist["spec_reader_assigns_a_value_of_U"] = len(extra["accepts"])
    run.record_corr("iso-reader(read_iso_date/time/datetime vs dateparse on emitted language + mutations)", len(cases),
                    [cases[i] for i in bad], len(extra["accepts"]), dist)
    return [cases[i] for i in bad]


# ----------------------------------------------------------------------------------
# round 3: histories over the equal-but-differently-represented families (harness/c04_families.py)
# ----------------------------------------------------------------------------------

HOP = {"isoformat": "HIso", "marshal": "HMarshal", "unmarshal_str": "HStr", "unmarshal_bytes": "HBytes"}
HIST_T = {"date": D.date, "datetime": D.datetime, "time": D.time, "timedelta": TD}


def spell_td(val, sp):
    """the duration (days, seconds, microseconds) built another way; None when that spelling cannot express it"""
    import pendulum
    d, s, us = val
    plain = TD(days=d, seconds=s, microseconds=us)
    try:
        if sp == "fields":
            return plain
        if sp == "hours":
            return TD(hours=24 * d, seconds=s, microseconds=us)
        if sp == "mixed":
            return TD(weeks=d // 7, days=d % 7, hours=s // 3600, minutes=s % 3600 // 60, seconds=s % 60,
                      milliseconds=us // 1000, microseconds=us % 1000)
        if sp == "micros":
            return TD(microseconds=(d * 86400 + s) * 10 ** 6 + us)
        if sp == "negated":
            return -(TD(0) - plain)
        if sp == "sum":
            return TD(days=d) + TD(seconds=s) + TD(microseconds=us)
        if sp == "pendulum":
            return pendulum.duration(days=d, seconds=s, microseconds=us)
        if sp == "pendulum-parsed":       # what pendulum.parse / serdes.dateparse hand out (no negative durations)
            return pendulum.parse(iso_py(plain)) if plain >= TD(0) else None
    except (OverflowError, ValueError):
        return None
    raise KeyError(sp)


def build_hist_value(spec):
    kind, val = spec["kind"], spec["value"]
    if kind == "timedelta":
        return spell_td(val, spec.get("spelling", "fields"))
    if kind == "datetime" and val[7] is None:
        return D.datetime(*val[:7], fold=val[8])          # naive: only ever a warm-up value
    if kind == "bool":
        return bool(val)
    if kind == "str":
        return str(val)
    return build_value(kind, val)[1]


def hist_op(name, x):
    from typelib import marshal, serdes, unmarshal
    if name == "isoformat":
        return serdes.isoformat(x)
    if name == "marshal":
        return marshal(x)
    if name == "unmarshal_str":
        return unmarshal(str, x)
    if name == "unmarshal_bytes":
        return unmarshal(bytes, x)
    if name == "marshal:int":             # a bool / IntEnum member under the declared type int
        return marshal(x, t=int)
    if name == "canonical_text":          # the text -> value direction as a warm-up
        return unmarshal(type(x), str(x.value) if isinstance(x, enum.Enum) else str(x))
    raise KeyError(name)


def judged_ops(kind, v):
    """the emitting operations judged on v"""
    if kind in HIST_T:
        return c04_families.OPS
    if kind == "enum":
        return ["marshal"]                # str(member) is not its wire form: unmarshal(str | bytes, member) is not judged
    return c04_families.SCALAR_OPS + (["marshal:int"] if kind == "bool" else [])


def warm_ops(spec):
    if spec["kind"] in HIST_T:
        return c04_families.OPS
    mixin_int = spec["kind"] == "bool" or (spec["kind"] == "enum" and spec["value"][0] == "EIntEnum")
    return c04_families.SCALAR_WARM_OPS + (["marshal:int"] if mixin_int else [])


def emit_hval(x) -> str:
    """emit_val with the record notation replaced by the constructor functions of Model/IsoHistoryEq.v (parsing the
    record notation dominates the evaluation time of a cases file)"""
    if isinstance(x, D.datetime):
        return (f"(mkdt {x.year} {x.month} {x.day} {x.hour} {x.minute} {x.second} {x.microsecond} {off_of(x)} {x.fold})")
    if isinstance(x, D.time):
        return f"(mktm {x.hour} {x.minute} {x.second} {x.microsecond} {off_of(x)} {x.fold})"
    return emit_val(x)


def hist_values(case):
    """(w, v) of a history case, or None when it is outside the clause: a spelling that cannot express the value, or
    (for the families that claim it) the two values are not == and hash-equal on this interpreter"""
    w, v = build_hist_value(case["warm"]), build_hist_value(case)
    if w is None or v is None:
        return None
    if not case["family"].startswith("date/") and not (w == v and hash(w) == hash(v)):
        return None
    return w, v


def run_history(case, w, v):
    """caches cleared once; warm_op(w); then every emitting operation on v.  [(op, result | exception)]"""
    impl.clear_caches()
    out = []
    for op, x in [(case["warm_op"], w)] + [(o, v) for o in judged_ops(case["kind"], v)]:
        try:
            out.append((op, hist_op(op, x)))
        except Exception as e:
            out.append((op, e))
    return out


def corr_history(run):
    """Model/IsoHistory.v (run_hist toy_rt []: the memo threaded along the history) vs the implementation along the
    same history; C04_history_transparent says the outcome is that of the cold calls"""
    pairs, extra = c04_families.histories(run.tier, run.seed, few=True)     # quick: 2 of the 5 instants; the oracle runs all
    pairs = [(c["family"], c["warm"], {k: c[k] for k in ("kind", "value", "spelling") if k in c}, c["warm_op"])
             for c in corpus("history")] + [(f, w, j, c04_families.OPS[i % 4]) for i, (f, w, j) in enumerate(pairs)]
    cases, coq, dist = [], [], dict(extra)
    skipped = 0
    for fam, warm, judged, warm_op in pairs:
        case = c04_families.case_of(fam, warm, judged, warm_op)
        wv = hist_values(case)
        if wv is None:
            skipped += 1
            continue
        w, v = wv
        obs = run_history(case, w, v)
        names, outs = {}, []          # equal texts are written once (let-bound): parsing string literals dominates
        for _, r in obs:
            if isinstance(r, (str, bytes)):
                t = names.setdefault(cs(r), f"t{len(names)}")
                outs.append(f"{'oS' if isinstance(r, str) else 'oB'} {t}")
            else:
                outs.append(f"VOther {cs('EXC ' + type(r).__name__)}")
        lets = "".join(f"let {t} := {lit} in " for lit, t in names.items())
        cases.append({"layer": "iso-history", "case": case, "observed": [repr(r)[:80] for _, r in obs]})
        coq.append(f"({HOP[case['warm_op']]}, {emit_hval(w)}, {emit_hval(v)}, ({lets}{coq_list(outs)}))")
        fam0 = fam.split("=")[0] if fam.startswith(("datetime/dist", "time/dist")) and "=1440" not in fam else fam
        dist[fam0] = dist.get(fam0, 0) + 1
    dist["skipped(spelling cannot express the value, or not ==/hash-equal)"] = skipped
    bad, _ = eval_shards(run, "history", "pair_case_ok", coq)
    run.record_corr("iso-history(two-call histories over the equal-but-differently-represented families vs Model/IsoHistory.v)",
                    len(cases), [cases[i] for i in bad], len(cases), dist)
    return [cases[i]["case"] for i in bad]


def corr_scalar_history(run):
    """round 4: the two-call histories over the non-temporal scalar families vs Model/IsoHistory.v on pair_rt (str(w),
    str(v) supplied as interpreter answers): the model keeps no state for these kinds, so v's observations are v's own
    wire forms whatever equal value was handled before.  Judged enum members (marshal -> member.value) and the
    declared-type operation marshal(., t=int) are the oracle's only."""
    pairs = [(c["family"], c["warm"], {k: c[k] for k in ("kind", "value") if k in c}, c["warm_op"])
             for c in corpus("scalar-history")]
    pairs += [(f, w, j, c04_families.SCALAR_OPS[i % 3]) for i, (f, w, j) in enumerate(c04_families.scalar_histories(run.tier, run.seed))]
    cases, coq, dist, skipped = [], [], {}, 0
    for fam, warm, judged, warm_op in pairs:
        case = c04_families.case_of(fam, warm, judged, warm_op)
        wv = hist_values(case)
        if wv is None or judged["kind"] == "enum" or warm_op not in HOP:
            skipped += 1
            continue
        w, v = wv
        obs = run_history(case, w, v)[1:1 + len(c04_families.SCALAR_OPS)]
        outs = [emit_val(r) if not isinstance(r, Exception) else f"(VOther {cs('EXC ' + type(r).__name__)})" for _, r in obs]
        cases.append({"layer": "scalar-history", "case": case, "observed": [repr(r)[:80] for _, r in obs]})
        coq.append(f"({HOP[warm_op]}, {emit_val(w)}, {emit_val(v)}, {cs(str(w))}, {cs(str(v))}, {coq_list(outs)})")
        key = fam.split("(")[0] if "seeded" in fam else fam
        dist[key] = dist.get(key, 0) + 1
    dist["skipped(judged enum member, or not ==/hash-equal)"] = skipped
    bad, _ = eval_shards(run, "shistory", "spair_case_ok", coq)
    run.record_corr("scalar-history(two-call histories over the equal numbers / paths / str families vs Model/IsoHistory.v)",
                    len(cases), [cases[i] for i in bad], len(cases), dist)
    return [cases[i]["case"] for i in bad]


def sample_laws(run):
    """the stated laws of RuntimeLaws, sampled against the interpreter (not typelib)"""
    import pendulum
    rng = random.Random(run.seed + 15)
    n = run.budget(300, 3000)
    laws = {k: 0 for k in ["utf8_rt", "int_text_rt", "float_text_rt", "dec_text_rt", "frac_text_rt", "uuid_text_rt", "path_text_rt",
                           "uuid_text_not_loadable", "parse_date_rt", "parse_dt_rt", "time_iso_rt", "canon_unsigned", "parse_dur_rt",
                           "enum_result_member"]}
    bad = []

    def law(name, ok, what):
        if ok:
            laws[name] += 1
        else:
            bad.append(f"{name}: {what}")
    for _ in range(n):
        s = rng.choice(["abc", "\u00e9t\u00e9", str(gen_int(rng)), "\U0001f600"]); law("utf8_rt", s.encode().decode() == s, s)
        z = gen_int(rng); law("int_text_rt", int(str(z)) == z, z)
        f = gen_float(rng); law("float_text_rt", float(repr(f)).hex() == f.hex(), f)
        d = gen_dec(rng); law("dec_text_rt", str(decimal.Decimal(str(d))) == str(d), d)
        q = gen_frac(rng); law("frac_text_rt", fractions.Fraction(str(q)) == q, q)
        u = gen_uuid(rng); law("uuid_text_rt", uuid.UUID(str(u)) == u, u)
        law("uuid_text_not_loadable", py_load(str(u)) == str(u) and py_load(str(u).encode()) == str(u), u)
        p = gen_path(rng); law("path_text_rt", type(p)(str(p)) == p, p)
        dt = gen_date(rng); r = pendulum.parse(dt.isoformat())
        law("parse_date_rt", (r.year, r.month, r.day, r.hour, r.minute, r.second, r.microsecond, r.utcoffset()) ==
            (dt.year, dt.month, dt.day, 0, 0, 0, 0, TD(0)), dt)
        x = gen_datetime(rng); r = pendulum.parse(x.isoformat())
        law("parse_dt_rt", r == x and r.utcoffset() == x.utcoffset() and r.replace(tzinfo=None) == x.replace(tzinfo=None), x)
        t = gen_time(rng); r = D.time.fromisoformat(t.isoformat())
        law("time_iso_rt", r.utcoffset() == t.utcoffset() and r.replace(tzinfo=None) == t.replace(tzinfo=None), t)
        law("canon_unsigned", not any(v.isoformat().startswith("-P") for v in (dt, x, t)), x)
        td = gen_td(rng)
        if td >= TD(0):
            r = pendulum.parse(iso_py(td)); law("parse_dur_rt", fields(r) == fields(td), td)
        E = rng.choice(ENUMS); m = rng.choice(list(E))
        for v in (m.value, m, str(m.value)):
            try:
                r = E(v)
            except Exception:
                continue
            law("enum_result_member", isinstance(r, E), (E.__name__, v))
    run.laws.update(laws)
    run.oblige("laws:RuntimeLaws sampled against the interpreter", not bad, "; ".join(bad[:3]))


def correspond(run: lib.Run):
    run._c04_bad = {"writer": corr_writer(run), "reader": corr_reader(run)}
    corr_pendulum(run)
    run._c04_bad["routines"] = corr_routines(run)
    corr_iso_writer(run)
    run._c04_bad["iso-reader"] = corr_iso_reader(run)
    run._c04_bad["history"] = corr_history(run) + corr_scalar_history(run)
    sample_laws(run)
    # the scalar MARSHALLERS and the leaf laws of the composite theorems, derived from this scalar model (Props/LeafBridge.v)
    import leaftie      # imports this module's generators: not at module level
    lib.run_tie(run, leaftie)
    # the isoformat / unixtime ladders of serdes.py, parsed and translated on this run (Props/SerdesAstTime.v)
    import serdesasttie
    lib.run_tie(run, serdesasttie, parts=("time",))
    run.tie_failures = list(getattr(run, "tie_failures", [])) + list(serdesasttie.search(run, parts=("time",)))


# ----------------------------------------------------------------------------------
# independent readers used by the oracle (no typelib, no model)
# ----------------------------------------------------------------------------------

_DUR = re.compile(r"(-)?P(?:(\d+)D)?(?:T(?:(\d+)H)?(?:(\d+)M)?(?:(\d+)(?:\.(\d{1,6}))?S)?)?")


def spec_read_duration(s: str):
    """ISO-8601 duration (days and clock components; ISO 8601-2 sign) -> (days, seconds, microseconds) or None"""
    m = _DUR.fullmatch(s)
    if not m or s.endswith("T") or s.lstrip("-") == "P" or not s.isascii():
        return None
    sign, d, h, mi, sec, frac = m.groups()
    us = int((frac or "0").ljust(6, "0"))
    total = (((int(d or 0) * 24 + int(h or 0)) * 60 + int(mi or 0)) * 60 + int(sec or 0)) * 10 ** 6 + us
    total = -total if sign else total
    return total // (86400 * 10 ** 6), total % (86400 * 10 ** 6) // 10 ** 6, total % 10 ** 6


def iso_py(td: TD) -> str:
    """the canonical duration text, computed by the harness for generating inputs (NOT the oracle's reference)"""
    d, s, u = fields(td)
    total = (d * 86400 + s) * 10 ** 6 + u
    sign, total = ("-", -total) if total < 0 else ("", total)
    sec, us = divmod(total, 10 ** 6); mi, sec = divmod(sec, 60); h, mi = divmod(mi, 60); dd, h = divmod(h, 24)
    date = f"{dd}D" if dd else ""
    t = (f"{h}H" if h else "") + (f"{mi}M" if mi else "") + (f"{sec}.{us:06}S" if us else (f"{sec}S" if sec else ""))
    if not date and not t:
        return "PT"
    return f"{sign}P{date}" + (f"T{t}" if t else "")


def same_temporal(a, b) -> bool:
    """equal, and for temporals with the same UTC offset and microseconds"""
    if type(a) is not type(b) and not (isinstance(a, type(b)) or isinstance(b, type(a))):
        return False
    if a != b:
        return False
    if isinstance(a, (D.datetime, D.time)):
        return a.utcoffset() == b.utcoffset() and a.microsecond == b.microsecond and a.replace(tzinfo=None) == b.replace(tzinfo=None)
    return True


def epoch_expected(x):
    """datetime for epoch seconds x, by integer / exact rational arithmetic (round-half-even to microseconds)"""
    fr = fractions.Fraction(x) * 10 ** 6
    us = fr.numerator // fr.denominator
    rem = fr - us
    if rem > fractions.Fraction(1, 2) or (rem == fractions.Fraction(1, 2) and us % 2 == 1):
        us += 1
    return EPOCH + TD(microseconds=us)


# ----------------------------------------------------------------------------------
# the property oracle on the implementation
# ----------------------------------------------------------------------------------

def _fail(site, symptom, inp, got, expected, **kw):
    d = {"site": site, "symptom": symptom, "input": inp, "got": repr(got)[:200], "expected": repr(expected)[:200]}
    d.update(kw)
    d["key"] = json.dumps([site, symptom, inp], default=str)
    return d


def check_text(kind: str, spec: dict, carriers=None, warm=True):
    """unmarshal(T, carrier(canonical text of v)) == v ; returns failures"""
    from typelib import serdes, unmarshal
    T, v = build_value(kind, spec)
    fails = []
    temporal = isinstance(v, (D.date, D.time, TD))
    impl.clear_caches()
    if temporal and warm:
        for w in warmers(v):          # the cache-warming clause
            serdes.isoformat(w)
    text = serdes.isoformat(v) if temporal else (str(v.value) if isinstance(v, enum.Enum) else str(v))
    inp = {"kind": kind, "value": spec}
    # the emitted ISO text is well-formed and means the same to an independent reader
    if isinstance(v, TD):
        r = spec_read_duration(text)
        if r is None:
            fails.append(_fail("serdes.isoformat[timedelta]", "emitted duration text is not well-formed ISO-8601", inp, text, "PnDTnHnMnS",
                               zero=(v == TD(0))))
        elif r != fields(v):
            fails.append(_fail("serdes.isoformat[timedelta]", "emitted duration text means another duration", inp, text, fields(v)))
    elif temporal:
        try:
            r = type(v).fromisoformat(text) if not isinstance(v, D.datetime) else D.datetime.fromisoformat(text)
            ok = same_temporal(r, v)
        except ValueError:
            r, ok = None, False
        if not ok:
            fails.append(_fail(f"serdes.isoformat[{kind}]", "emitted text means another value to datetime.fromisoformat", inp, text, v))
    if not temporal and not isinstance(v, enum.Enum):
        from typelib import marshal
        try:
            m = marshal(v)
        except Exception as e:
            m = e
        want = v if isinstance(v, (int, float)) else text
        if m != want or type(m) is not type(want):
            fails.append(_fail(f"marshal[{kind}]", "marshalling does not emit the canonical form", inp, m, want))
    for c in carriers or CARRIERS:
        try:
            got = unmarshal(T, carry(c, text))
        except Exception as e:
            got = e
        ok = (not isinstance(got, Exception)) and same_temporal(got, v) and type(got) is type(v)
        if not ok:
            extra = {}
            if kind == "enum" and type(v.value) is int and not (-2 ** 63 <= v.value < 2 ** 64) and float(v.value) != v.value:
                # an int value beyond 64 bits that no float holds exactly: the JSON decoder in use (orjson) reads the
                # text as a float, which is no member's value (KF-C04-enum-int-beyond-64-bits)
                extra["int_beyond_64_inexact"] = True
            fails.append(_fail(f"unmarshal[{kind}]", "canonical text does not unmarshal back to the value", inp, got, v,
                               carrier=c, text=text, **extra))
    return fails


def warmers(v):
    if isinstance(v, D.datetime) and v.tzinfo is not None:
        o = v.utcoffset()
        day = [o + TD(hours=k) for k in (24, -24, 12) if abs(o + TD(hours=k)) < TD(hours=24)]    # 24 h apart: the
        return [v.astimezone(D.timezone(x)) for x in [TD(hours=5), TD(0), -o] + day]              # offset's .seconds wraps
    if isinstance(v, D.time) and v.tzinfo is not None:
        o = v.utcoffset()
        secs = (v.hour * 3600 + v.minute * 60 + v.second + 3600) % 86400
        if v.hour < 22 and o + TD(hours=1) < TD(hours=24):
            return [v.replace(hour=v.hour + 1, tzinfo=D.timezone(o + TD(hours=1)))]
        return []
    if isinstance(v, TD):
        return [TD(hours=24 * fields(v)[0], seconds=fields(v)[1], microseconds=fields(v)[2])] if abs(fields(v)[0]) < 10 ** 7 else []
    return []


def build_value(kind: str, spec):
    if kind == "int":
        return int, int(spec)
    if kind == "float":
        return float, float.fromhex(spec)
    if kind == "decimal":
        return decimal.Decimal, decimal.Decimal(spec)
    if kind == "fraction":
        return fractions.Fraction, fractions.Fraction(spec)
    if kind == "uuid":
        return uuid.UUID, uuid.UUID(spec)
    if kind == "path":
        cls = getattr(pathlib, spec[0])
        return cls, cls(spec[1])
    if kind == "enum":
        E = {e.__name__: e for e in ENUMS_ORACLE}[spec[0]]
        return E, E[spec[1]]
    if kind == "date":
        return D.date, D.date(*spec)
    if kind == "datetime":
        y, mo, d, h, mi, s, us, off, fold = spec
        return D.datetime, D.datetime(y, mo, d, h, mi, s, us, tzinfo=D.timezone(TD(seconds=off)), fold=fold)
    if kind == "time":
        h, mi, s, us, off, fold = spec
        return D.time, D.time(h, mi, s, us, tzinfo=D.timezone(TD(seconds=off)), fold=fold)
    if kind == "timedelta":
        return TD, TD(days=spec[0], seconds=spec[1], microseconds=spec[2])
    raise KeyError(kind)


def spec_of(kind, v):
    if kind == "float":
        return v.hex()
    if kind in ("int", "decimal", "fraction", "uuid"):
        return str(v)
    if kind == "path":
        return [type(v).__name__, str(v)]
    if kind == "enum":
        return [type(v).__name__, v.name]
    if kind == "date":
        return [v.year, v.month, v.day]
    off = lambda x: int(x.utcoffset().total_seconds())
    if kind == "datetime":
        return [v.year, v.month, v.day, v.hour, v.minute, v.second, v.microsecond, off(v), v.fold]
    if kind == "time":
        return [v.hour, v.minute, v.second, v.microsecond, off(v), v.fold]
    if kind == "timedelta":
        return list(fields(v))


def check_numeric(case: dict):
    """numbers -> temporal (epoch seconds, UTC; seconds of duration), temporal -> number (the inverse), temporal -> str/bytes"""
    from typelib import serdes, unmarshal
    fails = []
    impl.clear_caches()
    op = case["op"]
    if op == "num->temporal":
        x = float.fromhex(case["x"]) if isinstance(case["x"], str) else case["x"]
        try:
            exp_dt = epoch_expected(x)
        except OverflowError:
            return []
        exp = {"datetime": exp_dt, "date": exp_dt.date(), "time": exp_dt.timetz(),
               "timedelta": None}
        for kind, T in (("datetime", D.datetime), ("date", D.date), ("time", D.time), ("timedelta", TD)):
            try:
                got = unmarshal(T, x)
            except Exception as e:
                got = e
            if kind == "timedelta":
                want = exp_dt - EPOCH       # seconds of duration, exact to the microsecond
            else:
                want = exp[kind]
            if isinstance(got, Exception) or not same_temporal(got, want):
                fails.append(_fail(f"unmarshal[{kind}]<-number", "number not read as epoch seconds in UTC / seconds of duration",
                                   case, got, want))
    elif op == "temporal->num":
        T, v = build_value(case["kind"], case["value"])
        if isinstance(v, TD):
            want = v / TD(seconds=1)
        elif isinstance(v, D.datetime):
            want = (v - EPOCH) / TD(seconds=1)
        else:
            want = (D.datetime(v.year, v.month, v.day, tzinfo=UTC) - EPOCH) / TD(seconds=1)
        for NT, w in ((float, want), (int, int(want))):
            try:
                got = unmarshal(NT, v)
            except Exception as e:
                got = e
            if isinstance(got, Exception) or got != w or type(got) is not NT:
                fails.append(_fail(f"unmarshal[{NT.__name__}]<-{case['kind']}", "temporal not converted by the inverse of the epoch reading",
                                   case, got, w))
    elif op == "temporal->text":
        T, v = build_value(case["kind"], case["value"])
        for w in warmers(v):
            unmarshal(str, w)
        want = iso_py(v) if isinstance(v, TD) else v.isoformat()
        for NT, w in ((str, want), (bytes, want.encode())):
            try:
                got = unmarshal(NT, v)
            except Exception as e:
                got = e
            if got != w:
                fails.append(_fail(f"unmarshal[{NT.__name__}]<-{case['kind']}", "temporal does not become its ISO-8601 text", case, got, w))
    return fails


def wire_same(got, want) -> bool:
    """same class and same spelling (repr tells -0.0 from 0.0, Decimal('2.0') from Decimal('2.00'))"""
    return type(got) is type(want) and repr(got) == repr(want)


def check_scalar_history(case: dict):
    """the cache-warming clause for the NON-temporal scalar kinds: after one call on a value w that is == v and
    hash-equal but of another spelling / class, marshal(v) is still v's own wire form -- v itself for int / float / bool
    (same class, same repr), Python's str(v) for Decimal / Fraction / path / str, the member's value for an enum --,
    unmarshal(str | bytes, v) is str(v), and the marshalled text unmarshals back to a value equal to v of v's class.
    marshal(True, t=int) must equal v and be an int (1 or True: the text does not say which; the code says 1)."""
    from typelib import unmarshal
    wv = hist_values(case)
    if wv is None:
        return []
    w, v = wv
    kind = case["kind"]
    inp = {k: case[k] for k in ("family", "warm_op", "warm", "kind", "value") if k in case}
    text = str(v)
    wire = v if kind in ("int", "float", "bool", "str") else (v.value if kind == "enum" else text)
    fails, emitted = [], None
    for op, got in run_history(case, w, v)[1:]:
        if op == "marshal":
            ok, exp = wire_same(got, wire), wire
            emitted = got if isinstance(got, str) else None
        elif op == "marshal:int":
            ok, exp = isinstance(got, int) and got == v, int(v)
        elif op == "unmarshal_str":
            ok, exp = wire_same(got, text), text
        else:
            ok, exp = wire_same(got, text.encode()), text.encode()
        if not ok:
            fails.append(_fail(f"history[{kind}]", "after a call on an equal-but-differently-represented value the emitted wire form "
                               "is not the value's own canonical one", inp, got, exp, emitting_op=op, warmed_with=repr(w)[:120]))
            break
    if emitted is not None and kind != "str":
        for c in ("CStr", "CBytes"):
            try:
                got = unmarshal(type(v), carry(c, emitted))
            except Exception as e:
                got = e
            if isinstance(got, Exception) or type(got) is not type(v) or got != v:
                fails.append(_fail(f"history[{kind}]", "the text marshalled after a call on an equal-but-differently-represented "
                                   "value does not unmarshal back to the value", inp, got, v, carrier=c, text=emitted,
                                   warmed_with=repr(w)[:120]))
                break
    return fails


def check_history(case: dict):
    """the cache-warming clause as a two-call history: after ONE emitting call on a value w that is == v (and hash-equal)
    but rendered differently, every emitting operation on v still yields v's own canonical text -- Python's
    v.isoformat(), the harness's own duration writer for timedeltas -- and that text unmarshals back to v (same offset,
    microseconds).  Cases outside the clause (w != v) are not judged, except the 'date/' near family (a date and the
    datetime at its midnight), where the judged value is in U and no call on ANOTHER value may change its text."""
    from typelib import unmarshal
    if case["kind"] not in HIST_T:
        return check_scalar_history(case)
    wv = hist_values(case)
    if wv is None:
        return []
    w, v = wv
    kind = case["kind"]
    want = iso_py(v) if isinstance(v, TD) else v.isoformat()
    inp = {k: case[k] for k in ("family", "warm_op", "warm", "kind", "value", "spelling") if k in case}
    obs = run_history(case, w, v)
    fails, text = [], None
    for op, got in obs[1:]:
        exp = want.encode() if op == "unmarshal_bytes" else want
        if text is None and isinstance(got, str):
            text = got
        if isinstance(got, Exception) or type(got) is not type(exp) or got != exp:
            fails.append(_fail(f"history[{kind}]", "after a call on an equal-but-differently-represented value the emitted text "
                               "is not the value's own canonical text", inp, got, exp, emitting_op=op,
                               warmed_with=repr(w)[:120]))
            break
    if text is not None:
        for c in ("CStr", "CBytes"):
            try:
                got = unmarshal(HIST_T[kind], carry(c, text))
            except Exception as e:
                got = e
            if isinstance(got, Exception) or not same_temporal(got, v):
                fails.append(_fail(f"history[{kind}]", "the text marshalled after a call on an equal-but-differently-represented "
                                   "value does not unmarshal back to the value", inp, got, v, carrier=c, text=text,
                                   warmed_with=repr(w)[:120]))
                break
    return fails


GEN = {"int": gen_int, "float": gen_float, "decimal": gen_dec, "fraction": gen_frac, "uuid": gen_uuid, "path": gen_path,
       "date": gen_date, "datetime": gen_datetime, "time": gen_time, "timedelta": gen_td,
       "enum": lambda rng: rng.choice(list(rng.choice(ENUMS_ORACLE)))}


def corpus(layer=None):
    base = os.path.join(lib.VERIF, "corpus", "C04")
    out = []
    if os.path.isdir(base):
        for fn in sorted(os.listdir(base)):
            if fn.endswith(".json"):
                for c in json.load(open(os.path.join(base, fn))):
                    if c.get("layer") == layer:
                        out.append(c["case"])
    return out


def run_case(case):
    if case.get("op") == "history":
        return check_history(case)
    if "op" in case:
        return check_numeric(case)
    carriers = HASHABLE if case["kind"] in ("uuid", "enum") else None     # DESIGN 9 #8 (C14): load() needs hashable text
    return check_text(case["kind"], case["value"], carriers)


def search(run: lib.Run, broken):
    rng = random.Random(run.seed + 2)
    n = run.budget(250, 4000) * (3 if broken else 1)
    cases = list(corpus("oracle"))
    # inputs on which model and implementation disagreed come first
    for c in getattr(run, "_c04_bad", {}).get("writer", [])[:50]:
        cases.append({"kind": "timedelta", "value": c["td"]})
    for kind, gen in GEN.items():
        for _ in range(n if kind in ("timedelta", "datetime", "time") else max(n // 4, 40)):
            cases.append({"kind": kind, "value": spec_of(kind, gen(rng))})
    for _ in range(n):
        x = gen_epoch(rng)
        cases.append({"op": "num->temporal", "x": x.hex() if isinstance(x, float) else x})
        kind = rng.choice(["date", "datetime", "timedelta"])
        cases.append({"op": "temporal->num", "kind": kind, "value": spec_of(kind, GEN[kind](rng))})
        kind = rng.choice(["date", "datetime", "time", "timedelta"])
        cases.append({"op": "temporal->text", "kind": kind, "value": spec_of(kind, GEN[kind](rng))})
    # round 3: every family pair, warmed through every emitting operation; mismatching correspondence cases first
    cases += getattr(run, "_c04_bad", {}).get("history", [])[:50]
    pairs, _ = c04_families.histories(run.tier, run.seed)
    for fam, warm, judged in pairs:
        for op in c04_families.OPS:
            cases.append(c04_families.case_of(fam, warm, judged, op))
    # round 4: the non-temporal scalar families (equal numbers across spellings and classes, paths, str / str-enum)
    for fam, warm, judged in c04_families.scalar_histories(run.tier, run.seed):
        for op in warm_ops(warm):
            cases.append(c04_families.case_of(fam, warm, judged, op))
    fails, hist = [], {}
    for case in cases:
        k = case.get("op") or case["kind"]
        k = "history(scalar)" if k == "history" and case["kind"] not in HIST_T else k
        hist[k] = hist.get(k, 0) + 1
        try:
            fs = run_case(case)
        except Exception as e:     # the oracle itself must not die on an input
            fs = [_fail("oracle", "oracle error " + repr(e)[:120], case, None, None)]
        for f in fs:
            f["replay"] = case
        fails += fs
    # shrink: per (site, symptom) keep the failure with the smallest input text
    best = {}
    for f in fails:
        k = (f["site"], f["symptom"], f.get("zero", False))
        size = len(json.dumps(f["input"], default=str))
        if k not in best or size < best[k][0]:
            best[k] = (size, f)
    out = [v[1] for v in sorted(best.values(), key=lambda v: v[0])]
    run.search_stats["oracle"] = {
        "evaluations": len(cases), "distinct_nontrivial": len({json.dumps(c, sort_keys=True, default=str) for c in cases}),
        "by_kind": hist, "failures": len(fails),
        "rule": "unmarshal(T, carrier(str(v)|isoformat(v))) == v (offset, microseconds, exact class) in the five carriers "
                "(hashable ones for uuid/enum), after warming isoformat with an equal-but-different value; emitted ISO text read by "
                "a regex duration reader / datetime.fromisoformat; epoch readings recomputed with exact rational arithmetic; "
                "histories: for every pair (w, v) of the enumerated ==/hash-equal families (harness/c04_families.py: same instant "
                "at every class of offset pair incl. 24 h apart, equal aware times, fold, timedelta spellings / pendulum.Duration, "
                "date vs midnight datetime) and every warming operation: op(w), then isoformat/marshal/unmarshal(str|bytes) of v "
                "== v.isoformat() and that text unmarshals back to v; the same for the non-temporal scalar families (equal numbers "
                "across int / bool / float / Decimal spellings / Fraction / IntEnum, equal paths, str vs str-enum): marshal(v) is v's own "
                "wire form (class and repr), unmarshal(str|bytes, v) is str(v), the marshalled text unmarshals back to v",
    }
    if out:
        run.samples.append({"oracle_failure": out[0]})
    return out


# ----------------------------------------------------------------------------------
# known findings / replay
# ----------------------------------------------------------------------------------

def replay(payload):
    case = payload.get("replay", payload)
    fs = run_case(case)
    return {"fails": bool(fs), "failures": fs}


def reproduces(entry):
    fs = run_case(entry["replay"])
    return any(matches(entry, f) for f in fs)


def matches(entry, failure):
    m = entry.get("matches", {})
    return all(failure.get(k) == v for k, v in m.items())
