"""C18 -- generic item and value iteration is lossless and non-destructive (DESIGN 7/C18)."""
from __future__ import annotations

import collections.abc
import copy
import glob
import json
import os
import random

import impl
import lib
import iotie
import serdesasttie
from lib import coq_list
import c18_objs as O

COQ_TARGETS = ["theories/Proofs/IterLemmas.vo", "theories/Model/IterEq.vo", "theories/Props/C18.vo"]
COQ_TARGETS = COQ_TARGETS + [t for t in iotie.COQ_TARGETS if t not in COQ_TARGETS]
COQ_TARGETS = COQ_TARGETS + [t for t in serdesasttie.COQ_TARGETS_ITER if t not in COQ_TARGETS]
THEOREMS = ["C18_items", "C18_values", "C18_full_repaired", "C18_once", "C18_nondestructive",
            "C18_strategy_per_class", "C18_pinned_peek_nonempty", "C18_refuted_namedtuple",
            "C18_refuted_empty_iter", "C18_refuted_signature_fields", "C18_refuted_private_slots",
            "C18_inherited_slots_reading", "C18_full_pinned_false"]
EXN = {"EStopIter", "EAttribute", "EType", "EValue"}
HDR = ("From Coq Require Import List ZArith NArith String Ascii Bool.\nImport ListNotations.\n"
       "Require Import TL.Model.Iter TL.Model.IterEq.\n")


def _ensure_built():
    """Local workaround: lib.base_make hands coq_makefile an absolute project path, coqdep then writes absolute names into
    .Makefile.C18.d and `make <relative target>` does not know that IterEq/IterLemmas/C18 need Iter.vo first.  Compile the
    four files in dependency order (only when a .vo is missing or stale); base_make afterwards is a no-op or reports."""
    import fcntl
    order = ["theories/Model/Iter.v", "theories/Model/IterEq.v", "theories/Proofs/IterLemmas.v", "theories/Props/C18.v"]
    with open(os.path.join(lib.COQ, ".lock"), "w") as lock:
        fcntl.flock(lock, fcntl.LOCK_EX)
        try:
            stale = False
            for f in order:
                src, vo = os.path.join(lib.COQ, f), os.path.join(lib.COQ, f + "o")
                stale = stale or not os.path.exists(vo) or os.path.getmtime(vo) < os.path.getmtime(src)
                if stale:
                    if os.path.exists(vo):
                        os.unlink(vo)
                    rc, _, _ = lib.sh(["coqc", "-q", "-Q", "theories", "TL", f], timeout=900, cwd=lib.COQ)
                    if rc != 0:
                        break
        finally:
            fcntl.flock(lock, fcntl.LOCK_UN)


_ensure_built()


# ----------------------------------------------------------------------------------
# reflect: the class predicates the code consults, on a representative of every class
# ----------------------------------------------------------------------------------
def representatives():
    i1, i2 = {"t": "int", "v": 1}, {"t": "int", "v": 2}
    reps = [{"t": "none"}, i1, {"t": "str", "v": "ab"}, {"t": "str", "v": ""}, {"t": "bytes", "v": [97, 98, 99]}]
    for k in O.COLL:
        if k == "KItemsView":
            reps.append({"t": "coll", "k": k, "l": [{"t": "coll", "k": "KTuple", "l": [i1, i2]}]})
        else:
            reps.append({"t": "coll", "k": k, "l": [i1, i2]})
    for k in O.MAPS:
        reps.append({"t": "dict", "k": k, "l": [[i1, i2], [i2, i1]]})
    reps.append({"t": "named", "style": "collections", "fields": ["a", "b"], "l": [i1, i2]})
    reps.append({"t": "named", "style": "typing", "fields": ["a", "b", "c"], "l": [i1, i2, i1]})
    for fl in ("dataclass", "annotated", "slots", "vars"):
        reps.append({"t": "obj", "cls": {"flavour": fl, "slots": False, "members": [{"n": "a", "cv": False}],
                                          "init": "matching"}, "vals": [["a", i1]], "extra": []})
    reps.append({"t": "obj", "cls": {"flavour": "dataclass", "slots": True, "members": [{"n": "a", "cv": False}],
                                      "init": "matching"}, "vals": [["a", i1]], "extra": []})
    for k in O.ITERS:
        l = [{"t": "coll", "k": "KTuple", "l": [i1, i2]}] if k == "IZipObj" else [i1, i2]
        reps.append({"t": "iter", "k": k, "consumed": 0, "l": l})
    # round 3: a representative of every DERIVED shape (the predicates must not depend on how the class came about)
    rng = random.Random(18)
    for style in ("typing", "collections"):
        for kind in O.D.NAMED_KINDS[1:]:
            reps.append({"t": "named", "style": style, "fields": ["a", "b"], "l": [i1, i2], "derive": kind})
    for fl, sl, kind in O.D.all_obj_kinds():
        if kind != "direct" or (fl == "annotated" and sl):
            reps.append(O.g_shape(rng, fl, sl, kind, [{"n": "a", "cv": False}, {"n": "b", "cv": False}], [i1, i2],
                                  init="matching"))
    for kind in O.D.TD_KINDS:
        reps.append({"t": "dict", "k": "MDict", "td": {"kind": kind, "k": 1}, "l": [[{"t": "str", "v": "a"}, i1],
                                                                                   [{"t": "str", "v": "b"}, i2]]})
    return reps


def reflect_classes():
    from typelib.py import inspection as I
    rows, problems = [], []
    for d in representatives():
        d = copy.deepcopy(d)
        b = O.Built()
        x = b.build(d)
        problems += b.problems
        cls = x.__class__
        impl.clear_caches()
        try:
            flags = (I.isiterabletype(cls), I.ismappingtype(cls), I.issequencetype(cls), I.isnamedtuple(cls),
                     I.iscollectiontype(cls))
        except Exception as e:
            problems.append(f"predicate raised on {cls.__name__}: {e!r}")
            continue
        ln = len(x) if isinstance(x, collections.abc.Sized) else None
        rows.append("(%s, (%s), %s)" % (O.emit(d), ", ".join(lib.coq_bool(bool(f)) for f in flags),
                                        "None" if ln is None else f"(Some {ln}%nat)"))
    text = ("(* generated on this run from typelib.py.inspection applied to the class of a representative *)\n" + HDR +
            "Definition class_rows : list class_row :=\n  [ " + ";\n    ".join(rows) + " ].\n")
    return text, problems


def prove(run: lib.Run):
    run.check_props("Props/C18.v", THEOREMS)
    text, problems = reflect_classes()
    run.oblige("reflect:class predicates evaluated on every representative", not problems, "; ".join(problems[:3]))
    if run.compile_dyn("GenIterClasses.v", text=text):
        run.compile_dyn("C18Tables.v", src=os.path.join(lib.DYN, "C18", "C18Tables.v"), theorems=["C18_class_table_ok"])
    if run.tier == "thorough":
        rc, out, err = lib.sh(["coqchk", "-silent", "-o", "-Q", lib.THEORIES, "TL", "TL.Props.C18"], timeout=1200, cwd=lib.COQ)
        import re
        out = out + "\n" + err
        ax = re.search(r"\* Axioms:[ \t]*(.*?)\n\s*\n", out + "\n\n", flags=re.S)
        axioms = " ".join(ax.group(1).split()) if ax else "?"
        run.oblige("coqchk:TL.Props.C18 re-checked by the standalone checker, no axioms", rc == 0 and axioms == "<none>",
                   out[-400:] if rc else f"axioms: {axioms}")
        run.checker_cmds.append("coqchk -silent -o -Q coq/theories TL TL.Props.C18")
        run.extra_cov["coqchk_axioms"] = axioms
    run.assumptions += [
        "C18: the theorems are about Model/Iter.v (hand-written reading of serdes.iteritems/itervalues/"
        "_is_iterable_of_pairs/get_items_iter/_make_fields_iterator, variant 'repaired' = with proposed_fixes/C18-*.diff); "
        "tied to the code by the Iter correspondence and the reflected class-predicate table",
        "C18: iteration order and len() of Python containers, more_itertools.peekable, dataclasses.fields, "
        "typing.get_type_hints, getattr/vars are interpreter behaviour: encoded in elems/attr/pk_* and compared on every case",
        "C18: 'pair' = any collection of length 2 in the Coq specification (in favour of the code); the oracle judges only "
        "2-tuples/2-lists and ClassVar entries are not judged",
    ]


# ----------------------------------------------------------------------------------
# running the implementation on one description
# ----------------------------------------------------------------------------------
def tuple_desc(a, b):
    return {"t": "coll", "k": "KTuple", "l": [a, b]}


def run_one(desc, func, clear=True):
    """Build x, call list(func(x)); returns (normalised desc, observation, x-afterwards desc, class sources)."""
    from typelib import serdes
    d = copy.deepcopy(desc)
    b = O.Built()
    impl.clear_caches()
    if not clear:
        # warm caches: first the same call on ANOTHER instance of the same class(es) with different content
        try:
            list(getattr(serdes, func)(b.build(O.perturb(desc))))
        except BaseException:  # noqa: BLE001
            pass
    x = b.build(d)
    try:
        b.xrepr = repr(x)[:300]
    except Exception:  # noqa: BLE001
        b.xrepr = "<unprintable>"
    try:
        out = list(getattr(serdes, func)(x))
        obs = ("ok", [b.desc_of(y) for y in out])
    except BaseException as e:  # noqa: BLE001  (StopIteration etc. are observations)
        k = impl.exc_kind(e)
        obs = ("raise", k if k in EXN else "EOther", repr(e))
    if d["t"] == "iter":
        try:
            rest = [b.desc_of(y) for y in x]
        except BaseException as e:  # noqa: BLE001
            rest = None
        total = len(d["l"])
        if rest is None or len(rest) > total or [O.emit(r) for r in rest] != [O.emit(e) for e in d["l"][total - len(rest):]]:
            after = dict(d, consumed=4999)            # residual is not a suffix of the original: cannot match anything
        else:
            after = dict(d, consumed=total - len(rest))
    else:
        try:
            after = b.desc_of(x)
        except Exception:  # noqa: BLE001
            after = {"t": "none"}
    return d, obs, after, b


def emit_obs(obs, after) -> str:
    if obs[0] == "ok":
        r = "(@Ok (list val) %s)" % coq_list([O.emit(y) for y in obs[1]], "val")
    else:
        r = "(@Raise (list val) %s)" % obs[1]
    return "(%s, %s)" % (r, O.emit(after))


# ----------------------------------------------------------------------------------
# correspondence
# ----------------------------------------------------------------------------------
def fixed_cases():
    """the witnesses of the refutation theorems and other boundary inputs: always part of the run"""
    out = [json.load(open(p))["case"] for p in sorted(glob.glob(os.path.join(lib.VERIF, "corpus", "C18", "*.json")))]
    for k in O.COLL + O.ITERS:
        t = "iter" if k in O.ITERS else "coll"
        base = {"t": t, "k": k, "l": []}
        if t == "iter":
            base["consumed"] = 0
        out.append(base)
    return out + O.catalogue()         # round 3: every derivation kind x member shape x pair-like first field


def correspond(run: lib.Run):
    n = run.budget(4000, 100000)
    rng = run.rng
    descs = fixed_cases()
    while len(descs) < n:
        descs.append(O.g_case(rng))
    cases, coq, dist, outcome = [], [], {}, {}
    problems = []
    for i, desc in enumerate(descs):
        clear = (i % 4 != 3)            # every fourth case: caches warmed by a different instance of the same class
        try:
            d, oi, ai, b1 = run_one(desc, "iteritems", clear)
            d2, ov, av, b2 = run_one(desc, "itervalues", clear)
            problems += b1.problems + b2.problems
            if O.emit(d) != O.emit(d2):
                problems.append(f"case {i}: two builds of one description differ")
            term = "(%s, %s, %s)" % (O.emit(d), emit_obs(oi, ai), emit_obs(ov, av))
            err = None
        except Exception as e:  # noqa: BLE001
            d, term, err, oi, ov = desc, None, repr(e), ("harness",), ("harness",)
        lab = O.label(d)
        dist[lab] = dist.get(lab, 0) + 1
        oc = "items:%s values:%s" % (oi[0] if oi[0] != "raise" else oi[1], ov[0] if ov[0] != "raise" else ov[1])
        outcome[oc] = outcome.get(oc, 0) + 1
        cases.append({"layer": "iter", "case": d, "label": lab, "iteritems": repr(oi)[:300], "itervalues": repr(ov)[:300],
                      "error": err})
        coq.append(term)
    run.oblige("harness:descriptions agree with the interpreter's view of the synthesised classes", not problems,
               "; ".join(problems[:3]))
    # shards of <= 400 cases
    files, shard_idx = {}, {}
    idx_ok = [i for i, t in enumerate(coq) if t is not None]
    bad = [i for i, t in enumerate(coq) if t is None]
    for s in range(0, len(idx_ok), 400):
        part = idx_ok[s:s + 400]
        name = f"cases_iter_{s // 400:03d}.v"
        files[name] = (HDR + "Definition cases : list iter_case :=\n " +
                       coq_list([coq[i] for i in part]).replace("; ((V", ";\n  ((V") +
                       ".\nEval vm_compute in mismatches (iter_case_ok pinned) cases.\n"
                       "Eval vm_compute in mismatches (iter_case_ok repaired) cases.\n")
        shard_idx[name] = part
    res = run.coq_eval_many(files, timeout=900)
    for name, part in shard_idx.items():
        r = res.get(name)
        if r is None:
            run.oblige(f"evaluate:{name}", False, "model evaluation did not compile")
            bad += part
        else:
            bad += [part[j] for j in lib.parse_nat_list(r[-1])]
    bad = sorted(set(bad))
    pinned_bad = sum(len(lib.parse_nat_list(r[-2])) for r in res.values() if r and len(r) >= 2)
    if bad:
        run.notes.append(f"model variant 'pinned' (tree without proposed_fixes/C18-*.diff) disagrees on {pinned_bad} cases, "
                         f"variant 'repaired' on {len(bad)}" + ("; the tree behaves exactly like the pinned variant: "
                         "the fixes are not applied" if pinned_bad == 0 else ""))
    nontriv = len({t for t in coq if t})
    dist_all = {"kinds": dist, "outcomes": outcome, "warm_cache_cases": len(descs) // 4,
                "cases_on_which_the_pinned_variant_differs": pinned_bad}
    run.record_corr("iter", len(cases), [cases[i] for i in bad], nontriv, dist_all)
    run.samples.append({k: v for k, v in cases[min(len(cases) - 1, 60)].items()})
    run._c18_bad = [descs[i] for i in bad[:200]]
    lib.run_tie(run, iotie)      # Core.itervalues/iteritems/load ARE these models (Props/IoBridge.v) + direct core-io stream
    # the source of serdes.py, parsed and translated on this run, IS the model's function (Props/SerdesAst*.v + coq/dyn/SerdesAst)
    lib.run_tie(run, serdesasttie, parts=("iter",))
    run.tie_failures = list(getattr(run, "tie_failures", [])) + list(serdesasttie.search(run, parts=("iter",)))


# ----------------------------------------------------------------------------------
# the property oracle: the statement, read literally, on the implementation
# ----------------------------------------------------------------------------------
def _elements(d):
    t = d["t"]
    if t == "str":
        return [{"t": "str", "v": ch} for ch in d["v"]]
    if t == "bytes":
        return [{"t": "int", "v": v} for v in d["v"]]
    if t == "iter":
        return d["l"][d["consumed"]:]
    return d["l"]


def _is_pair(e):
    return e["t"] == "coll" and e["k"] in ("KTuple", "KList") and len(e["l"]) == 2


def _len2(e):
    t = e["t"]
    if t == "str" or t == "bytes":
        return len(e["v"]) == 2
    if t in ("coll", "dict", "named"):
        return len(e["l"]) == 2 and not (t == "coll" and e["k"] == "KCustomIterable")
    return False


def required(d):
    """(items, values, skip) prescribed by the statement for the normalised description d; items/values are lists of
    descriptions or None when the statement does not decide; skip = field names that are not judged."""
    t = d["t"]
    s = lambda v: {"t": "str", "v": v}  # noqa: E731
    if t == "dict":
        return [tuple_desc(k, v) for k, v in d["l"]], [v for _, v in d["l"]], set()
    if t == "named":
        pairs = list(zip(d["fields"], d["l"]))
        return [tuple_desc(s(f), v) for f, v in pairs], [v for _, v in pairs], set()
    if t == "obj":
        cd = d["cls"]
        cv = {m["n"] for m in cd["members"] if m["cv"]}
        if cd["flavour"] == "dataclass" and O.D.kind_of(cd) != "dc-sub-plain-ann":
            # round 3: a ClassVar pseudo-field of a DATACLASS is by dataclasses' own definition not a field
            # (dataclasses.fields omits it), so it must not be yielded: judged.  Still not judged: ClassVar annotations
            # of plain annotated classes, and annotations an UNdecorated subclass adds to a dataclass (dc-sub-plain-ann).
            cv = set()
        vals = dict((n, v) for n, v in d["vals"])
        extra = [(n, v) for n, v in d.get("extra", [])]
        fl = cd["flavour"]
        if fl == "vars":
            pairs = [(n, v) for n, v in list(d["vals"]) + extra if not n.startswith("_")]
        else:
            names = [m["n"] for m in cd["members"] if not m["cv"] and not m["n"].startswith("_")]
            if not names and any(not n.startswith("_") for n, _ in extra):
                return None, None, cv      # only ad-hoc public attributes: not fields, not decided
            if any(n not in vals for n in names):
                return None, None, {"*malformed*"}      # a declared field was never set: not an object of the quantifier
            pairs = [(n, vals[n]) for n in names]
        return [tuple_desc(s(n), v) for n, v in pairs], [v for _, v in pairs], cv
    els = _elements(d)
    values = els
    if els and all(_is_pair(e) for e in els):
        return els, values, set()
    if not any(_len2(e) for e in els):
        return [tuple_desc({"t": "int", "v": i}, e) for i, e in enumerate(els)], values, set()
    return None, values, set()


def judge(desc, clear=True):
    """Run the statement on one description; returns a list of failure dicts."""
    fails = []
    for func in ("iteritems", "itervalues"):
        d, obs, after, b = run_one(desc, func, clear)
        items, values, skip = required(d)
        want = items if func == "iteritems" else values
        base = {"func": func, "call": f"list(typelib.serdes.{func}(x))", "x_repr": b.xrepr, "x_coq": O.emit(d)[:600],
                "case": d, "label": O.label(d), "sources": b.sources}
        if "*malformed*" in skip:
            continue
        if obs[0] == "raise":
            if True:
                fails.append(dict(base, symptom=f"raised {obs[1]}", got=obs[2],
                                  expected=None if want is None else [O.emit(w) for w in want][:6]))
            continue
        got = obs[1]
        if want is not None:
            if skip:       # ClassVar entries are not judged
                if func == "iteritems":
                    got = [g for g in got if not (g["t"] == "coll" and len(g["l"]) == 2 and g["l"][0].get("v") in skip)]
                else:
                    got = None
            if got is not None and [O.emit(g) for g in got] != [O.emit(w) for w in want]:
                fails.append(dict(base, symptom="wrong elements", got=[O.emit(g) for g in got][:8],
                                  expected=[O.emit(w) for w in want][:8]))
        if d["t"] == "iter":
            if after["consumed"] != len(d["l"]):
                fails.append(dict(base, symptom="one-shot iterator not exhausted or elements lost",
                                  got=after["consumed"], expected=len(d["l"])))
        elif O.emit(after) != O.emit(d):
            fails.append(dict(base, symptom="x was modified", got=O.emit(after)[:300], expected=O.emit(d)[:300]))
    for f in fails:
        cat = {"dict": "mapping", "named": "namedtuple", "obj": "structured"}.get(d["t"], "iterable")
        f["category"] = cat
        f["key"] = json.dumps([f["symptom"], cat])
    return fails


def shrink(desc, symptom, func):
    """greedy structural shrink keeping the same symptom"""
    def still(d):
        try:
            return any(f["symptom"] == symptom and f["func"] == func for f in judge(d))
        except Exception:  # noqa: BLE001
            return False
    cur = copy.deepcopy(desc)
    changed = True
    while changed:
        changed = False
        cands = []
        if cur["t"] in ("coll", "iter", "dict"):
            for i in reversed(range(len(cur["l"]))):
                c = copy.deepcopy(cur)
                del c["l"][i]
                if c["t"] == "iter":
                    c["consumed"] = min(c["consumed"], len(c["l"]))
                cands.append(c)
            if cur["t"] == "iter" and cur["consumed"]:
                cands.append(dict(copy.deepcopy(cur), consumed=0))
        if cur["t"] == "obj":
            if cur["cls"].get("derive"):                      # is the derivation essential?
                c = copy.deepcopy(cur)
                del c["cls"]["derive"]
                cands.append(c)
            for flag in ("init_ann", "slots_str"):
                if cur["cls"].get(flag):
                    c = copy.deepcopy(cur)
                    del c["cls"][flag]
                    cands.append(c)
            for i in reversed(range(len(cur["cls"]["members"]))):
                c = copy.deepcopy(cur)
                m = c["cls"]["members"].pop(i)
                c["vals"] = [v for v in c["vals"] if v[0] != m["n"]]
                if c["cls"]["flavour"] == "annotated" and not c["cls"]["members"]:
                    continue
                der = c["cls"].get("derive")
                if der:
                    if der.get("j") is not None:
                        if der["j"] == i:
                            continue
                        der["j"] -= der["j"] > i
                    if der.get("k") is not None:
                        der["k"] -= der["k"] > i
                cands.append(c)
            if cur.get("extra"):
                cands.append(dict(copy.deepcopy(cur), extra=[]))
            for i, (n, v) in enumerate(cur["vals"]):          # field values: a scalar where any value will do
                if v != {"t": "int", "v": 0}:
                    c = copy.deepcopy(cur)
                    c["vals"][i][1] = {"t": "int", "v": 0}
                    cands.append(c)
        if cur["t"] in ("coll", "iter") and len(cur["l"]) == 1 and cur["l"][0]["t"] in ("named", "obj"):
            e = cur["l"][0]                                   # shrink the only element in place
            if e.get("derive") or (e["t"] == "obj" and e["cls"].get("derive")):
                c = copy.deepcopy(cur)
                if e["t"] == "named":
                    del c["l"][0]["derive"]
                else:
                    del c["l"][0]["cls"]["derive"]
                cands.append(c)
        if cur["t"] == "dict" and cur.get("td"):
            c = copy.deepcopy(cur)
            del c["td"]
            cands.append(c)
        if cur["t"] == "named":
            if (cur.get("derive") or "direct") != "direct":
                c = copy.deepcopy(cur)
                del c["derive"]
                cands.append(c)
            for i in reversed(range(1, len(cur["l"]))):
                c = copy.deepcopy(cur)
                del c["l"][i]
                del c["fields"][i]
                cands.append(c)
        for c in cands:
            if O.weight(c) < O.weight(cur) and still(c):
                cur, changed = c, True
                break
    return cur


def search(run: lib.Run, broken):
    rng = random.Random(run.seed + 18)
    n = run.budget(1500, 40000)
    if broken:
        n = max(n, 6000)
    stream = fixed_cases() + list(getattr(run, "_c18_bad", []))
    while len(stream) < n:
        stream.append(O.g_case(rng))
    fails, judged, undecided, labels = [], 0, 0, {}
    for i, desc in enumerate(stream):
        try:
            fs = judge(desc, clear=(i % 4 != 3))
        except Exception as e:  # noqa: BLE001
            fs = [{"symptom": "harness error", "func": "-", "label": O.label(desc), "case": desc, "got": repr(e),
                   "key": "harness:" + O.label(desc)}]
        judged += 1
        try:
            it, _, _ = required(desc)
            undecided += it is None
        except Exception:  # noqa: BLE001
            pass
        labels[O.label(desc)] = labels.get(O.label(desc), 0) + 1
        fails += fs
        if len(fails) > 300:
            break
    best = {}
    for f in fails:
        k = f["key"]
        sz = O.size(f["case"])
        if k not in best or sz < best[k][0]:
            best[k] = (sz, f)
    out = []
    for sz, f in sorted(best.values(), key=lambda v: v[0]):
        if f["symptom"] != "harness error":
            small = shrink(f["case"], f["symptom"], f["func"])
            g = [x for x in judge(small) if x["symptom"] == f["symptom"] and x["func"] == f["func"]]
            if g:
                f = g[0]
        f["replay_note"] = "payload['case'] is the description of x; ./check C18 --replay <this file> rebuilds x and re-judges"
        out.append(f)
    run.search_stats["oracle"] = {
        "evaluations": judged, "distinct_nontrivial": judged - undecided, "failures": len(fails),
        "items_not_decided_by_statement": undecided, "kinds": labels,
        "rule": "corpus + boundary cases + mismatching correspondence cases + generated stream; a case is non-trivial "
                "when the statement decides list(iteritems(x)) for it (all elements 2-tuples/2-lists, or no element of "
                "length 2); ClassVar entries and first elements that are other collections of length 2 are not judged",
    }
    if out:
        run.samples.append({"oracle_failure": {k: v for k, v in out[0].items() if k != "sources"}})
    return out


# ----------------------------------------------------------------------------------
# known findings / replay
# ----------------------------------------------------------------------------------
def replay(payload):
    fs = judge(payload["case"])
    if payload.get("func"):
        fs = [f for f in fs if f["func"] == payload["func"]] or fs
    return {"fails": bool(fs), "failures": [{k: v for k, v in f.items() if k != "sources"} for f in fs]}


def reproduces(entry):
    return replay(entry["replay"])["fails"]


def matches(entry, failure):
    m = entry.get("matches", {})
    return bool(m) and all(failure.get(k) == v for k, v in m.items())
