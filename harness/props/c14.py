"""C14 -- text-like inputs are interchangeable (DESIGN 7/C14).

prove      : Props/C14.v (theorems over Model/Serdes.v), Print Assumptions closed.
correspond : (1) serdes.decode / load / strload on strings x 5 carriers vs the model, runtime tables
                 (utf-8, JSON decoder in use, ast.literal_eval) filled from the interpreter primitives;
             (2) the first step of every routine class through unmarshal(T, carrier) for representative T,
                 the remainder of the routine being the implementation's own behaviour on the value the
                 first step produced (asked only where the first step is the identity).
search     : the statement itself on the implementation, independent of the model.
"""
from __future__ import annotations

import ast
import collections
import collections.abc as cabc
import dataclasses
import datetime
import decimal
import enum
import fractions
import importlib
import json as stdjson
import os
import pathlib
import random
import re
import typing
import uuid

import jsonbackend  # noqa: F401 - VERIF_JSON_BACKEND switch, before typelib is imported
import impl
import lib
import iotie
import serdesjsontie
import literaltie
import routasttie
import serdesasttie
from lib import coq_list

COQ_TARGETS = ["theories/Proofs/SerdesLemmas.vo", "theories/Model/SerdesEq.vo"]
COQ_TARGETS = COQ_TARGETS + [t for t in iotie.COQ_TARGETS if t not in COQ_TARGETS]
COQ_TARGETS = COQ_TARGETS + [t for t in serdesjsontie.COQ_TARGETS if t not in COQ_TARGETS]
COQ_TARGETS = COQ_TARGETS + [t for t in serdesasttie.COQ_TARGETS_LOAD if t not in COQ_TARGETS]
COQ_TARGETS = COQ_TARGETS + [t for t in literaltie.COQ_TARGETS if t not in COQ_TARGETS]
COQ_TARGETS = COQ_TARGETS + [t for t in routasttie.COQ_TARGETS if t not in COQ_TARGETS]
THEOREMS = ["C14_full_holds", "C14_full_pinned_refuted", "C14_decode_carriers", "C14_load_carriers", "C14_carriers", "C14_json_text", "C14_literal_text",
            "C14_load_json", "C14_load_plain_text", "C14_load_nontext",
            "C14_refuted_bytearray", "C14_literal_carriers", "C14_refuted_resource"]
CARRIERS = ["CStr", "CBytes", "CBytearray", "CMemviewRO", "CMemviewRW"]
BIN = CARRIERS[1:]


# ----------------------------------------------------------------------------------
# prove
# ----------------------------------------------------------------------------------

def prove(run: lib.Run):
    run.check_props("Props/C14.v", THEOREMS)
    run.assumptions += [
        "C14: the interpreter pieces are a record argument with stated laws (RuntimeLaws): bytes.decode inverts "
        "str.encode on scalar-value strings; the JSON decoder in use reads bytes as their UTF-8 decoding and raises "
        "only ValueErrors on text; ast.literal_eval raises only ValueError/TypeError/SyntaxError/MemoryError/"
        "RecursionError; the laws are sampled against the interpreter on every run (runtime_laws_sampled)",
        "C14: the remainder of every routine after its first step is an arbitrary function `rest` of the value the first "
        "step produced (theorems quantify over it); that the remainder does not look at the raw text input again is my "
        "reading of routines.py, tied by the routine-entry correspondence",
        "C14: the hand model of decode/load/strload/istexttype and of which routine starts with which step is tied by "
        "correspondence only",
    ]


# ----------------------------------------------------------------------------------
# carriers, interpreter primitives
# ----------------------------------------------------------------------------------

def mk(kind: str, payload):
    """payload: str for CStr, bytes otherwise"""
    if kind == "CStr":
        return payload
    if kind == "CBytes":
        return bytes(payload)
    if kind == "CBytearray":
        return bytearray(payload)
    if kind == "CMemviewRO":
        return memoryview(bytes(payload))
    return memoryview(bytearray(payload))


def carriers_of(inp):
    """inp = ("s", str) -> five carriers;  ("b", bytes) -> the four bytes-like carriers"""
    tag, p = inp
    if tag == "s":
        b = p.encode("utf-8")
        return [("CStr", p)] + [(k, b) for k in BIN]
    return [(k, p) for k in BIN]


def exn_kind(e: BaseException) -> str:
    if isinstance(e, RecursionError):
        return "ERecursion"
    if isinstance(e, MemoryError):
        return "EMemory"
    if isinstance(e, UnicodeError):
        return "EUnicode"
    if isinstance(e, ValueError):
        return "EValue"
    if isinstance(e, TypeError):
        return "EType"
    if isinstance(e, SyntaxError):
        return "ESyntax"
    if isinstance(e, AttributeError):
        return "EAttribute"
    return "EOther"


def attempt(f, *a):
    try:
        return ("ok", f(*a))
    except BaseException as e:  # noqa: BLE001 - the kind is the observation
        if isinstance(e, (KeyboardInterrupt, SystemExit)):
            raise
        return ("err", exn_kind(e), repr(e)[:120])


_DECODER = None


def json_decoder():
    """the JSON decoder typelib's compat layer selected, called directly"""
    global _DECODER
    if _DECODER is None:
        from typelib.py import compat
        _DECODER = importlib.import_module(compat.json.__name__).loads
    return _DECODER


class Prims:
    """interpreter answers for one payload (str or bytes)"""

    def __init__(self, payload):
        loads = json_decoder()
        self.payload = payload
        if isinstance(payload, str):
            self.bytes = payload.encode("utf-8")
            self.utf8 = ("ok", payload)
        else:
            self.bytes = payload
            self.utf8 = attempt(payload.decode, "utf-8")
        self.decoded = self.utf8[1] if self.utf8[0] == "ok" else None
        self.jbin = attempt(loads, self.bytes)
        self.jstr = attempt(loads, self.decoded) if self.decoded is not None else None
        self.lit = attempt(ast.literal_eval, self.decoded) if self.decoded is not None else None


LIT_DOC = ("EValue", "EUnicode", "EType", "ESyntax", "EMemory", "ERecursion")


def prim_fixpoint(c) -> bool:
    """would the loader return the text c itself (so that unmarshal(T, c) shows the remainder at c)?
    decided from the primitives only"""
    if not isinstance(c, str):
        return False
    j = attempt(json_decoder(), c)
    if j[0] == "ok":
        return False
    l = attempt(ast.literal_eval, c)
    return l[0] == "err" and l[1] in LIT_DOC


# ----------------------------------------------------------------------------------
# Coq emission
# ----------------------------------------------------------------------------------

class Emitter:
    def __init__(self):
        self.lists: dict[tuple, str] = {}
        self.other: dict[str, int] = {}
        self.defs: list[str] = []

    def nlist(self, vals) -> str:
        vals = tuple(vals)
        if len(vals) <= 6:
            return "(@nil N)" if not vals else "[" + "; ".join(f"{v}%N" for v in vals) + "]"
        if vals not in self.lists:
            name = f"L{len(self.lists)}"
            self.lists[vals] = name
            self.defs.append(f"Definition {name} : list N := [" + "; ".join(str(v) for v in vals) + "]%N.")
        return self.lists[vals]

    def text(self, kind, payload) -> str:
        vals = [ord(c) for c in payload] if isinstance(payload, str) else list(payload)
        return f"(PText {kind} {self.nlist(vals)})"

    def oth(self, key: str) -> str:
        if key not in self.other:
            self.other[key] = len(self.other) + 1        # 0 is the skip token
        return f"(POther {self.other[key]}%N)"

    def pv(self, x, depth=0) -> str:
        t = type(x)
        if x is None:
            return "PNone"
        if t is bool:
            return "(PBool true)" if x else "(PBool false)"
        if t is int:
            return f"(PInt ({x})%Z)"
        if t is float:
            return self.flt(x)
        if t is str:
            return self.text("CStr", x)
        if t is bytes:
            return self.text("CBytes", x)
        if t is bytearray:
            return self.text("CBytearray", bytes(x))
        if t is memoryview:
            return self.text("CMemviewRO" if x.readonly else "CMemviewRW", bytes(x))
        if depth < 12:
            if t is list:
                return "(PList %s)" % coq_list([self.pv(e, depth + 1) for e in x], "pv")
            if t is tuple:
                return "(PTuple %s)" % coq_list([self.pv(e, depth + 1) for e in x], "pv")
            if t is set:
                return "(PSet %s)" % coq_list(sorted(self.pv(e, depth + 1) for e in x), "pv")
            if t is dict:
                return "(PDict %s)" % coq_list(
                    ["(%s, %s)" % (self.pv(k, depth + 1), self.pv(v, depth + 1)) for k, v in x.items()], "(pv * pv)")
        if isinstance(x, (cabc.Iterator, cabc.Generator)):
            return self.oth("iterator:" + repr([repr(e) for e in x]))
        return self.oth(f"{t.__module__}.{t.__qualname__}:{x!r}")

    def flt(self, f: float) -> str:
        if f != f:
            return "(PFloatS 3%N)"
        if f in (float("inf"), float("-inf")):
            return "(PFloatS 1%N)" if f > 0 else "(PFloatS 2%N)"
        if f == 0:
            return "(PFloat 0%Z 0%Z)" if str(f) == "0.0" else "(PFloatS 0%N)"
        n, d = f.as_integer_ratio()
        e = -(d.bit_length() - 1)
        while n % 2 == 0:
            n //= 2
            e += 1
        return f"(PFloat ({n})%Z ({e})%Z)"

    def res(self, r, ty="pv") -> str:
        if r[0] == "ok":
            return f"(Ok {self.pv(r[1])})"
        return f"(@Raise {ty} {r[1]})"

    def res_str(self, r) -> str:
        if r[0] == "ok":
            return f"(Ok {self.nlist([ord(c) for c in r[1]])})"
        return f"(@Raise str {r[1]})"

    def tabs(self, pr: Prims) -> str:
        b = self.nlist(list(pr.bytes))
        utf8 = f"[({b}, {self.res_str(pr.utf8)})]"
        jbin = f"[({b}, {self.res(pr.jbin)})]"
        if pr.decoded is not None:
            s = self.nlist([ord(c) for c in pr.decoded])
            jstr = f"[({s}, {self.res(pr.jstr)})]"
            lit = f"[({s}, {self.res(pr.lit)})]"
        else:
            jstr = lit = "[]"
        return "{| t_utf8 := %s; t_jstr := %s; t_jbin := %s; t_lit := %s |}" % (utf8, jstr, jbin, lit)


HDR = ("From Coq Require Import List ZArith NArith Bool. Import ListNotations.\n"
       "Require Import TL.Model.Serdes TL.Model.SerdesEq.\n")


def eval_shards(run, prefix, okfns, shards):
    """shards: list of (Emitter, [coq case terms]).  Returns per okfn the list of (shard, index) flagged."""
    files = {}
    for si, (em, terms) in enumerate(shards):
        body = HDR + "\n".join(em.defs) + "\nDefinition cases := \n " + coq_list(terms).replace("; (", ";\n  (") + ".\n"
        for fn in okfns:
            body += f"Eval vm_compute in mismatches {fn} cases.\n"
        files[f"{prefix}_{si}.v"] = body
    out = run.coq_eval_many(files, timeout=900)
    flagged = [[] for _ in okfns]
    failed = []
    for si in range(len(shards)):
        r = out.get(f"{prefix}_{si}.v")
        if r is None or len(r) < len(okfns):
            failed.append(si)
            continue
        for k in range(len(okfns)):
            flagged[k] += [(si, j) for j in lib.parse_nat_list(r[-len(okfns) + k])]
    run.oblige(f"evaluate:{prefix} model shards compile ({len(shards)})", not failed, f"shards {failed} failed")
    return flagged, failed


# ----------------------------------------------------------------------------------
# strings
# ----------------------------------------------------------------------------------

FIXED_STRINGS = [
    # wire forms of valid values
    "1", "-1", "0", "12", "1.5", "-0.0", "1e5", "1E-3", "true", "false", "null", '"abc"', '"1"', '""', "[]", "{}",
    "[1,2]", "[1, 2]", '["a","b"]', '{"a": 1}', '{"a": 1, "b": [1, 2]}', '[{"a": 1}, {"a": 2}]', '{"a": "1", "b": "x"}',
    "[[1, 2], [3]]", '[1, "2"]', "2020-01-02", "2020-01-02T03:04:05+00:00", "2020-01-02T03:04:05+05:30", "PT1H", "P1DT2S",
    "12345678-1234-5678-1234-567812345678", "12345678123456781234567812345678", "a/b", "/usr/lib", "a+", "x", "abc",
    "3/4", "1.50", "9223372036854775807", "-9223372036854775808",
    # look-alikes
    "01", "1.0", "1.", ".5", "+1", "- 1", "--1", " 1 ", "\t1\n", "1_000", "0x10", "0b11", "0o7", "1e400", "-1e400", "1e-400",
    "True", "False", "None", "NaN", "nan", "Infinity", "-Infinity", "inf", "TRUE", "Null", "1,2", "1,", "(1,2)", "(1)", "()",
    "{1,2}", "{1: 2}", "{'a':1}", "{'a': 1, 'b': 'x'}", "['a', 'b']", "[1,]", "[True]", "[None]", "b'ab'", "'1'", "'abc'",
    "\"'1'\"", "'\"1\"'", '"[1]"', '"null"', "'None'", "...", "1+2j", "1j", "18446744073709551615", "18446744073709551616",
    "-9223372036854775809", "1" * 400, "set()", "1 if 1 else 2", "__import__('os')", "lambda: 1", "f''", "u'a'", "r'a'",
    "'a' 'b'", "1 2", "a b", "[1] [2]", "1;2", "#", "1#2", "1 # c",
    # malformed JSON
    "[1,", "[1 2]", '{"a":', '{"a" 1}', '{"a": 1,}', "{a: 1}", "tru", "nul", '"abc', 'abc"', "[", "]", "{", "}", '{"a": [1, 2}',
    "[1, 2]]", '{"a": 1} x', "[1]x", '{"a": 1}{"b": 2}', '"\\x41"', '"\\u00e9"', '"\\ud83d\\ude00"', '"\\ud800"', "'\\ud800'",
    '"a\nb"', '["a\tb"]', "", " ", "\n", "  \n\t", ",", ":", '{"a": 01}', "[.5]", "[1.]", "[+1]", "[NaN]", "[Infinity]",
    # control characters
    "\x00", "a\x00b", "\x001", "1\x00", "\x01", "\x1f", "a\x1fb", "\x7f", "\r\n", "\x0b", "\x0c1", "\x85", " ", " ",
    '"\x00"', '["\x01"]', "'\x00'",
    # non-ASCII
    "é", "café", "日本語", "\U0001f600", '"é"', '["é", "\U0001f600"]', '{"é": 1}',
    "'é'", "﻿1", "﻿", "1﻿", " 1", "１", "١٢", "²", "⅕", "K",
    "é", "​1", "�", "\U0010ffff", "퟿", "", "é/è", "[１]", "xé+",
]
FIXED_BYTES = [
    b"\xff", b"\xfe\xff", b"\xc3", b"\xc3\x28", b"[1,\xff]", b'"\xff"', b"\xed\xa0\x80", b'"\xed\xa0\x80"', b"\xc0\xaf",
    b"\xe0\x80\xaf", b"\xf0\x9f\x98", b"\xf4\x90\x80\x80", b"\xf8\x88\x80\x80\x80", b"1\xff", b"\xff1", b"\x80", b"a\x80b",
    b"{\"a\": \"\xe9\"}", b"\xef\xbb\xbf1", b"\xef\xbb\xbf[1]", b"1\x00\xff",
]
DEEP = ["-" * 12000 + "1"]          # literal_eval: MemoryError (parser stack)


def rand_json_value(rng: random.Random, depth=0):
    k = rng.random()
    if depth >= 3 or k < 0.45:
        return rng.choice([
            rng.randint(-5, 5), rng.randint(-2 ** 62, 2 ** 62), rng.choice([0.5, -1.25, 1e20, 1e-7, 3.0]), True, False, None,
            "", "a", "1", "x y", "é", "\U0001f600", "a\"b", "a'b", "a\\b", "\n", "\x01", "2020-01-02", "null",
            "".join(rng.choice("ab1 {}[],:\"'\\é") for _ in range(rng.randint(0, 6)))])
    if k < 0.75:
        return [rand_json_value(rng, depth + 1) for _ in range(rng.randint(0, 4))]
    return {rng.choice(["a", "b", "c", "1", "", "é", "k k"]): rand_json_value(rng, depth + 1)
            for _ in range(rng.randint(0, 3))}


def mutate(rng: random.Random, s: str) -> str:
    if not s:
        return rng.choice(["[", "\"", "\x00"])
    i = rng.randrange(len(s))
    op = rng.random()
    if op < 0.4:
        return s[:i] + s[i + 1:]
    if op < 0.8:
        return s[:i] + rng.choice("[]{},:\"'\\ 01xe.-+\x00\né\U0001f600") + s[i:]
    return s[:i]


def rand_strings(rng: random.Random, n: int):
    out, kinds = [], {}
    for _ in range(n):
        r = rng.random()
        v = rand_json_value(rng)
        if r < 0.3:
            s = stdjson.dumps(v, ensure_ascii=rng.random() < 0.3, separators=rng.choice([(",", ":"), (", ", ": ")]))
            k = "json"
        elif r < 0.5:
            s, k = repr(v), "repr"
        elif r < 0.8:
            s = mutate(rng, stdjson.dumps(v, ensure_ascii=False) if rng.random() < 0.6 else repr(v))
            if rng.random() < 0.3:
                s = mutate(rng, s)
            k = "mutated"
        else:
            s = "".join(rng.choice(["a", "1", " ", "-", ".", "e", "é", "\U0001f600", "\x00", "\x1f", "\n", "\"", "'", "[", "]",
                                    "T", "rue", "null", "None", ":", "/", "日", "﻿"]) for _ in range(rng.randint(0, 8)))
            k = "soup"
        try:
            s.encode("utf-8")
        except UnicodeEncodeError:
            continue
        out.append(s)
        kinds[k] = kinds.get(k, 0) + 1
    return out, kinds


def rand_bad_bytes(rng: random.Random, n: int):
    out = []
    for _ in range(n):
        base = stdjson.dumps(rand_json_value(rng), ensure_ascii=False).encode()
        i = rng.randrange(len(base) + 1)
        bad = rng.choice([b"\xff", b"\xc3", b"\xed\xa0\x80", b"\x80", b"\xf0\x9f", b"\xc0\xaf"])
        b = base[:i] + bad + base[i:]
        try:
            b.decode()
        except UnicodeDecodeError:
            out.append(b)
    return out


def input_pool(run: lib.Run, n_rand: int, n_bad: int, with_deep: bool):
    rs, kinds = rand_strings(run.rng, n_rand)
    inputs = [("s", s) for s in FIXED_STRINGS] + [("s", s) for s in rs]
    inputs += [("b", b) for b in FIXED_BYTES] + [("b", b) for b in rand_bad_bytes(run.rng, n_bad)]
    if with_deep:
        inputs += [("s", s) for s in DEEP]
    seen, uniq = set(), []
    for i in inputs:
        if i not in seen:
            seen.add(i)
            uniq.append(i)
    dist = {"fixed_strings": len(FIXED_STRINGS), "fixed_invalid_utf8": len(FIXED_BYTES), "random": kinds,
            "random_invalid_utf8": n_bad, "deep": len(DEEP) if with_deep else 0, "distinct_inputs": len(uniq)}
    return uniq, dist


# ----------------------------------------------------------------------------------
# correspondence 1: decode / load / strload
# ----------------------------------------------------------------------------------

NONTEXT = [None, True, 0, 1, -7, 2 ** 70, 1.5, [1, "a"], (1, 2), {"a": 1}, {1, 2}, [], {}, [b"x"], 0.0, -0.0]


def laws_sample(run: lib.Run, inputs):
    """the stated RuntimeLaws, sampled on this run's inputs against the interpreter"""
    loads = json_decoder()
    counts = {"utf8_rt": 0, "json_errors_value": 0, "literal_errors_doc": 0}
    # NOT laws any more (strload hands the decoder text only since C14-strload-decode-first.diff): how often the decoder in
    # use reads a byte string differently from its decoding / a bytearray, memoryview differently from bytes.  Counted only.
    info = {"decoder(bytes) == decoder(str) [informational]": 0, "decoder(bytes) != decoder(str) [informational]": 0,
            "decoder(bytearray/memoryview) != decoder(bytes) [informational]": 0}
    bad = []
    for tag, p in inputs:
        if tag == "s":
            counts["utf8_rt"] += 1
            if p.encode("utf-8").decode("utf-8") != p:
                bad.append(("utf8_rt", p))
            b = p.encode("utf-8")
            a1, a2 = attempt(loads, b), attempt(loads, p)
            info["decoder(bytes) == decoder(str) [informational]" if same_res(a1, a2)
                 else "decoder(bytes) != decoder(str) [informational]"] += 1
            counts["json_errors_value"] += 1
            if a2[0] == "err" and a2[1] not in ("EValue", "EUnicode"):
                bad.append(("json_errors_value", p, a2))
            if len(p) < 2000:
                l = attempt(ast.literal_eval, p)
                counts["literal_errors_doc"] += 1
                if l[0] == "err" and l[1] not in LIT_DOC:
                    bad.append(("literal_errors_doc", p, l))
        b = p.encode("utf-8") if tag == "s" else p
        r0 = attempt(loads, b)
        for k in BIN[1:]:
            if not same_res(r0, attempt(loads, mk(k, b))):
                info["decoder(bytearray/memoryview) != decoder(bytes) [informational]"] += 1
    counts.update(info)
    run.laws.update(counts)
    run.oblige("laws:RuntimeLaws sampled on the interpreter", not bad, repr(bad[:3]))


def correspond_serdes(run: lib.Run, inputs, dist):
    from typelib import serdes
    fns = [("FDecode", serdes.decode), ("FLoad", serdes.load), ("FStrload", serdes.strload)]
    descs, shards = [], []
    em, terms = Emitter(), []
    nontrivial = set()
    kinds = {}

    def flush():
        nonlocal em, terms
        if terms:
            shards.append((em, terms))
        em, terms = Emitter(), []

    for inp in inputs:
        pr = Prims(inp[1])
        for kind, payload in carriers_of(inp):
            for fname, f in fns:
                impl.clear_caches()
                o = attempt(f, mk(kind, payload))
                try:
                    term = "(%s, %s, %s, %s)" % (fname, em.text(kind, payload), em.tabs(pr), em.res(o))
                except RecursionError:
                    continue
                descs.append({"layer": "serdes", "fn": fname, "carrier": kind, "payload": repr(payload)[:200],
                              "observed": repr(o)[:200], "shard": len(shards), "idx": len(terms)})
                terms.append(term)
                nontrivial.add((fname, inp))
                kinds[o[1] if o[0] == "err" else "ok:" + type(o[1]).__name__] = kinds.get(o[1] if o[0] == "err" else "ok:" + type(o[1]).__name__, 0) + 1
                if len(terms) >= 450:
                    flush()
    # non-text inputs: untouched
    empty = "{| t_utf8 := []; t_jstr := []; t_jbin := []; t_lit := [] |}"
    for x in NONTEXT:
        for fname, f in fns[:2]:
            o = attempt(f, x)
            descs.append({"layer": "serdes", "fn": fname, "carrier": "nontext", "payload": repr(x), "observed": repr(o)[:200],
                          "shard": len(shards), "idx": len(terms), "identity": o[0] == "ok" and o[1] is x})
            terms.append("(%s, %s, %s, %s)" % (fname, em.pv(x), empty, em.res(o)))
    flush()
    (flagged,), failed = eval_shards(run, "cases_serdes", ["serdes_case_ok"], shards)
    bad_keys = set(flagged)
    bad = [d for d in descs if (d["shard"], d["idx"]) in bad_keys or d["shard"] in failed or d.get("identity") is False]
    dist = dict(dist, outcomes=kinds, functions=[f for f, _ in fns], carriers=CARRIERS,
                rule="non-trivial = distinct (function, payload)")
    run.record_corr("serdes", len(descs), bad, len(nontrivial), dist)
    run.samples.append(descs[len(descs) // 2])
    return bad


# ----------------------------------------------------------------------------------
# correspondence 2: first step of every routine class
# ----------------------------------------------------------------------------------

class Color(enum.Enum):
    RED = 1
    X = "x"
    ONE = "1"
    CRIMSON = 1      # an alias (a name without a member of its own)


class IE(enum.IntEnum):
    A = 1
    B = 2


class SE(str, enum.Enum):
    A = "a"
    ONE = "1"


@dataclasses.dataclass
class Point:
    a: int
    b: str = "q"


class NT(typing.NamedTuple):
    a: int
    b: str = "q"


class TD(typing.TypedDict):
    a: int
    b: str


LIT_VALUES = (1, "a", "1", "true", True, None, "abc", "[1]")


def reps():
    """representative T per routine head: (name, T, head term, rest spec)
    rest spec: list of (head name, head id, T_member) whose remainder the model may ask for"""
    Lit = typing.Literal[1, "a", "1", "true", True, None, "abc", "[1]"]  # noqa: F841
    simple = [
        ("any", typing.Any, "HNoOp", 1), ("none", type(None), "HNoneType", 3), ("str", str, "HString", 4),
        ("int", int, "HNumber", 5), ("float", float, "HNumber", 5), ("decimal", decimal.Decimal, "HNumber", 5),
        ("bool", bool, "HNumber", 5), ("fraction", fractions.Fraction, "HNumber", 5),
        ("date", datetime.date, "HDate", 6), ("datetime", datetime.datetime, "HDateTime", 7),
        ("time", datetime.time, "HTime", 8), ("timedelta", datetime.timedelta, "HTimeDelta", 9),
        ("pattern", re.Pattern, "HPattern", 10), ("uuid", uuid.UUID, "HUUID", 11),
        ("path", pathlib.PurePosixPath, "HPath", 20), ("barelist", list, "HCast", 12),
        ("baredict", dict, "HCast", 12), ("dict_str_int", dict[str, int], "HSubMapping", 13),
        ("list_int", list[int], "HSubIterable", 14), ("set_str", set[str], "HSubIterable", 14),
        ("vtuple_int", tuple[int, ...], "HSubIterable", 14), ("iterator_int", typing.Iterator[int], "HSubIterator", 15),
        ("tuple_int_str", tuple[int, str], "HFixedTuple", 16), ("dataclass", Point, "HStructured", 17),
        ("namedtuple", NT, "HStructured", 17), ("typeddict", TD, "HStructured", 17),
    ]
    out = [(n, T, h, [(h, i, T)]) for n, T, h, i in simple]
    # bare (unsubscripted) collection targets: every one of them is served by a Cast routine (load first);
    # bytearray / memoryview are registered instances of several of these ABCs, str / bytes of others
    for n, T in BARE_CAST.items():
        out.append(("bare:" + n, T, "HCast", [("HCast", 12, T)], "light"))
    for n, T in BARE_NOOP.items():
        out.append(("bare:" + n, T, "HNoOp", [("HNoOp", 1, T)], "light"))
    # Enum: the remainder is the enum's own lookup by value (an interpreter primitive), asked directly
    out = [tuple(r) for r in out]
    out.append(("enum", Color, "HEnum", [("HEnum", 21, Color)]))
    out.append(("strenum", SE, "HEnum", [("HEnum", 21, SE)]))
    lit_term = None   # filled by the emitter (needs interning)
    out.append(("literal", Lit, ("HLiteral", LIT_VALUES), []))
    out.append(("union_int_str", typing.Union[int, str], ("HUnion", ["HNumber", "HString"]),
                [("HNumber", 5, int), ("HString", 4, str)]))
    out.append(("optional_int", typing.Optional[int], ("HUnion", ["HNoneType", "HNumber"]),
                [("HNoneType", 3, type(None)), ("HNumber", 5, int)]))
    out.append(("union_list_date", typing.Union[list[int], datetime.date, str], ("HUnion", ["HSubIterable", "HDate", "HString"]),
                [("HSubIterable", 14, list[int]), ("HDate", 6, datetime.date), ("HString", 4, str)]))
    return out


BARE_CAST = {
    "typing.Sequence": typing.Sequence, "typing.MutableSequence": typing.MutableSequence, "typing.Collection": typing.Collection,
    "typing.Iterable": typing.Iterable, "typing.Reversible": typing.Reversible, "typing.Mapping": typing.Mapping,
    "typing.MutableMapping": typing.MutableMapping, "typing.AbstractSet": typing.AbstractSet, "typing.MutableSet": typing.MutableSet,
    "typing.Hashable": typing.Hashable, "typing.List": typing.List, "typing.Dict": typing.Dict, "typing.Tuple": typing.Tuple,
    "typing.FrozenSet": typing.FrozenSet, "typing.Deque": typing.Deque, "typing.OrderedDict": typing.OrderedDict,
    "abc.Sequence": cabc.Sequence, "abc.MutableSequence": cabc.MutableSequence, "abc.Collection": cabc.Collection,
    "abc.Iterable": cabc.Iterable, "abc.Reversible": cabc.Reversible, "abc.Mapping": cabc.Mapping,
    "abc.MutableMapping": cabc.MutableMapping, "abc.Set": cabc.Set, "abc.MutableSet": cabc.MutableSet,
    "tuple": tuple, "set": set, "frozenset": frozenset, "deque": collections.deque, "OrderedDict": collections.OrderedDict,
}
BARE_NOOP = {"object": object, "typing.Iterator": typing.Iterator, "abc.Iterator": cabc.Iterator}

DECODE_FIRST = {"HNoneType", "HString", "HNumber", "HDate", "HDateTime", "HTime", "HTimeDelta", "HPattern", "HPath"}
LOAD_FIRST = {"HUUID", "HCast", "HSubMapping", "HSubIterable", "HSubIterator", "HFixedTuple", "HStructured"}


def head_term(em: Emitter, h) -> str:
    if isinstance(h, str):
        return h
    if h[0] == "HLiteral":
        return "(HLiteral %s)" % coq_list([em.pv(v) for v in h[1]], "pv")
    return "(HUnion %s)" % coq_list(list(h[1]), "head")


def observe_unmarshal(T, x):
    from typelib import unmarshals
    impl.clear_caches()
    r = attempt(unmarshals.unmarshal, T, x)
    if r[0] == "ok" and isinstance(r[1], (cabc.Iterator, cabc.Generator)):
        try:
            r = ("ok", ("<iterator>", [e for e in r[1]]))
        except Exception as e:  # noqa: BLE001 - lazily raised by the member routine
            r = ("err", exn_kind(e), repr(e)[:120])
    return r


def rest_entries(em: Emitter, restspec, pr: Prims | None, nontext=None):
    """pre-seeded remainder table: for every value the first step can produce from this input"""
    rows = []
    for hname, hid, Tm in restspec:
        cands = []
        if nontext is not None:
            cands = [nontext[0]]
        elif hname in DECODE_FIRST:
            cands = [pr.decoded] if pr.decoded is not None else []
        elif hname in LOAD_FIRST or hname == "HEnum":
            for r in (pr.jbin, pr.jstr, pr.lit):
                if r is not None and r[0] == "ok":
                    cands.append(r[1])
            if pr.decoded is not None:
                cands.append(pr.decoded)
        for c in cands:
            if hname == "HEnum":
                o = attempt(Tm, c)                  # self.caster(c) = the Enum class called on the value
                rows.append(f"({hid}%N, {em.pv(c)}, {em.res(o)})")
                continue
            if hname in LOAD_FIRST and isinstance(c, (str, bytes, bytearray, memoryview)) and not prim_fixpoint(c):
                rows.append(f"({hid}%N, {em.pv(c)}, Ok (POther 0%N))")          # cannot be observed separately
                continue
            o = observe_unmarshal(Tm, c)
            rows.append(f"({hid}%N, {em.pv(c)}, {em.res(o)})")
    return coq_list(list(dict.fromkeys(rows)), "(N * pv * res pv)")


def measure_union_suppress(run: lib.Run):
    """which exception kinds the live Union routine swallows (through the public API only): a class whose
    constructor raises K as first member, str as second; unmarshal(Union[R, str], {}) == '{}' iff K is swallowed"""
    from typelib import unmarshals
    probes = {
        "EValue": [ValueError], "EUnicode": [lambda: UnicodeDecodeError("utf-8", b"\xff", 0, 1, "x")], "EType": [TypeError],
        "ESyntax": [SyntaxError], "EAttribute": [AttributeError], "ERecursion": [RecursionError], "EMemory": [MemoryError],
        "EOther": [OverflowError, KeyError, OSError, ZeroDivisionError, RuntimeError, Exception, decimal.InvalidOperation, re.error],
    }
    sup, mixed = [], []
    for kind, makers in probes.items():
        verdicts = []
        for mk_exc in makers:
            def boom(self, _m=mk_exc):
                raise (_m() if not isinstance(_m, type) else _m("x"))
            R = type("R", (), {"__init__": boom})
            impl.clear_caches()
            try:
                verdicts.append(unmarshals.unmarshal(typing.Union[R, str], {}) == "{}")
            except BaseException as e:  # noqa: BLE001
                if isinstance(e, (KeyboardInterrupt, SystemExit)):
                    raise
                verdicts.append(False)
        if all(verdicts):
            sup.append(kind)
        elif any(verdicts):
            mixed.append(kind)
    run.oblige("reflect:Union routine's suppressed exception kinds are expressible in the model's exn", not mixed,
               f"kinds with mixed verdicts: {mixed}")
    run.extra_cov["union_suppressed_kinds_measured"] = sup
    return sup


def correspond_routines(run: lib.Run, inputs, dist):
    supl = coq_list(measure_union_suppress(run), "exn")
    descs, shards = [], []
    em, terms = Emitter(), []
    per_head = {}

    def flush():
        nonlocal em, terms
        if terms:
            shards.append((em, terms))
        em, terms = Emitter(), []

    R = reps()
    wire = [[1, 2], [], {"a": 1}, {"a": "1", "b": "x"}, [1, "2"], {"a": 1, "b": 2, "c": 3}, [[1, 2], [3]], ["a", "b"], 1, None, 1.5, True]
    light_inputs = [i for k, i in enumerate(inputs) if k < 30 or k % 8 == 0]
    for name, T, h, restspec, *mode in R:
        for inp in (light_inputs if mode else inputs):
            if inp[1] in DEEP or len(inp[1]) > 300:
                continue
            pr = Prims(inp[1])
            for kind, payload in carriers_of(inp):
                o = observe_unmarshal(T, mk(kind, payload))
                try:
                    term = "(%s, %s, %s, %s, %s)" % (head_term(em, h), em.text(kind, payload), em.tabs(pr),
                                                      rest_entries(em, restspec, pr), em.res(o))
                except RecursionError:
                    continue
                descs.append({"layer": "routine-entry", "type": name, "carrier": kind, "payload": repr(payload)[:200],
                              "observed": repr(o)[:200], "shard": len(shards), "idx": len(terms)})
                terms.append(term)
                per_head[name] = per_head.get(name, 0) + 1
                if len(terms) >= 400:
                    flush()
        # decoded (non-text) wire values given directly to the load-first heads
        if isinstance(h, str) and h in LOAD_FIRST:
            for m in wire:
                o = observe_unmarshal(T, m)
                empty = "{| t_utf8 := []; t_jstr := []; t_jbin := []; t_lit := [] |}"
                descs.append({"layer": "routine-entry", "type": name, "carrier": "nontext", "payload": repr(m),
                              "observed": repr(o)[:200], "shard": len(shards), "idx": len(terms)})
                terms.append("(%s, %s, %s, %s, %s)" % (h, em.pv(m), empty, rest_entries(em, restspec, None, (m,)), em.res(o)))
        flush()
    (flagged, skipped), failed = eval_shards(
        run, "cases_routine", [f"(routine_case_ok {supl})", f"(routine_case_not_skipped {supl})"], shards)
    bad_keys, skip_keys = set(flagged), set(skipped)
    bad = [d for d in descs if (d["shard"], d["idx"]) in bad_keys or d["shard"] in failed]
    dist = dict(dist, per_type=per_head, not_separately_observable=len(skip_keys),
                rule="non-trivial = cases whose remainder could be observed separately; exceptions are compared as 'raised'")
    run.record_corr("routine-entry", len(descs), bad, len(descs) - len(skip_keys), dist)
    run.samples.append(descs[len(descs) // 3])
    return bad


def correspond(run: lib.Run):
    import warnings
    warnings.simplefilter("ignore")          # re.compile FutureWarnings, typelib's no-op warnings on odd inputs
    n_rand = run.budget(130, 3000)
    inputs, dist = input_pool(run, n_rand, run.budget(15, 300), with_deep=True)
    laws_sample(run, inputs)
    correspond_serdes(run, inputs, dist)
    sub = inputs if run.tier == "thorough" else [i for k, i in enumerate(inputs) if k % 3 == 0 or k < 40]
    if run.tier == "thorough":
        sub = [i for k, i in enumerate(inputs) if k % 3 == 0 or k < len(FIXED_STRINGS)]
    correspond_routines(run, sub, dict(dist, inputs_used=len(sub)))
    lib.run_tie(run, iotie, streams=False)
    # the source of serdes.py, parsed and translated on this run, IS the model's function (Props/SerdesAst*.v + coq/dyn/SerdesAst)
    lib.run_tie(run, serdesasttie, parts=("load",))
    run.tie_failures = list(getattr(run, "tie_failures", [])) + list(serdesasttie.search(run, parts=("load",)))
    lib.run_tie(run, serdesjsontie)      # the JSON decoder of the serdes model IS the proved reader of Model/Json.v (Props/C14Json.v)      # C14 load theorems hold of Core.load (Props/IoBridge.v); the core-io stream runs under C18
    lib.run_tie(run, literaltie)      # ast.literal_eval / repr as an executable reader / writer (Props/C14Literal.v): literal_read (py_repr w) = Some w; JSON-first agrees on repr text
    lib.run_tie(run, routasttie)      # the first step read off each leaf routine's body IS the head this model assigns (Props/RoutineLeafAst.v: RL_first_model, RL_entry)


# ----------------------------------------------------------------------------------
# the property oracle on the implementation (independent of the model)
# ----------------------------------------------------------------------------------

@dataclasses.dataclass
class Inner:
    x: int
    y: typing.Optional[str] = None


@dataclasses.dataclass
class Outer:
    inner: Inner
    items: list[Inner] = dataclasses.field(default_factory=list)
    tag: str = ""


@dataclasses.dataclass
class Box:
    items: list
    meta: dict = dataclasses.field(default_factory=dict)
    pair: tuple = ()


UserId = typing.NewType("UserId", int)


def type_specs():
    from typelib.py import compat
    specs = {
        "int": int, "bool": bool, "float": float, "str": str, "Decimal": decimal.Decimal, "Fraction": fractions.Fraction,
        "UUID": uuid.UUID, "PurePosixPath": pathlib.PurePosixPath, "Path": pathlib.Path, "Pattern": re.Pattern,
        "date": datetime.date, "datetime": datetime.datetime, "timedelta": datetime.timedelta, "NoneType": type(None),
        "Color": Color, "IE": IE, "SE": SE, "Optional[Color]": typing.Optional[Color], "IE|str": typing.Union[IE, str],
        "int|SE": typing.Union[int, SE], "list[Color]": list[Color], "dict[str,SE]": dict[str, SE],
        "Literal[1,2]": typing.Literal[1, 2], "Literal['a','b']": typing.Literal["a", "b"],
        "Literal['1','true','[1]']": typing.Literal["1", "true", "[1]"], "Literal[1,'1']": typing.Literal[1, "1"],
        "Literal[None,True]": typing.Literal[None, True],
        "list[int]": list[int], "List[str]": typing.List[str], "set[int]": set[int], "frozenset[str]": frozenset[str],
        "deque[int]": collections.deque[int], "tuple[int,...]": tuple[int, ...], "Sequence[int]": cabc.Sequence[int],
        "Iterable[str]": typing.Iterable[str], "MutableSet[int]": typing.MutableSet[int], "Collection[float]": typing.Collection[float],
        "tuple[int,str]": tuple[int, str], "tuple[int]": tuple[int], "tuple[str,int,float]": tuple[str, int, float],
        "dict[str,int]": dict[str, int], "Mapping[str,float]": typing.Mapping[str, float], "Dict[int,str]": typing.Dict[int, str],
        "OrderedDict[str,int]": collections.OrderedDict[str, int], "MutableMapping[str,str]": typing.MutableMapping[str, str],
        "list[list[int]]": list[list[int]], "dict[str,list[int]]": dict[str, list[int]], "list[dict[str,int]]": list[dict[str, int]],
        "list[Inner]": list[Inner], "dict[str,Inner]": dict[str, Inner], "list[Optional[int]]": list[typing.Optional[int]],
        "Optional[int]": typing.Optional[int], "int|str": typing.Union[int, str], "str|int": typing.Union[str, int],
        "Optional[list[int]]": typing.Optional[list[int]], "list[int]|str": typing.Union[list[int], str],
        "date|int": typing.Union[datetime.date, int], "Inner|None": typing.Optional[Inner], "float|None|str": typing.Union[float, None, str],
        "Point": Point, "NT": NT, "TD": TD, "Inner": Inner, "Outer": Outer,
        "UserId": UserId, "list[UserId]": list[UserId], "Alias": compat.TypeAliasType("Alias", list[int]),
        "Final[int]": typing.Final[int], "list": list, "dict": dict, "Iterator[int]": typing.Iterator[int],
        "tuple[list,list]": tuple[list, list], "list[list]": list[list], "list[dict]": list[dict], "dict[str,list]": dict[str, list],
        "list[tuple]": list[tuple], "tuple[list,...]": tuple[list, ...], "Box": Box, "Optional[list]": typing.Optional[list],
        "list|str": typing.Union[list, str],
    }
    for n, T in BARE_CAST.items():
        specs["bare:" + n] = T
    return specs


def own_strings(T, _seen=None) -> list:
    """strings DERIVED from the type itself: what a reader that "also accepts" some spelling of T's own parts would
    treat specially and that no general pool contains -- enum member names / aliases / qualified names / reprs (seeded
    change C14-r6m2: member names accepted, from the raw str only), field and class names, the text of Literal members"""
    seen = set() if _seen is None else _seen
    if id(T) in seen:
        return []
    seen.add(id(T))
    out = []
    if isinstance(T, type) and issubclass(T, enum.Enum):
        for name, m in T.__members__.items():
            out += [name, name.lower(), f"{T.__name__}.{name}", repr(m), str(m), stdjson.dumps(name), repr(name)]
    elif isinstance(T, type) and (dataclasses.is_dataclass(T) or hasattr(T, "_fields") or hasattr(T, "__annotations__")):
        names = list(getattr(T, "__annotations__", {}))
        out += names + [T.__name__, stdjson.dumps(names), stdjson.dumps({n: n for n in names})]
        try:
            for h in typing.get_type_hints(T).values():
                out += own_strings(h, seen)
        except Exception:  # noqa: BLE001
            pass
    elif typing.get_origin(T) is typing.Literal:
        for a in typing.get_args(T):
            out += [str(a), repr(a), stdjson.dumps(a) if not isinstance(a, bytes) else repr(a)]
    for a in typing.get_args(T):
        if not isinstance(a, (str, int, bytes, bool, type(None), type(Ellipsis))) or isinstance(a, type):
            out += own_strings(a, seen)
    sup = getattr(T, "__supertype__", None) or getattr(T, "__value__", None)
    if sup is not None and not isinstance(sup, str):
        out += own_strings(sup, seen)
    return list(dict.fromkeys(x for x in out if isinstance(x, str)))


def is_container_spec(name: str) -> bool:
    return name.split("[")[0] in {"list", "List", "set", "frozenset", "deque", "tuple", "Sequence", "Iterable", "MutableSet", "Collection",
                                  "dict", "Mapping", "Dict", "OrderedDict", "MutableMapping", "Point", "NT", "TD", "Inner", "Outer",
                                  "Alias", "Iterator"} and "|" not in name


def norm(x):
    if isinstance(x, (cabc.Iterator, cabc.Generator)):
        return ("<iterator>", [norm(e) for e in x])
    return x


def same_val(a, b) -> bool:
    if type(a) is not type(b):
        return False
    try:
        if a == b:
            return True
    except Exception:  # noqa: BLE001
        pass
    return repr(a) == repr(b)


def same_res(a, b) -> bool:
    """equal results or both reject"""
    if a[0] != b[0]:
        return False
    return a[0] == "err" or same_val(a[1], b[1])


def run_unmarshal(T, x):
    from typelib import unmarshals
    impl.clear_caches()
    try:
        return ("ok", norm(unmarshals.unmarshal(T, x)))
    except BaseException as e:  # noqa: BLE001
        if isinstance(e, (KeyboardInterrupt, SystemExit)):
            raise
        return ("err", exn_kind(e), repr(e)[:160])


def literal_member(T, s: str) -> bool:
    """T is (or is a union with) a Literal that has the text s itself as a member"""
    if typing.get_origin(T) is typing.Literal:
        return any(isinstance(v, str) and v == s for v in typing.get_args(T))
    return any(literal_member(a, s) for a in typing.get_args(T)) if typing.get_origin(T) in (typing.Union, getattr(__import__("types"), "UnionType")) else False


def check_carriers(tname, T, s: str):
    """the five carriers of s give equal results or all reject"""
    b = s.encode("utf-8")
    rs = [(k, run_unmarshal(T, mk(k, s if k == "CStr" else b))) for k in CARRIERS]
    ref = rs[0][1]
    diff = [k for k, r in rs[1:] if not same_res(ref, r)]
    if not diff:
        return None
    return {"kind": "carriers", "type": tname, "s": s, "symptom": "carriers disagree",
            "results": {k: repr(r)[:200] for k, r in rs}, "disagreeing": diff,
            "literal_member": literal_member(T, s),
            "bin_agree": all(same_res(rs[1][1], r) for _, r in rs[2:]),
            "str_result_is_s": ref[0] == "ok" and ref[1] == s,
            "key": stdjson.dumps(["carriers", tname, diff, ref[0]])}


def check_text_forms(tname, T, m):
    """JSON text / Python-literal text of the wire value m == passing m itself (container and structured T)"""
    fails = []
    ref = run_unmarshal(T, m)
    forms = [("json", stdjson.dumps(m)), ("json-compact", stdjson.dumps(m, separators=(",", ":"))), ("repr", repr(m))]
    for fname, text in forms:
        for k in CARRIERS:
            r = run_unmarshal(T, mk(k, text if k == "CStr" else text.encode("utf-8")))
            if not same_res(ref, r):
                fails.append({"kind": "text-form", "type": tname, "m": repr(m), "form": fname, "text": text, "carrier": k,
                              "symptom": "text of a wire value is not equivalent to the value",
                              "got": repr(r)[:200], "expected": repr(ref)[:200],
                              "key": stdjson.dumps(["text-form", tname, fname, k, ref[0], r[0]])})
    return fails


def check_load_clauses(s_or_b, tag):
    """serdes.load / strload: JSON text -> what the decoder returns; plain text -> unchanged str, no raise"""
    from typelib import serdes
    fails = []
    loads = json_decoder()
    if tag == "s":
        s = s_or_b
        j = attempt(loads, s)
        js = attempt(stdjson.loads, s)
        lit = attempt(ast.literal_eval, s) if len(s) < 100000 else ("err", "EMemory", "")
        for k, payload in carriers_of(("s", s)):
            for fname, f in (("load", serdes.load), ("strload", serdes.strload)):
                impl.clear_caches()
                r = attempt(f, mk(k, payload))
                base = {"kind": "load", "fn": fname, "s": s, "carrier": k, "got": repr(r)[:200]}
                if j[0] == "ok":
                    # a JSON decoder's answer: the one in use, or the standard library's (either satisfies the text)
                    if not (same_res(r, j) or (js[0] == "ok" and same_res(r, js))):
                        fails.append(dict(base, symptom="JSON text not returned as decoded", expected=repr(j)[:200],
                                          key=stdjson.dumps(["load-json", fname, k])))
                elif js[0] == "err" and lit[0] == "err":
                    if not (r[0] == "ok" and type(r[1]) is str and r[1] == s):
                        fails.append(dict(base, symptom="plain text not returned unchanged", expected=repr(s)[:200],
                                          literal_error=lit[1],
                                          key=stdjson.dumps(["load-plain", fname, k, r[0], r[1] if r[0] == "err" else ""])))
    return fails


WIRE = {
    "seq_int": [[1, 2], [], [0], [-5, 2 ** 40, 7], [1, 2, 3, 4, 5]],
    "seq_str": [["a", "b"], [], ["é", "x y"], ["it's", 'q"q'], ["1", "null"]],
    "seq_float": [[1.5, -2.0], [], [1e20]],
    "map_str_int": [{"a": 1}, {}, {"a": 1, "b": 2}, {"é": 3}],
    "map_str_float": [{"a": 1.5}, {}],
    "map_str_str": [{"a": "b"}, {}, {"k": "it's"}],
    "map_int_str": [{"1": "a"}],
    "tuple_int_str": [[1, "a"], [2, "it's"]],
    "tuple_int": [[1]],
    "tuple_str_int_float": [["a", 1, 2.5]],
    "point": [{"a": 1, "b": "x"}, {"a": 2}, {"a": "3", "b": "it's"}],
    "inner": [{"x": 1, "y": "s"}, {"x": 2, "y": None}, {"x": 3}],
    "outer": [{"inner": {"x": 1}, "items": [{"x": 2, "y": "a"}], "tag": "t"}, {"inner": {"x": 1, "y": None}}],
    "seq_seq_int": [[[1, 2], [3]], [[]], []],
    "map_str_seq_int": [{"a": [1, 2]}, {}],
    "seq_map_str_int": [[{"a": 1}, {"b": 2}], []],
    "seq_inner": [[{"x": 1}, {"x": 2, "y": "z"}], []],
    "map_str_inner": [{"k": {"x": 1}}],
    "seq_opt_int": [[1, None, 2]],
    "any_list": [[1, "a", None, True, 1.5, [2], {"k": "v"}]],
    "any_dict": [{"a": [1, {"b": None}], "c": True}],
    "pair_lists": [[[1], [2]], [[], ["a", {"k": 1}]]],
    "box": [{"items": [1, [2]], "meta": {"k": [3]}, "pair": [[4], 5]}, {"items": []}],
}
WIRE_FOR = {
    "list[int]": "seq_int", "set[int]": "seq_int", "deque[int]": "seq_int", "tuple[int,...]": "seq_int", "Sequence[int]": "seq_int",
    "MutableSet[int]": "seq_int", "Alias": "seq_int", "list[UserId]": "seq_int", "Iterator[int]": "seq_int",
    "List[str]": "seq_str", "frozenset[str]": "seq_str", "Iterable[str]": "seq_str", "Collection[float]": "seq_float",
    "tuple[int,str]": "tuple_int_str", "tuple[int]": "tuple_int", "tuple[str,int,float]": "tuple_str_int_float",
    "dict[str,int]": "map_str_int", "OrderedDict[str,int]": "map_str_int", "Mapping[str,float]": "map_str_float",
    "MutableMapping[str,str]": "map_str_str", "Dict[int,str]": "map_int_str",
    "list[list[int]]": "seq_seq_int", "dict[str,list[int]]": "map_str_seq_int", "list[dict[str,int]]": "seq_map_str_int",
    "list[Inner]": "seq_inner", "dict[str,Inner]": "map_str_inner", "list[Optional[int]]": "seq_opt_int",
    "Point": "point", "NT": "point", "TD": "point", "Inner": "inner", "Outer": "outer", "list": "any_list", "dict": "any_dict",
    "tuple[list,list]": "pair_lists", "list[list]": "seq_seq_int", "list[dict]": "seq_map_str_int", "dict[str,list]": "map_str_seq_int",
    "tuple[list,...]": "seq_seq_int", "Box": "box",
    "bare:typing.Sequence": "any_list", "bare:typing.MutableSequence": "any_list", "bare:typing.Collection": "any_list",
    "bare:typing.Iterable": "any_list", "bare:typing.Reversible": "any_list", "bare:typing.List": "any_list",
    "bare:typing.Tuple": "any_list", "bare:typing.Deque": "any_list", "bare:abc.Sequence": "any_list",
    "bare:abc.MutableSequence": "any_list", "bare:abc.Collection": "any_list", "bare:abc.Iterable": "any_list", "bare:tuple": "any_list",
    "bare:deque": "any_list", "bare:typing.Mapping": "any_dict", "bare:typing.MutableMapping": "any_dict", "bare:typing.Dict": "any_dict",
    "bare:typing.OrderedDict": "any_dict", "bare:abc.Mapping": "any_dict", "bare:abc.MutableMapping": "any_dict",
    "bare:OrderedDict": "any_dict", "bare:typing.AbstractSet": "seq_int", "bare:typing.MutableSet": "seq_int",
    "bare:typing.FrozenSet": "seq_str", "bare:abc.Set": "seq_int", "bare:abc.MutableSet": "seq_int", "bare:set": "seq_int",
    "bare:frozenset": "seq_str",
}


# ---- carriers after history: a caller edits the value it was given; the same text read again, in any carrier,
#      must still mean what a cold read says (the loader memoises its parse per carrier key)

HISTORY_TEXTS = [
    "([1], [2])", "[1, 2], [3]", "({'k': [1]}, 'x')", "[[1], [2]]", '{"a": [1, 2]}', "[(1, [2])]", "{'a': ([1],)}",
    "[1], {'a': [2]}", "([],)", "[[]]", "{'a': {'b': []}}", "[{1, 2}]", "({1},)", '[{"a": [1]}, {"b": {}}]', "((([1],),),)",
    "{'items': [1, [2]], 'meta': {'k': [3]}, 'pair': ([4], 5)}", '{"items": [[1]], "meta": {}}', "[1, 2]", "(1, 2)", "{}, []",
]
HISTORY_TYPES = ["list", "dict", "bare:tuple", "bare:set", "bare:typing.Sequence", "bare:typing.Iterable", "bare:abc.Collection",
                 "bare:typing.Mapping", "bare:typing.Tuple", "tuple[list,list]", "tuple[list,...]", "list[list]", "list[dict]",
                 "list[tuple]", "dict[str,list]", "Box", "Optional[list]", "list|str", "list[list[int]]", "dict[str,list[int]]"]


def rand_nested(rng: random.Random, depth=0):
    """Python-literal values with mutable containers at any depth, under tuples too"""
    k = rng.random()
    if depth >= 3 or k < 0.3:
        return rng.choice([0, 1, -3, "a", "", "k k", None, True, 1.5, [], {}, ()])
    n = rng.randint(0, 3)
    if k < 0.55:
        return [rand_nested(rng, depth + 1) for _ in range(n)]
    if k < 0.8:
        return tuple(rand_nested(rng, depth + 1) for _ in range(n))
    if k < 0.95:
        return {rng.choice(["a", "b", "items", "meta", "pair", "k"]): rand_nested(rng, depth + 1) for _ in range(n)}
    return {rng.randint(0, 5) for _ in range(n)}


def to_jsonable(v):
    if isinstance(v, (list, tuple)):
        return [to_jsonable(e) for e in v]
    if isinstance(v, dict):
        return {k: to_jsonable(e) for k, e in v.items()}
    if isinstance(v, set):
        return sorted(v)
    return v


def history_texts(rng: random.Random, n: int):
    out = list(HISTORY_TEXTS)
    for _ in range(n):
        v = rand_nested(rng)
        forms = [repr(v)]
        if isinstance(v, (list, tuple)) and len(v) >= 2:
            forms.append(repr(v)[1:-1])                      # the comma form: "[1, 2], [3]"
        if isinstance(v, list):
            forms.append(repr(tuple(v)))
        forms.append(stdjson.dumps(to_jsonable(v)))
        out.append(rng.choice(forms))
    return list(dict.fromkeys(out))


def deep_mutate(x, depth=0) -> int:
    """edit every mutable container reachable from x, as the owner of a freshly unmarshalled value may;
    returns the number of edits"""
    if depth > 12:
        return 0
    n = 0
    if isinstance(x, list):
        for e in list(x):
            n += deep_mutate(e, depth + 1)
        x.append("<edited>")
        return n + 1
    if isinstance(x, dict):
        for e in list(x.values()):
            n += deep_mutate(e, depth + 1)
        x["<edited>"] = True
        return n + 1
    if isinstance(x, set):
        x.add("<edited>")
        return 1
    if isinstance(x, collections.deque):
        for e in list(x):
            n += deep_mutate(e, depth + 1)
        x.append("<edited>")
        return n + 1
    if isinstance(x, (tuple, frozenset)):
        for e in x:
            n += deep_mutate(e, depth + 1)
        return n
    if dataclasses.is_dataclass(x) and not isinstance(x, type):
        for f in dataclasses.fields(x):
            n += deep_mutate(getattr(x, f.name, None), depth + 1)
    return n


def history_reader(tname, specs):
    from typelib import serdes, unmarshals
    if tname == "serdes.load":
        return serdes.load
    if tname == "serdes.strload":
        return serdes.strload
    T = specs[tname]
    return lambda x: unmarshals.unmarshal(T, x)


def read_norm(read, x):
    try:
        return ("ok", norm(read(x)))
    except BaseException as e:  # noqa: BLE001
        if isinstance(e, (KeyboardInterrupt, SystemExit)):
            raise
        return ("err", exn_kind(e), repr(e)[:160])


def check_history(tname, read, text: str, only=None):
    """read text via carrier A, edit the result, read it again via every carrier B: each must equal a cold read"""
    import copy
    cars = carriers_of(("s", text))
    impl.clear_caches()
    cold = read_norm(read, mk(*cars[0]))
    if cold[0] == "ok":
        cold = ("ok", copy.deepcopy(cold[1]))
    impl.clear_caches()
    fails, edits = [], 0
    for ka, pa in cars:
        if only and ka != only[0]:
            continue
        impl.clear_caches()
        first = read_norm(read, mk(ka, pa))
        n = deep_mutate(first[1]) if first[0] == "ok" else 0
        edits += n
        if n == 0:
            continue
        for kb, pb in cars:
            if only and kb != only[1]:
                continue
            again = read_norm(read, mk(kb, pb))
            if not same_res(again, cold):
                fails.append({"kind": "history", "type": tname, "s": text, "first": ka, "then": kb,
                              "symptom": "after the caller edited its result, the same text no longer reads as a cold read does",
                              "got": repr(again)[:200], "expected": repr(cold)[:200],
                              "key": stdjson.dumps(["history", tname, ka == kb])})
    impl.clear_caches()
    return fails, edits


def own_findings():
    p = os.path.join(lib.VERIF, "findings.d", "C14.json")
    return stdjson.load(open(p)).get("open", []) if os.path.exists(p) else []


def corpus():
    d = os.path.join(lib.VERIF, "corpus", "C14")
    out = []
    if os.path.isdir(d):
        for fn in sorted(os.listdir(d)):
            if fn.endswith(".json"):
                out.append(stdjson.load(open(os.path.join(d, fn))))
    return out


def run_payload(p, specs=None):
    """execute one oracle payload; returns list of failures"""
    specs = specs or type_specs()
    if p["kind"] == "carriers":
        f = check_carriers(p["type"], specs[p["type"]], p["s"])
        return [f] if f else []
    if p["kind"] == "text-form":
        m = ast.literal_eval(p["m"])
        return [f for f in check_text_forms(p["type"], specs[p["type"]], m)
                if f["form"] == p.get("form", f["form"]) and f["carrier"] == p.get("carrier", f["carrier"])]
    if p["kind"] == "history":
        fs, _ = check_history(p["type"], history_reader(p["type"], specs), p["s"],
                              only=(p["first"], p["then"]) if "first" in p and "then" in p else None)
        return fs
    if p["kind"] == "load":
        s = p["s"] if "s" in p else (p["repeat"][0] * p["repeat"][1] + p["repeat"][2])
        return [f for f in check_load_clauses(s, "s")
                if f["fn"] == p.get("fn", f["fn"]) and f["carrier"] == p.get("carrier", f["carrier"])]
    raise ValueError(p)


def search(run: lib.Run, broken):
    import warnings
    warnings.simplefilter("ignore")
    rng = random.Random(run.seed + 14)
    specs = type_specs()
    fails = []
    n = {"carriers": 0, "text_forms": 0, "load": 0, "corpus": 0, "histories": 0, "history_edits": 0}
    # corpus first
    for p in corpus():
        n["corpus"] += 1
        fails += run_payload(p, specs)
    hard = bool(broken) or run.tier == "thorough"
    rs, _ = rand_strings(rng, 400 if hard else 60)
    strings = FIXED_STRINGS + rs
    # (a) carriers
    per_type = len(strings) if hard else 110
    for tname, T in specs.items():
        ss = strings if per_type >= len(strings) else (strings[:50] + rng.sample(strings[50:], per_type - 50))
        if tname.startswith("bare:") and not hard:
            ss = strings[:35] + rng.sample(strings[35:], 25)
        # wire texts of this type's own values are always in
        for m in WIRE.get(WIRE_FOR.get(tname, ""), []):
            ss = ss + [stdjson.dumps(m), repr(m)]
        ss = ss + own_strings(T)      # names of the type's own parts
        for s in ss:
            n["carriers"] += 1
            f = check_carriers(tname, T, s)
            if f:
                fails.append(f)
    # (b) JSON / literal text of wire values
    for tname, wname in WIRE_FOR.items():
        for m in WIRE[wname]:
            n["text_forms"] += 1
            fails += check_text_forms(tname, specs[tname], m)
    # (c) load / strload clauses
    for s in strings + DEEP + ["~" * 3000 + "1"]:
        n["load"] += 1
        fails += check_load_clauses(s, "s")
    # (d) carriers after history
    for text in history_texts(rng, 200 if hard else 25):
        for tname in ["serdes.load", "serdes.strload"] + HISTORY_TYPES:
            fs, edits = check_history(tname, history_reader(tname, specs), text)
            n["histories"] += 1
            n["history_edits"] += edits
            fails += fs
    from typelib import serdes
    for x in NONTEXT + [object(), 1 + 2j, datetime.date(2020, 1, 2), Point(1)]:
        n["load"] += 1
        r = attempt(serdes.load, x)
        if not (r[0] == "ok" and r[1] is x):
            fails.append({"kind": "load-nontext", "x": repr(x), "symptom": "non-text input not returned untouched",
                          "got": repr(r)[:200], "key": stdjson.dumps(["load-nontext", type(x).__name__])})
    # shrink: per key keep the shortest input
    best = {}
    for f in fails:
        size = len(f.get("s", f.get("text", f.get("x", ""))))
        if f["key"] not in best or size < best[f["key"]][0]:
            best[f["key"]] = (size, f)
    out = [v[1] for v in sorted(best.values(), key=lambda v: v[0])]
    # findings listed in findings.d/C14.json but not yet merged into known_findings.json
    merged = {e["id"] for e in run.findings()}
    for e in own_findings():
        if e["id"] in merged:
            continue
        try:
            if reproduces(e):
                run.known(e)
        except Exception as ex:  # noqa: BLE001
            run.notes.append(f"known finding {e['id']} replay error: {ex!r}")
        keep = []
        for f in out:
            if matches(e, f):
                run.known(e)
            else:
                keep.append(f)
        out = keep
    run.search_stats["oracle"] = {
        "evaluations": n["carriers"] * 5 + n["text_forms"] * 15 + n["load"] * 10 + n["histories"] * 31, "distinct_nontrivial": n["carriers"] + n["text_forms"] + n["load"],
        "types": len(specs), "strings": len(strings), **n, "failures": len(fails), "hard": hard,
        "rule": "for every T of the sample and every string: 5 carriers pairwise equal or all reject; for container/structured T "
                "and wire values m: unmarshal(T, json.dumps(m) / repr(m) in each carrier) == unmarshal(T, m); load/strload: JSON text "
                "-> decoder's answer, text that neither JSON decoder nor literal_eval accepts -> unchanged str, non-text -> same object; "
                "carriers after history: read a text via carrier A, edit every mutable container of the result, read the same text "
                "via each carrier B: equal to a cold read (texts: nested Python-literal / JSON values incl. tuples holding lists and "
                "comma forms; readers: load, strload and pass-through targets)",
    }
    if out:
        run.samples.append({"oracle_failure": out[0]})
    return out


# ----------------------------------------------------------------------------------
# known findings / replay
# ----------------------------------------------------------------------------------

def replay(payload):
    fs = run_payload(payload)
    return {"fails": bool(fs), "failures": fs}


def reproduces(entry):
    return replay(entry["replay"])["fails"]


def matches(entry, failure):
    m = entry.get("matches", {})
    return all(failure.get(k) == v for k, v in m.items())
