"""C02 -- histories over values of DIFFERENT types that compare and hash equal, in one process, no cache clearing.

The statement quantifies over every supported T and every valid v; nothing in it is relative to what the process has
encoded before.  Python's numeric tower, aware temporals, pure/concrete paths and mixin enums give values of different
declared types that are == and hash-equal but have different wire texts (Fraction(1, 2) / Decimal('0.5') / 0.5 ...), which
is exactly where a memo keyed on the value in front of a routine shows (seeded change C02-r3m2: one lru_cache shared by
the Decimal / Fraction / UUID / Path marshallers).  Every family below is run as every ordered pair and as the whole
sequence in both directions, at the root, inside list[T] and as two fields of one dataclass (both field orders); per
step: the three encode entry points agree, the two decode entry points agree on the produced bytes, and
decode(encode(v)) == v with the class of v (only where the same step satisfies this in a cold process: C01's known
exclusions never reach the judgement).
"""
from __future__ import annotations

import itertools
import json

import impl

PRELUDE = """
import dataclasses, datetime, decimal, enum, fractions, pathlib, typing, uuid
class Col(str, enum.Enum):
    RED = "red"
class Num(enum.IntEnum):
    ONE = 1
TZ5 = datetime.timezone(datetime.timedelta(hours=5))
TZM5 = datetime.timezone(datetime.timedelta(hours=-5))
UTC = datetime.timezone.utc
"""

# (type expression, value expression); members of one family are pairwise == and hash-equal (checked at run time)
FAMILIES = {
    "half": [("fractions.Fraction", "fractions.Fraction(1, 2)"), ("decimal.Decimal", "decimal.Decimal('0.5')"), ("float", "0.5")],
    "three-quarters": [("fractions.Fraction", "fractions.Fraction(3, 4)"), ("decimal.Decimal", "decimal.Decimal('0.75')"),
                       ("decimal.Decimal", "decimal.Decimal('0.750')")],
    "one": [("int", "1"), ("float", "1.0"), ("decimal.Decimal", "decimal.Decimal('1')"), ("decimal.Decimal", "decimal.Decimal('1.0')"),
            ("fractions.Fraction", "fractions.Fraction(1)"), ("Num", "Num.ONE")],
    "big": [("int", "10**20"), ("decimal.Decimal", "decimal.Decimal('1E+20')"), ("fractions.Fraction", "fractions.Fraction(10**20)"),
            ("float", "1e20")],
    "negative-zero": [("float", "-0.0"), ("decimal.Decimal", "decimal.Decimal('-0')"), ("int", "0"), ("fractions.Fraction", "fractions.Fraction(0)")],
    "instant": [("datetime.datetime", "datetime.datetime(2020, 1, 1, 12, 0, tzinfo=UTC)"),
                ("datetime.datetime", "datetime.datetime(2020, 1, 1, 17, 0, tzinfo=TZ5)"),
                ("datetime.datetime", "datetime.datetime(2020, 1, 1, 7, 0, tzinfo=TZM5)")],
    "time-aware": [("datetime.time", "datetime.time(12, 0, tzinfo=UTC)"), ("datetime.time", "datetime.time(17, 0, tzinfo=TZ5)")],
    "path": [("pathlib.PurePosixPath", "pathlib.PurePosixPath('a/b')"), ("pathlib.PurePath", "pathlib.PurePosixPath('a//b')"),
             ("pathlib.PurePosixPath", "pathlib.PurePosixPath('a/./b')")],
    "str-enum": [("str", "'red'"), ("Col", "Col.RED")],
    "delta": [("datetime.timedelta", "datetime.timedelta(hours=24)"), ("datetime.timedelta", "datetime.timedelta(days=1)"),
              ("datetime.timedelta", "datetime.timedelta(seconds=86400)")],
}
POSITIONS = ("root", "list", "fields")


def _std_enc(o):
    return json.dumps(o).encode()


CONFIGS = {"default": {}, "stdlib": {"encoder": _std_enc, "decoder": json.loads}}


def _call(f, *a, **k):
    try:
        return ("ok", f(*a, **k))
    except Exception as e:      # noqa: BLE001 - the observation IS the outcome
        return ("raise", impl.exc_kind(e))


def _same_bytes(a, b):
    if a[0] != b[0]:
        return False
    return a[0] == "raise" or bytes(a[1]) == bytes(b[1])


def _same_val(a, b):
    if a[0] != b[0]:
        return False
    if a[0] == "raise":
        return a[1] == b[1]
    return _eqv(a[1], b[1])


def _eqv(x, y):
    if type(x) is not type(y):
        return False
    if isinstance(x, (list, tuple)):
        return len(x) == len(y) and all(_eqv(a, b) for a, b in zip(x, y))
    if hasattr(x, "__dataclass_fields__"):
        return all(_eqv(getattr(x, f), getattr(y, f)) for f in x.__dataclass_fields__)
    return x == y


def steps_of(fam, order, position):
    """list of (texpr, vexpr) steps"""
    ms = [FAMILIES[fam][i] for i in order]
    if position == "root":
        return ms
    if position == "list":
        return [(f"list[{t}]", f"[{v}]") for t, v in ms]
    # fields: ONE step, a dataclass whose fields are the members in this order
    return [("__FIELDS__", ms)]


def run_history(sc, tag="h"):
    import typelib
    from typelib import compat
    fails = []
    cfg = CONFIGS[sc["config"]]
    src = PRELUDE
    src += sc.get("extra_src", "")
    steps = [tuple(x) for x in sc["steps"]] if "steps" in sc else steps_of(sc["family"], sc["order"], sc["position"])
    members = None
    if steps and steps[0][0] == "__FIELDS__":
        ms = members = steps[0][1]
        src += "@dataclasses.dataclass\nclass Rec:\n" + "".join(f"    f{i}: {t}\n" for i, (t, _) in enumerate(ms))
        steps = [("Rec", "Rec(" + ", ".join(v for _, v in ms) + ")")]
    name = f"verif_c02_fam_{tag}"
    mod = impl.new_module(name, src)
    try:
        ns = vars(mod)
        pairs = [(eval(t, ns), eval(v, ns)) for t, v in steps]

        def observe(T, v):
            c = typelib.codec(T, **cfg)
            a = _call(typelib.encode, v, t=T, **{k: x for k, x in cfg.items() if k == "encoder"})
            b = _call(c.encode, v)
            m = _call(typelib.marshal, v, t=T)
            e = _call(cfg.get("encoder", compat.json.dumps), m[1]) if m[0] == "ok" else m
            d1 = d2 = None
            if e[0] == "ok":
                d1 = _call(typelib.decode, T, e[1], **{k: x for k, x in cfg.items() if k == "decoder"})
                d2 = _call(c.decode, e[1])
            return a, b, e, d1, d2

        def good(o, v):
            ca, cb, ce, cd1, cd2 = o
            return (_same_bytes(ca, cb) and _same_bytes(cb, ce) and cd1 is not None and _same_val(cd1, cd2)
                    and cd1[0] == "ok" and _eqv(cd1[1], v))

        # cold reference: each step alone; for the record of all members: each MEMBER alone (a record whose members
        # all round-trip alone must round-trip, whatever its field order)
        cold_ok = []
        if members is not None:
            ok = True
            for t, v in members:
                impl.clear_caches()
                Tm, vm = eval(t, ns), eval(v, ns)
                ok = ok and good(observe(Tm, vm), vm)
            cold_ok = [ok]
        else:
            for T, v in pairs:
                impl.clear_caches()
                cold_ok.append(good(observe(T, v), v))
        impl.clear_caches()
        for i, (T, v) in enumerate(pairs):
            a, b, e, d1, d2 = observe(T, v)
            cold_good = cold_ok[i]
            what = None
            if not (_same_bytes(a, b) and _same_bytes(b, e)):
                what = f"encode entry points disagree: typelib.encode {a!r:.70}, Codec.encode {b!r:.70}, marshal+encoder {e!r:.70}"
            elif d1 is not None and not _same_val(d1, d2):
                what = f"decode entry points disagree: typelib.decode {d1!r:.70}, Codec.decode {d2!r:.70}"
            elif cold_good and not (d1 is not None and d1[0] == "ok" and _eqv(d1[1], v)):
                what = (f"decode(encode(v)) != v after the earlier steps of the history (alone, and member by member, it round-trips): "
                        f"encoded {e!r:.60}, decoded {d1!r:.60}")
            if what:
                fails.append({"kind": "c02-equal-value-history", "clause": "equal-value-history", "config": sc["config"],
                              "scenario": sc, "step": i, "symptom": what, "texpr": steps[i][0], "vexpr": steps[i][1],
                              "source": src, "history": [list(s) for s in steps[:i + 1]],
                              "key": json.dumps(["equal-value-history", sc.get("family"), sc.get("position"), steps[i][0]]
                                                + ([steps[i][1]] if "steps" in sc else []))})
                if "steps" not in sc:
                    break
    finally:
        impl.drop_module(name)
        impl.clear_caches()
    return fails


def scenarios(full: bool):
    for fam, ms in FAMILIES.items():
        n = len(ms)
        orders = [list(p) for p in itertools.permutations(range(n), 2)]
        orders += [list(range(n)), list(reversed(range(n)))]
        for pos in POSITIONS:
            for cfgname in (CONFIGS if full else ("default",)):
                for o in orders:
                    yield {"family": fam, "order": o, "position": pos, "config": cfgname}


# ---- string values whose TEXT is itself a JSON document / Python literal, under every string-carrying T ------------------
# (seeded change C02-r6m2: Codec.decode decoded a str result "a second time" when it starts with a bracket)
TEXTS = ['{"a": 1}', '["x","y"]', '[1,2,3]', '[true]', '{"k": "v"}', '[1, 2]', '{}', '[]', '"q"', 'null', '123', 'true', '1e5',
         ' [1]', '[1] ', '{"a": [1, {"b": null}]}', '(1, 2)', "{'a': 1}", 'None', '[', '{"a"', '\\"', '[1,]', '"\\u0041"']
TEXT_SRC = (
    "Txt = typing.NewType('Txt', str)\n"
    "TEXTS = " + repr(TEXTS) + "\n"
    "LitT = typing.Literal[tuple(TEXTS)]\n"
    "Tmpl = enum.Enum('Tmpl', {f'M{i}': t for i, t in enumerate(TEXTS)})\n"
    "class STmpl(str, enum.Enum):\n    PAIR = '{\"k\": \"v\"}'\n    ARR = '[1,2,3]'\n    PLAIN = 'plain'\n"
    "@dataclasses.dataclass\nclass Doc:\n    body: str\n    kind: Tmpl\n    alt: typing.Optional[Txt] = None\n"
)


def text_scenarios():
    for i, t in enumerate(TEXTS):
        lit = repr(t)
        steps = [("str", lit), ("Txt", f"Txt({lit})"), ("typing.Optional[str]", lit), ("LitT", lit), ("Tmpl", f"Tmpl({lit})"),
                 ("list[str]", f"[{lit}, 'x']"), ("dict[str, str]", "{" + f"{lit}: {lit}" + "}"),
                 ("Doc", f"Doc(body={lit}, kind=Tmpl({lit}), alt=Txt({lit}))"), ("tuple[str, int]", f"({lit}, 1)")]
        for cfgname in CONFIGS:
            yield {"family": "text-json", "position": f"text{i}", "config": cfgname, "steps": [list(x) for x in steps],
                   "extra_src": TEXT_SRC}
    for cfgname in CONFIGS:
        yield {"family": "text-json", "position": "strmixin", "config": cfgname, "extra_src": TEXT_SRC,
               "steps": [["STmpl", "STmpl.PAIR"], ["STmpl", "STmpl.ARR"], ["STmpl", "STmpl.PLAIN"],
                         ["list[STmpl]", "[STmpl.ARR, STmpl.PAIR]"]]}


def family_ok():
    """the catalogue's premise, checked on the live interpreter: members of one family are pairwise == and hash-equal"""
    ns = {}
    exec(PRELUDE, ns)
    bad = []
    for fam, ms in FAMILIES.items():
        vals = [eval(v, ns) for _, v in ms]
        for x, y in itertools.combinations(vals, 2):
            if not (x == y and hash(x) == hash(y)):
                bad.append((fam, repr(x), repr(y)))
    return bad


def check(full: bool):
    fails, n = [], 0
    seen = set()
    for i, sc in enumerate(list(scenarios(full)) + list(text_scenarios())):
        n += 1
        for f in run_history(sc, tag=str(i)):
            if f["key"] not in seen:
                seen.add(f["key"])
                fails.append(f)
    return n, fails


def replay(payload):
    fs = run_history(payload["scenario"], tag="r")
    return {"fails": bool(fs), "failures": [{k: v for k, v in f.items() if k != "source"} for f in fs]}
