"""C18 helper: descriptions of the objects of the quantifier, their construction in Python, their
encoding as Coq terms (Model/Iter.v: val), and the generators.

A *description* is JSON-able:
  {"t":"none"} {"t":"int","v":3} {"t":"str","v":"ab"} {"t":"bytes","v":[97,98]}
  {"t":"coll","k":"KList","l":[d,...]}            k in COLL
  {"t":"dict","k":"MDict","l":[[dk,dv],...]}      k in MAPS
  {"t":"named","style":"collections"|"typing","fields":[..],"l":[d,...]}
  {"t":"obj","cls":{...class description...},"vals":[[name,d],...],"extra":[[name,d],...]}
  {"t":"iter","k":"IGenerator","consumed":n,"l":[d,...]}
Round 3: "named" and "obj" descriptions carry the DERIVATION of their class ("derive"), a "dict" may be built through a
TypedDict class ("td"): see c18_derive.py.
"""
from __future__ import annotations

import collections
import collections.abc
import json
import types

import impl
import c18_derive as D
from lib import coq_list, coq_string

COLL = ["KList", "KTuple", "KDeque", "KSet", "KFrozenSet", "KCustomSeq", "KSetSub", "KKeysView", "KValuesView",
        "KItemsView", "KCustomCollection", "KCustomIterable"]
SEQ_PATH = {"KList", "KTuple", "KDeque", "KSet", "KFrozenSet", "KCustomSeq"}
MAPS = ["MDict", "MOrderedDict", "MDefaultDict", "MProxy", "MCustomMapping"]
ITERS = ["IListIter", "ITupleIter", "IGenerator", "IMapObj", "IZipObj", "ICustomIterator"]

_CUSTOM_SRC = '''
import collections.abc
class CustomMapping(collections.abc.Mapping):
    def __init__(self, items): self._d = dict(items)
    def __getitem__(self, k): return self._d[k]
    def __iter__(self): return iter(self._d)
    def __len__(self): return len(self._d)
class CustomSeq(collections.abc.Sequence):
    def __init__(self, l): self._l = list(l)
    def __getitem__(self, i): return self._l[i]
    def __len__(self): return len(self._l)
class SetSub(set):
    pass
class CustomCollection(collections.abc.Collection):
    def __init__(self, l): self._l = list(l)
    def __iter__(self): return iter(self._l)
    def __len__(self): return len(self._l)
    def __contains__(self, x): return x in self._l
class CustomIterable:
    def __init__(self, l): self._l = list(l)
    def __iter__(self): return iter(self._l)
class CustomIterator:
    def __init__(self, l): self._l = list(l); self._i = 0
    def __iter__(self): return self
    def __next__(self):
        if self._i >= len(self._l): raise StopIteration
        self._i += 1
        return self._l[self._i - 1]
'''
_custom = None


def typing_hints(cls):
    import typing
    return typing.get_type_hints(cls)


def custom():
    global _custom
    if _custom is None:
        _custom = impl.new_module("verif_c18_custom", _CUSTOM_SRC)
    return _custom


# ------------------------------------------------------------------------------------
# classes of structured instances
# ------------------------------------------------------------------------------------
# class description: {"flavour": "dataclass"|"annotated"|"slots"|"vars", "slots": bool (dataclass, annotated),
#                     "members": [{"n": name, "cv": bool}], "init": "matching"|"renamed"|"kwargs"|"none",
#                     "init_ann": bool, "derive": {"kind": ..., "k": ..., "j": ...}}
#   members = the EFFECTIVE members in declaration order over the MRO (bases first); c18_derive turns (flavour, derive)
#   into the chain of classes, its source and the facts the code can read.
class_source = D.class_source
class_facts = D.class_facts


def live_facts(cls):
    """the same facts asked from the interpreter (never from typelib)"""
    import dataclasses
    import inspect
    import typing
    sl = getattr(cls, "__slots__", None)
    mro_slots = []
    for k in reversed(cls.__mro__):
        own = k.__dict__.get("__slots__", ())
        mro_slots += [x for x in ((own,) if isinstance(own, str) else own) if x not in mro_slots]
    return {"dataclass": dataclasses.is_dataclass(cls),
            "dc_fields": [x.name for x in dataclasses.fields(cls)] if dataclasses.is_dataclass(cls) else [],
            "hints": list(typing.get_type_hints(cls)),
            "sig": list(inspect.signature(cls).parameters),
            "slots_attr": None if sl is None else ([sl] if isinstance(sl, str) else list(sl)),
            "slots": None if sl is None else mro_slots,
            "has_dict": any("__dict__" in k.__dict__ for k in cls.__mro__[:-1])}


def check_class_facts(cls, cd):
    """Cross-check the description-derived facts with the interpreter (never with typelib)."""
    f, live = class_facts(cd), live_facts(cls)
    return [f"{k} {live[k]} != {f[k]} ({D.family(cd)}/{D.kind_of(cd)})" for k in live if live[k] != f[k]]


# ------------------------------------------------------------------------------------
# building
# ------------------------------------------------------------------------------------
class Built:
    """Python object for a description + registry of the synthesised classes (type -> info)."""
    def __init__(self):
        self.reg = {}
        self.sources = []
        self.problems = []
        self.n = 0
        self.classes = {}      # canonical class description -> class: one class per description within a Built

    def build(self, d):
        t = d["t"]
        c = custom()
        if t == "none":
            return None
        if t == "int":
            return d["v"]
        if t == "str":
            return d["v"]
        if t == "bytes":
            return bytes(d["v"])
        if t == "coll":
            l = [self.build(e) for e in d["l"]]
            k = d["k"]
            if k == "KList":
                return l
            if k == "KTuple":
                return tuple(l)
            if k == "KDeque":
                return collections.deque(l)
            if k in ("KSet", "KFrozenSet", "KSetSub"):
                s = {"KSet": set, "KFrozenSet": frozenset, "KSetSub": c.SetSub}[k](l)
                d["l"] = [self.desc_of(e) for e in s]          # iteration order of the live set
                return s
            if k == "KCustomSeq":
                return c.CustomSeq(l)
            if k == "KCustomCollection":
                return c.CustomCollection(l)
            if k == "KCustomIterable":
                return c.CustomIterable(l)
            if k == "KKeysView":
                dd = {e: None for e in l}
                d["l"] = [self.desc_of(e) for e in dd]
                return dd.keys()
            if k == "KValuesView":
                return {i: e for i, e in enumerate(l)}.values()
            if k == "KItemsView":
                dd = {e[0]: e[1] for e in l}
                d["l"] = [self.desc_of(e) for e in dd.items()]
                return dd.items()
            raise ValueError(k)
        if t == "dict":
            items = [(self.build(a), self.build(b)) for a, b in d["l"]]
            dd = dict(items)
            d["l"] = [[self.desc_of(a), self.desc_of(b)] for a, b in dd.items()]   # duplicate keys collapse
            k = d["k"]
            if d.get("td"):
                # built through a TypedDict class (possibly derived): the instance is a plain dict at runtime
                td = d["td"]
                keys = [a for a in dd if isinstance(a, str) and a.isidentifier()]
                ck = json.dumps(["td", td, keys])
                if ck not in self.classes:
                    self.n += 1
                    src = D.typeddict_source(keys, td["kind"], max(0, min(td.get("k", 0), len(keys))), f"TD{self.n}")
                    self.sources.append(src)
                    self.classes[ck] = getattr(impl.new_module(f"verif_c18_td{self.n}", src), f"TD{self.n}")
                cls = self.classes[ck]
                x = cls(dd)
                if type(x) is not dict or list(x.items()) != list(dd.items()):
                    self.problems.append(f"{cls.__name__}: a TypedDict instance is not the plain dict of its items")
                if set(typing_hints(cls)) != set(keys):
                    self.problems.append(f"{cls.__name__}: TypedDict keys {sorted(typing_hints(cls))} != {sorted(keys)}")
                return x
            if k == "MDict":
                return dd
            if k == "MOrderedDict":
                return collections.OrderedDict(dd)
            if k == "MDefaultDict":
                return collections.defaultdict(int, dd)
            if k == "MProxy":
                return types.MappingProxyType(dd)
            if k == "MCustomMapping":
                return c.CustomMapping(dd)
            raise ValueError(k)
        if t == "named":
            kind = d.get("derive") or "direct"
            ck = json.dumps(["named", d.get("style"), d["fields"], kind])
            if ck in self.classes:
                return self.classes[ck](*[self.build(e) for e in d["l"]])
            self.n += 1
            name = f"NT{self.n}"
            src = D.named_source("typing" if d.get("style") == "typing" else "collections", d["fields"], kind, name)
            mod = impl.new_module(f"verif_c18_nt{self.n}", src)
            self.sources.append(src)
            cls = getattr(mod, name)
            if list(cls._fields) != list(d["fields"]) or not issubclass(cls, tuple):
                self.problems.append(f"{name}: _fields {cls._fields} != {d['fields']} ({kind})")
            if kind != "direct" and cls.__bases__ == (tuple,):
                self.problems.append(f"{name}: not a derived class ({kind})")
            self.reg[cls] = ("named", d["fields"])
            self.classes[ck] = cls
            return cls(*[self.build(e) for e in d["l"]])
        if t == "obj":
            cd = d["cls"]
            ck = json.dumps(["obj", cd], sort_keys=True)
            if ck in self.classes:
                cls = self.classes[ck]
            else:
                self.n += 1
                name = f"K{self.n}"
                src = class_source(cd, name)
                mod = impl.new_module(f"verif_c18_k{self.n}", src)
                self.sources.append(src)
                cls = getattr(mod, name)
                self.problems += [f"{name}: {p}" for p in check_class_facts(cls, cd)]
                self.reg[cls] = ("obj", cd)
                self.classes[ck] = cls
            vals = [(n, self.build(e)) for n, e in d["vals"]]
            if cd["flavour"] == "dataclass" or cd["init"] in ("matching", "renamed"):
                o = cls(*[v for _, v in vals])
            elif cd["init"] == "kwargs":
                o = cls(**dict(vals))
            else:
                o = cls()
                for n, v in vals:
                    setattr(o, n, v)
            for n, e in d.get("extra", []):
                setattr(o, n, self.build(e))
            return o
        if t == "iter":
            l = [self.build(e) for e in d["l"]]
            k = d["k"]
            if k == "IListIter":
                it = iter(l)
            elif k == "ITupleIter":
                it = iter(tuple(l))
            elif k == "IGenerator":
                it = (e for e in l)
            elif k == "IMapObj":
                it = map(lambda e: e, l)
            elif k == "IZipObj":
                it = zip([e[0] for e in l], [e[1] for e in l])
            elif k == "ICustomIterator":
                it = c.CustomIterator(l)
            else:
                raise ValueError(k)
            for _ in range(d["consumed"]):
                next(it)
            return it
        raise ValueError(t)

    # live object -> description (content read from the object, kinds from its type)
    def desc_of(self, o):
        c = custom()
        tp = type(o)
        if o is None:
            return {"t": "none"}
        if tp is int:
            return {"t": "int", "v": o}
        if tp is str:
            return {"t": "str", "v": o}
        if tp is bytes:
            return {"t": "bytes", "v": list(o)}
        if tp in self.reg:
            kind, info = self.reg[tp]
            if kind == "named":
                return {"t": "named", "fields": list(info), "l": [self.desc_of(e) for e in tuple.__iter__(o)]}
            cd = info
            f = class_facts(cd)
            slotvals = [[n, self.desc_of(getattr(o, n))] for n in (f["slots"] or []) if hasattr(o, n)]   # MRO order
            dd = getattr(o, "__dict__", None)
            return {"t": "obj", "cls": cd, "live": True, "slotvals": slotvals,
                    "dict": None if dd is None else [[k, self.desc_of(v)] for k, v in dd.items()],
                    "clsattrs": [[m["n"], self.desc_of(getattr(tp, m["n"]))] for m in cd["members"]
                                 if m["cv"] and hasattr(tp, m["n"])]}
        simple = {list: "KList", tuple: "KTuple", collections.deque: "KDeque", set: "KSet", frozenset: "KFrozenSet",
                  c.CustomSeq: "KCustomSeq", c.SetSub: "KSetSub", c.CustomCollection: "KCustomCollection",
                  c.CustomIterable: "KCustomIterable", type({}.keys()): "KKeysView", type({}.values()): "KValuesView",
                  type({}.items()): "KItemsView"}
        if tp in simple:
            return {"t": "coll", "k": simple[tp], "l": [self.desc_of(e) for e in o]}
        maps = {dict: "MDict", collections.OrderedDict: "MOrderedDict", collections.defaultdict: "MDefaultDict",
                types.MappingProxyType: "MProxy", c.CustomMapping: "MCustomMapping"}
        if tp in maps:
            return {"t": "dict", "k": maps[tp], "l": [[self.desc_of(k), self.desc_of(o[k])] for k in o]}
        raise ValueError(f"unencodable object of type {tp.__name__}")


def obj_parts(d):
    """slotvals / dict / clsattrs of a structured-instance description (construction view)."""
    if d.get("live"):
        return d["slotvals"], d["dict"], d["clsattrs"]
    cd = d["cls"]
    f = class_facts(cd)
    vals = [list(x) for x in d["vals"]]
    extra = [list(x) for x in d.get("extra", [])]
    cvs = [[m["n"], {"t": "int", "v": 7}] for m in cd["members"] if m["cv"]]
    slotted = set(f["slots"] or [])
    sv = [v for v in vals if v[0] in slotted]              # (members are in MRO order: so are the slots)
    dv = [v for v in vals if v[0] not in slotted] + extra
    return sv, (dv if f["has_dict"] else None), cvs


# ------------------------------------------------------------------------------------
# Coq emission
# ------------------------------------------------------------------------------------
def emit_strs(l):
    return coq_list([coq_string(s) for s in l], "string")


def emit_attrs(l):
    return coq_list(["(%s, %s)" % (coq_string(k), emit(v)) for k, v in l], "(string * val)")


def emit_cls(cd):
    f = class_facts(cd)
    return ("{| c_flavour := %s; c_dataclass := %s; c_dc_fields := %s; c_hints := %s; c_sig := %s; c_slots := %s |}" % (
        f["flavour"], "true" if f["dataclass"] else "false", emit_strs(f["dc_fields"]), emit_strs(f["hints"]),
        emit_strs(f["sig"]), "None" if f["slots"] is None else "(Some %s)" % emit_strs(f["slots"])))


def emit(d) -> str:
    t = d["t"]
    if t == "none":
        return "VNone"
    if t == "int":
        return f"(VInt ({d['v']})%Z)"
    if t == "str":
        return f"(VStr {coq_string(d['v'])})"
    if t == "bytes":
        return "(VBytes %s)" % coq_list([f"{b}%N" for b in d["v"]], "N")
    if t == "coll":
        return "(VColl %s %s)" % (d["k"], coq_list([emit(e) for e in d["l"]], "val"))
    if t == "dict":
        return "(VDict %s %s)" % (d["k"], coq_list(["(%s, %s)" % (emit(a), emit(b)) for a, b in d["l"]], "(val * val)"))
    if t == "named":
        return "(VNamed %s %s)" % (emit_strs(d["fields"]), coq_list([emit(e) for e in d["l"]], "val"))
    if t == "obj":
        sv, dd, ca = obj_parts(d)
        return "(VObj %s %s %s %s)" % (emit_cls(d["cls"]), emit_attrs(sv),
                                       "None" if dd is None else "(Some %s)" % emit_attrs(dd), emit_attrs(ca))
    if t == "iter":
        return "(VIter %s %d%%nat %s)" % (d["k"], d["consumed"], coq_list([emit(e) for e in d["l"]], "val"))
    raise ValueError(t)


def size(d) -> int:
    t = d["t"]
    if t in ("coll", "named", "iter"):
        return 1 + sum(size(e) for e in d["l"])
    if t == "dict":
        return 1 + sum(size(a) + size(b) for a, b in d["l"])
    if t == "obj":
        return 1 + sum(size(e) for _, e in d.get("vals", [])) + sum(size(e) for _, e in d.get("extra", []))
    return 1


def weight(d) -> int:
    """shrink order: size first, then a derived class / TypedDict / annotated __init__ weighs more than a direct one"""
    w = 10 * size(d)
    t = d["t"]
    if t == "named":
        w += (d.get("derive") or "direct") != "direct"
    if t == "obj":
        w += bool(d["cls"].get("derive")) + bool(d["cls"].get("init_ann")) + bool(d["cls"].get("slots_str"))
        w += sum(5 * (size(e) - 1) + (e != {"t": "int", "v": 0}) for _, e in d.get("vals", []))
    if t == "dict":
        w += bool(d.get("td"))
    if t in ("coll", "iter", "named"):
        w += sum(weight(e) - 10 * size(e) for e in d["l"])
    return w


# ------------------------------------------------------------------------------------
# generators
# ------------------------------------------------------------------------------------
NAMES = ["a", "b", "c", "x1", "key", "_p", "_q", "value", "kw", "n0", "self_", "items", "z"]
STRS = ["", "a", "ab", "xy", "abc", "k1", "_p", "hello", "0", "12"]


def g_atom(rng, hashable=True):
    r = rng.random()
    if r < 0.45:
        return {"t": "int", "v": rng.choice([0, 1, 2, -1, 7, 10, 255, 12345678901234567890])}
    if r < 0.8:
        return {"t": "str", "v": rng.choice(STRS)}
    if r < 0.9:
        return {"t": "none"}
    return {"t": "bytes", "v": [rng.choice([0, 97, 98, 255]) for _ in range(rng.choice([0, 1, 2, 2, 3]))]}


def g_elem(rng, hashable=False, depth=0):
    """an element: atoms, pair-like collections of every sort, non-pair collections"""
    r = rng.random()
    if r < 0.35 or depth >= 2:
        return g_atom(rng)
    n = rng.choice([0, 1, 2, 2, 2, 2, 3])
    sub = [g_elem(rng, True if hashable else rng.random() < 0.5, depth + 1) for _ in range(n)]
    kinds = ["KTuple", "KTuple", "KFrozenSet", "str", "named"] if hashable else \
        ["KTuple", "KTuple", "KList", "KList", "KSet", "KFrozenSet", "KDeque", "dict", "str", "bytes", "named", "obj",
         "KCustomSeq", "KCustomIterable"]
    k = rng.choice(kinds)
    if k == "str":
        return {"t": "str", "v": rng.choice(["ab", "xy", "a", "abc", "", "k1"])}
    if k == "bytes":
        return {"t": "bytes", "v": [97, 98][:n] if n <= 2 else [1, 2, 3]}
    if k in ("KSet", "KFrozenSet"):
        sub = [g_elem(rng, True, depth + 1) for _ in range(n)]
        return {"t": "coll", "k": k, "l": sub}
    if k == "dict":
        return {"t": "dict", "k": "MDict", "l": [[g_atom(rng), g_elem(rng, False, depth + 1)] for _ in range(n)]}
    if k == "named":
        return {"t": "named", "style": rng.choice(["collections", "typing"]), "fields": ["f%d" % i for i in range(n)],
                "l": sub, "derive": rng.choice(D.NAMED_KINDS)}
    if k == "obj":
        if rng.random() < 0.5:
            return {"t": "obj", "cls": {"flavour": "vars", "members": [{"n": "a", "cv": False}], "init": "matching"},
                    "vals": [["a", g_atom(rng)]], "extra": []}
        fl, sl, kind = rng.choice(D.all_obj_kinds())
        return g_shape(rng, fl, sl, kind, [{"n": "a", "cv": False}, {"n": "b", "cv": False}], [g_atom(rng), g_atom(rng)])
    return {"t": "coll", "k": k, "l": sub}


def g_pair(rng, hashable=False):
    a = g_atom(rng)
    b = g_atom(rng) if hashable else g_elem(rng, False, 1)
    return {"t": "coll", "k": "KTuple" if hashable or rng.random() < 0.6 else "KList", "l": [a, b]}


def g_elems(rng, hashable=False):
    """element lists: empty / all pairs / no pairs / mixed, first element of every sort"""
    n = rng.choice([0, 0, 1, 1, 2, 3, 4, 6])
    mode = rng.choice(["pairs", "pairs", "atoms", "atoms", "mixed", "mixed", "first2"])
    out = []
    for i in range(n):
        if mode == "pairs":
            out.append(g_pair(rng, hashable))
        elif mode == "atoms":
            out.append(g_atom(rng))
        elif mode == "first2" and i == 0:
            # a first element of length 2 that is not a 2-tuple/2-list
            out.append(rng.choice([{"t": "str", "v": "ab"},
                                   {"t": "coll", "k": "KFrozenSet", "l": [{"t": "int", "v": 1}, {"t": "int", "v": 2}]},
                                   {"t": "named", "style": "collections", "fields": ["p", "q"],
                                    "l": [{"t": "int", "v": 1}, {"t": "int", "v": 2}]}] +
                                  ([] if hashable else [
                                      {"t": "dict", "k": "MDict", "l": [[{"t": "int", "v": 1}, {"t": "int", "v": 2}],
                                                                       [{"t": "int", "v": 3}, {"t": "int", "v": 4}]]},
                                      {"t": "bytes", "v": [97, 98]}])))
        else:
            out.append(g_elem(rng, hashable))
    return out


def g_members(rng, allow_cv, allow_private=True):
    names = [n for n in NAMES if allow_private or not n.startswith("_")]
    k = rng.choice([0, 1, 1, 2, 2, 3, 4])
    chosen = rng.sample(names, k)
    if allow_private and chosen and rng.random() < 0.15:
        chosen = [n if n.startswith("_") else "_" + n for n in chosen]      # private only
        chosen = list(dict.fromkeys(chosen))
    return [{"n": n, "cv": bool(allow_cv and rng.random() < 0.2)} for n in chosen]


def g_derive(rng, cd, kind=None):
    """record a derivation of the class (round 3): kind, split point k, overridden member j"""
    kinds = D.OBJ_KINDS[D.family(cd)]
    if kind is None:
        kind = "direct" if rng.random() < 0.45 else rng.choice(kinds[1:])
    n = len(cd["members"])
    if kind.endswith("-override") and n == 0:
        kind = {"dc-sub-override": "dc-sub-dec", "pl-sub-override": "pl-sub-empty"}[kind]
    if kind == "direct":
        cd.pop("derive", None)
        return cd
    spec = {"kind": kind}
    if kind.endswith("-add"):
        spec["k"] = rng.randint(1, n - 1) if n >= 2 and rng.random() < 0.8 else rng.randint(0, n)
    if kind.endswith("-override"):
        spec["j"] = rng.randrange(n)
    cd["derive"] = spec
    return cd


def g_shape(rng, fl, sl, kind, members, values, init=None):
    """an instance of the given (flavour, slots flag, derivation kind) with the given members / field values"""
    cd = {"flavour": fl, "members": [dict(m) for m in members]}
    if fl in ("slots", "vars"):
        cd["members"] = [dict(m, cv=False) for m in members]
    if fl == "dataclass":
        cd["slots"], cd["init"] = bool(sl), "matching"
    else:
        cd["init"] = init or rng.choice(["matching", "matching", "renamed", "kwargs", "none"])
        if fl == "annotated":
            cd["slots"] = bool(sl)
        if cd["init"] in ("matching", "renamed") and rng.random() < 0.3:
            cd["init_ann"] = True
    g_derive(rng, cd, kind)
    inst = [m["n"] for m in cd["members"] if not m["cv"]]
    return {"t": "obj", "cls": cd, "vals": [[n, v] for n, v in zip(inst, values)], "extra": []}


def g_obj(rng):
    fl = rng.choice(["dataclass", "dataclass", "annotated", "annotated", "slots", "slots", "vars", "vars"])
    cd = {"flavour": fl, "members": g_members(rng, fl in ("dataclass", "annotated"))}
    if fl == "dataclass":
        cd["slots"] = rng.random() < 0.4
        cd["init"] = "matching"
    else:
        cd["init"] = rng.choice(["matching", "matching", "renamed", "kwargs", "none"])
        if fl == "annotated" and not cd["members"]:
            cd["members"] = [{"n": "a", "cv": False}]
        if fl == "annotated":
            cd["slots"] = rng.random() < 0.3            # annotated __slots__ class (C13's pl-slots)
        if fl in ("slots", "vars"):
            for m in cd["members"]:
                m["cv"] = False
        if cd["init"] in ("matching", "renamed") and rng.random() < 0.25:
            cd["init_ann"] = True                       # hints only in the signature of __init__
        if (fl == "slots" or cd.get("slots")) and rng.random() < 0.3:
            cd["slots_str"] = True                      # __slots__ = 'key' wherever a class declares one slot
    g_derive(rng, cd)
    inst = [m["n"] for m in cd["members"] if not m["cv"]]
    if cd.get("init") == "kwargs" and any(n.startswith("__") for n in inst):
        cd["init"] = "none"
    # name mangling: self.__r inside a class body would be mangled; only setattr-style inits keep "__r"
    if any(n.startswith("__") for n in inst) and cd["flavour"] != "dataclass" and cd["init"] in ("matching", "renamed"):
        cd["init"] = "none"
    if cd["flavour"] == "dataclass" and any(n.startswith("__") for n in inst):
        cd["members"] = [m for m in cd["members"] if not m["n"].startswith("__")]
        inst = [m["n"] for m in cd["members"] if not m["cv"]]
    vals = [[n, g_elem(rng, False, 1)] for n in inst]
    if vals and rng.random() < 0.35:
        vals[0][1] = g_pairish(rng)
    if vals and cd["flavour"] in ("annotated", "slots") and cd["init"] in ("none", "kwargs") and rng.random() < 0.25:
        del vals[rng.randrange(len(vals))]          # malformed: a declared field is never set (getattr raises)
    extra = []
    f = class_facts(cd)
    if f["has_dict"] and rng.random() < 0.25:
        used = {m["n"] for m in cd["members"]}
        for n in rng.sample([x for x in ["extra", "_hidden", "z9"] if x not in used], rng.choice([1, 2])):
            extra.append([n, g_atom(rng)])
    return {"t": "obj", "cls": cd, "vals": vals, "extra": extra}


def g_named(rng):
    n = rng.choice([0, 1, 2, 2, 3, 4])
    fields = rng.sample(["a", "b", "c", "x1", "key", "value", "items"], n)
    l = [g_elem(rng, False, 1) for _ in range(n)]
    if n and rng.random() < 0.5:
        l[0] = rng.choice([{"t": "str", "v": "ab"}, g_pair(rng), g_pair(rng, True),
                           {"t": "coll", "k": "KList", "l": [g_atom(rng), g_atom(rng)]}, g_pairish(rng)])
    d = {"t": "named", "style": rng.choice(["collections", "typing"]), "fields": fields, "l": l}
    if rng.random() < 0.55:
        d["derive"] = rng.choice(D.NAMED_KINDS[1:])
    return d


# ---- round 3: adversarial first-field values and the derivation stratum ----
def _i(v):
    return {"t": "int", "v": v}


def _s(v):
    return {"t": "str", "v": v}


PAIRISH = [
    _s("ab"), _s("ba"),
    {"t": "coll", "k": "KTuple", "l": [_s("a"), _i(1)]},
    {"t": "coll", "k": "KTuple", "l": [_s("ab"), _s("ba")]},
    {"t": "coll", "k": "KList", "l": [_s("b"), _i(2)]},
    {"t": "coll", "k": "KList", "l": [_i(1), _i(2)]},
    {"t": "dict", "k": "MDict", "l": [[_s("a"), _i(1)], [_s("b"), _i(2)]]},
    {"t": "bytes", "v": [120, 121]},
    {"t": "coll", "k": "KList", "l": [{"t": "coll", "k": "KTuple", "l": [_s("a"), _i(1)]},
                                      {"t": "coll", "k": "KTuple", "l": [_s("b"), _i(2)]}]},
    {"t": "coll", "k": "KFrozenSet", "l": [_i(1), _i(2)]},
]
MEMBER_SHAPES = [
    [{"n": "a", "cv": False}, {"n": "b", "cv": False}],
    [{"n": "a", "cv": False}, {"n": "_p", "cv": False}, {"n": "tag", "cv": True}, {"n": "b", "cv": False}],
    [{"n": "key", "cv": False}],
]


def g_pairish(rng):
    import copy
    return copy.deepcopy(rng.choice(PAIRISH))


def g_derived_instance(rng, nfields=None):
    """an instance of a DERIVED (or, as control, direct) named tuple / structured class whose first field is pair-like"""
    import copy
    if rng.random() < 0.4:
        n = nfields if nfields is not None else rng.choice([1, 2, 2, 2, 3])
        fields = ["a", "b", "c"][:n]
        return {"t": "named", "style": rng.choice(["collections", "typing"]), "fields": fields,
                "l": [g_pairish(rng)] + [g_atom(rng) for _ in range(n - 1)], "derive": rng.choice(D.NAMED_KINDS)}
    fl, sl, kind = rng.choice(D.all_obj_kinds())
    members = copy.deepcopy(rng.choice(MEMBER_SHAPES))
    inst = [m for m in members if not (m["cv"] and fl in ("dataclass", "annotated"))]
    return g_shape(rng, fl, sl, kind, members, [g_pairish(rng)] + [g_atom(rng) for _ in inst])


def g_typeddict(rng):
    keys = rng.sample(["a", "b", "c", "key", "_p", "value"], rng.choice([0, 1, 2, 2, 3]))
    l = [[_s(k), g_elem(rng, False, 1)] for k in keys]
    if l and rng.random() < 0.5:
        l[0][1] = g_pairish(rng)
    kind = rng.choice(D.TD_KINDS)
    return {"t": "dict", "k": "MDict", "l": l, "td": {"kind": kind, "k": rng.randint(0, len(keys))}}


def g_derived_case(rng):
    """the derivation stratum: derived instances, containers and one-shot iterators of them, TypedDict instances"""
    r = rng.random()
    if r < 0.5:
        return g_derived_instance(rng)
    if r < 0.6:
        return g_typeddict(rng)
    n = rng.choice([1, 1, 2, 3])
    first = g_derived_instance(rng, nfields=rng.choice([2, 2, 3]))
    l = [first] + [g_derived_instance(rng) if rng.random() < 0.5 else copy_of(first) for _ in range(n - 1)]
    if r < 0.85:
        return {"t": "iter", "k": rng.choice([k for k in ITERS if k != "IZipObj"]), "consumed": 0, "l": l}
    return {"t": "coll", "k": rng.choice(["KList", "KTuple", "KDeque", "KCustomSeq", "KCustomIterable", "KValuesView",
                                           "KCustomCollection"]), "l": l}


def copy_of(d):
    import copy
    return copy.deepcopy(d)


def catalogue():
    """exhaustive small enumeration: every (flavour, derivation kind) x member shape x a rotating pair-like first field,
    as the instance itself and as the only element of a generator (always part of correspondence and oracle)"""
    import copy
    import random
    rng = random.Random(18)
    out, i = [], 0
    for style in ("typing", "collections"):
        for kind in D.NAMED_KINDS:
            for fields in (["a", "b"], ["code", "count", "x1"], ["key"]):
                for rep in range(2):
                    i += 1
                    first = copy.deepcopy(PAIRISH[i % len(PAIRISH)])
                    d = {"t": "named", "style": style, "fields": fields, "derive": kind,
                         "l": [first] + [_i(j) for j in range(1, len(fields))]}
                    out.append(d)
                    if rep == 0:
                        out.append({"t": "iter", "k": ["IGenerator", "IListIter", "ICustomIterator", "IMapObj"][i % 4],
                                    "consumed": 0, "l": [copy.deepcopy(d)]})
    for fl, sl, kind in D.all_obj_kinds():
        for members in MEMBER_SHAPES:
            for init in (["matching"] if fl == "dataclass" else ["matching", "none"]):
                i += 1
                first = copy.deepcopy(PAIRISH[i % len(PAIRISH)])
                d = g_shape(rng, fl, sl, kind, copy.deepcopy(members), [first, _i(1), _i(2), _i(3)], init=init)
                if len(members) == 1 and fl in ("slots", "annotated") and init == "none":
                    d["cls"]["slots_str"] = True
                out.append(d)
                if init == "matching":
                    out.append({"t": "iter", "k": ["IGenerator", "IListIter", "ICustomIterator", "IMapObj"][i % 4],
                                "consumed": 0, "l": [copy.deepcopy(d)]})
    for kind in D.TD_KINDS:
        out.append({"t": "dict", "k": "MDict", "td": {"kind": kind, "k": 1},
                    "l": [[_s("a"), copy.deepcopy(PAIRISH[0])], [_s("b"), _i(1)], [_s("_p"), _i(2)]]})
    return out


def g_case(rng):
    if rng.random() < 0.22:
        return g_derived_case(rng)
    r = rng.random()
    if r < 0.14:
        k = rng.choice(MAPS)
        return {"t": "dict", "k": k, "l": [[g_atom(rng), g_elem(rng, False, 1)] for _ in range(rng.choice([0, 1, 2, 3, 5]))]}
    if r < 0.36:
        return g_obj(rng)
    if r < 0.48:
        return g_named(rng)
    if r < 0.70:
        k = rng.choice(COLL)
        hashable = k in ("KSet", "KFrozenSet", "KSetSub", "KKeysView")
        if k == "KItemsView":
            n = rng.choice([0, 1, 2, 4])
            return {"t": "coll", "k": k, "l": [{"t": "coll", "k": "KTuple", "l": [g_atom(rng), g_elem(rng, False, 1)]}
                                               for _ in range(n)]}
        return {"t": "coll", "k": k, "l": g_elems(rng, hashable)}
    if r < 0.92:
        k = rng.choice(ITERS)
        if k == "IZipObj":
            l = [{"t": "coll", "k": "KTuple", "l": [g_atom(rng), g_elem(rng, False, 1)]}
                 for _ in range(rng.choice([0, 1, 2, 4]))]
        else:
            l = g_elems(rng)
        consumed = 0 if rng.random() < 0.8 or not l else rng.randint(0, len(l))
        return {"t": "iter", "k": k, "consumed": consumed, "l": l}
    if r < 0.96:
        return {"t": "str", "v": rng.choice(STRS + ["ab", "xy"])}
    return {"t": "bytes", "v": [rng.choice([0, 97, 98, 255]) for _ in range(rng.choice([0, 1, 2, 2, 3, 5]))]}


def label(d) -> str:
    t = d["t"]
    if t == "obj":
        cd = d["cls"]
        return (f"obj:{cd['flavour']}" + ("+slots" if cd.get("slots") else "") + ("+str" if cd.get("slots_str") else "") +
                ":" + cd["init"] +
                ("+ann" if cd.get("init_ann") else "") + ("" if D.kind_of(cd) == "direct" else "/" + D.kind_of(cd)))
    if t == "named":
        return "named" + ("" if (d.get("derive") or "direct") == "direct" else "/" + d["derive"])
    if t == "dict" and d.get("td"):
        return "dict:TypedDict/" + d["td"]["kind"]
    if t in ("coll", "iter"):
        der = any((e["t"] == "named" and (e.get("derive") or "direct") != "direct") or
                  (e["t"] == "obj" and e["cls"].get("derive")) for e in d["l"])
        return f"{t}:{d['k']}" + ("[of derived instances]" if der else "")
    if t == "dict":
        return f"{t}:{d['k']}"
    return t


def perturb(d):
    """another object of the same class(es) with different content (primes get_items_iter's per-class cache)"""
    import copy
    d = copy.deepcopy(d)
    one, pair = {"t": "int", "v": 0}, {"t": "coll", "k": "KTuple", "l": [{"t": "int", "v": 8}, {"t": "int", "v": 9}]}
    t = d["t"]
    if t == "named":
        firstpair = bool(d["l"]) and d["l"][0]["t"] in ("coll", "str", "dict", "named", "bytes")
        d["l"] = [one if (firstpair or i) else pair for i, _ in enumerate(d["l"])]
    elif t == "obj":
        d["vals"] = [[n, pair] for n, _ in d["vals"]]
        if class_facts(d["cls"])["has_dict"]:
            d["extra"] = [] if d.get("extra") else [["primed", one]]
    elif t in ("coll", "iter") and d["k"] not in ("KItemsView", "IZipObj", "KSet", "KFrozenSet", "KSetSub", "KKeysView"):
        d["l"] = ([one] if d["l"] and d["l"][0]["t"] != "int" else [pair]) + d["l"][1:]
        if t == "iter":
            d["consumed"] = 0
    return d
