"""Which JSON backend typelib's compat layer selects in this process.

`py/compat.py` does `import orjson as json`, falling back to the standard `json` module when orjson is not importable.
Both are supported configurations.  `VERIF_JSON_BACKEND=stdlib` makes orjson unimportable for this process (an entry
`None` in `sys.modules` makes `import orjson` raise ImportError), so that a check runs against the fallback backend;
unset / `default`: whatever is installed.  Must be imported before typelib is (harness modules import typelib lazily).
"""
from __future__ import annotations

import os
import sys

WANTED = os.environ.get("VERIF_JSON_BACKEND", "default").strip().lower() or "default"


def apply() -> str:
    if WANTED == "stdlib":
        compat = sys.modules.get("typelib.py.compat")
        if compat is not None and getattr(compat.json, "__name__", "") != "json":
            raise RuntimeError("VERIF_JSON_BACKEND=stdlib: typelib was imported before the backend switch")
        sys.modules["orjson"] = None
    elif WANTED not in ("default", "orjson"):
        raise RuntimeError(f"VERIF_JSON_BACKEND={WANTED!r}: expected 'stdlib' or 'default'")
    return WANTED


apply()


def name() -> str:
    """the backend actually in use (imports typelib)"""
    from typelib.py import compat
    return getattr(compat.json, "__name__", repr(compat.json))
