"""C12 round 4: same-CLASS inputs that different members of one union must take.

A union routine is "the first member, in declared order, that accepts the value".  Whether a member accepts depends on
the VALUE ([1] vs [1, 2] for tuple[int, int]; a dict with or without a required field; 'abc' vs '5' for int; 1.5 vs inf),
not on its class, and the routine object is cached per annotation for the life of the process.  So the histories that
show call-time state of a union routine (a per-class dispatch table, a "last acceptor" index, a resume position) are:
several inputs of ONE class, which different members take, through ONE union routine, one after the other -- in every
order, since the state may be written by the early or by the late acceptor.  The family stream (c12_families) varies
==-equal values under one type; this stream varies the acceptor under one union type.

For every union of the catalogue (both member orders) and every same-class group of inputs: forwards and backwards
round trips, every ordered pair and every A-B-A triple of a small group (thorough: of every group), a round-robin over all
classes (state not keyed by class), for unmarshal and marshal (and decode / encode / the codec's own routines), at the
root and -- the routine of a nested union is one object, too -- one level down.  Compared operation by operation with
the cold process; the part over Model/Cache.v's universe (unions of its scalar types, of lists / dicts of them; values
that are atoms, lists and str-keyed dicts of atoms) also with the model.
"""
from __future__ import annotations

import json

S = lambda n: ["S", n]  # noqa: E731
C = lambda n: ["C", n]  # noqa: E731
L = lambda t: ["L", t]  # noqa: E731
D = lambda t: ["D", t]  # noqa: E731
T = lambda *ts: ["T", list(ts)]  # noqa: E731
NON = S("none")
INT, FLT, STR, BYT = S("int"), S("float"), S("str"), S("bytes")


def U(*ms):
    return ["U", "typing", list(ms)]


def sp(v):
    if isinstance(v, bool):
        return ["b", v]
    if isinstance(v, int):
        return ["i", v]
    if isinstance(v, float):
        return ["f", v.hex()]
    if isinstance(v, str):
        return ["s", v]
    if isinstance(v, bytes):
        return ["y", v.decode("latin1")]
    if v is None:
        return ["n"]
    if isinstance(v, list):
        return ["l", [sp(x) for x in v]]
    if isinstance(v, tuple):
        return ["t", [sp(x) for x in v]]
    if isinstance(v, dict):
        return ["d", [[sp(a), sp(b)] for a, b in v.items()]]
    raise ValueError(v)


# ---- same-class groups of inputs ------------------------------------------------------------------------------------
GROUPS = {
    "list": [sp(v) for v in ([1], [1, 2], [1, 2, 3], ["a"], ["a", "b"], [], ["1", "5"], [1, "a"])],
    "tuple": [sp(v) for v in ((1,), (1, 2), ("a", 1), (1, 2, 3))],
    "dict": [sp(v) for v in ({"name": "rex"}, {"name": "tom", "lives": 9}, {"a": 1}, {"a": "x"}, {}, {"x": 1, "y": 2},
                             {"x": "1"}, {"a": 1, "b": 5})],
    "str": [sp(v) for v in ("abc", "5", "1.5", "[1]", "[1,2]", '{"a":1}', '{"name":"rex"}', '{"name":"tom","lives":9}',
                            "2020-01-01T12:00:00+00:00", "PT1H", "a")],
    "bytes": [sp(v) for v in (b"abc", b"5", b"[1]", b"[1,2]", b'{"name":"rex"}')],
    "int": [sp(v) for v in (5, 0, 1, 1000, -1, 2 ** 40)],
    "float": [sp(v) for v in (1.5, float("inf"), 1.0, float("nan"), 0.0, -2.5)],
    "decimal": [["dec", s] for s in ("1", "1.5", "NaN", "Infinity", "1E+3")],
}
CONTAINER_GROUPS = ["list", "tuple", "dict", "str", "bytes"]
SCALAR_GROUPS = ["str", "bytes", "int", "float", "decimal"]
MODEL_GROUPS = ["list", "dict", "str", "bytes", "int", "float", "decimal"]

# ---- unions (written order; the reversed order is generated as well) -----------------------------------------------
CONTAINER_UNIONS = [
    [T(INT, INT), L(INT)], [T(INT, INT), T(INT, INT, INT)], [T(STR, INT), L(INT)], [L(INT), L(STR)], [D(INT), D(STR)],
    [D(INT), L(INT)], [C("Cat"), C("Dog")], [C("Cat"), D(STR)], [D(INT), C("Cat")], [C("XY"), C("Dog")], [C("TD"), D(INT)],
    [C("NT"), L(INT)], [["SET", INT], L(STR)], [["TV", INT], D(INT)], [L(L(INT)), L(INT)], [T(INT, INT), L(INT), L(STR)],
]
MIXED_UNIONS = [[INT, L(INT)], [L(INT), STR], [D(INT), STR]]
SCALAR_UNIONS = [
    [INT, STR], [INT, FLT], [FLT, STR], [INT, FLT, STR], [S("datetime"), STR], [S("date"), STR], [S("time"), STR],
    [S("timedelta"), STR], [S("decimal"), STR], [INT, S("decimal")], [S("fraction"), STR], [S("uuid"), STR], [C("IE"), INT],
    [C("IE"), STR], [["LIT", [1, "a", "5"]], STR], [INT, NON], [FLT, STR, NON], [S("bool"), STR], [BYT, INT], [INT, BYT, STR],
]
MODEL_SCALARS = ("int", "float", "str", "bytes", "none", "datetime", "timedelta", "date", "time", "decimal", "fraction")


def in_model(t):
    if t[0] == "S":
        return t[1] in MODEL_SCALARS
    if t[0] in ("L", "D"):
        return in_model(t[1])
    return False


def both_orders(ms):
    return [ms] if ms == ms[::-1] else [ms, ms[::-1]]


def catalogue(model=False):
    """-> [(union members, group names)]"""
    out = []
    for ms in CONTAINER_UNIONS:
        for o in both_orders(ms):
            out.append((o, CONTAINER_GROUPS))
    for ms in MIXED_UNIONS:
        for o in both_orders(ms):
            out.append((o, ["list", "dict", "str", "int"]))
    for ms in SCALAR_UNIONS:
        for o in both_orders(ms):
            out.append((o, SCALAR_GROUPS))
    if model:
        # the model knows no tuples / classes; a container under a scalar member (int(*[1])) and a scalar routine on a
        # non-atom are outside it: container unions get container (and text) inputs, scalar unions get atoms
        res = []
        for ms, gs in out:
            if not all(in_model(m) for m in ms):
                continue
            kinds = {m[0] for m in ms}
            if kinds <= {"S"}:
                res.append((ms, [g for g in gs if g in MODEL_GROUPS and g not in ("list", "dict")]))
            elif "S" not in kinds:
                res.append((ms, [g for g in gs if g in ("list", "dict", "str", "bytes")]))
        return res
    return out


def wrap_type(w, t):
    return {"root": t, "L": L(t), "D": D(t), "F": ["F", t]}[w]


def wrap_val(w, t, v, direction):
    if w == "root":
        return v
    if w == "L":
        return ["l", [v]]
    if w == "D":
        return ["d", [[["s", "k"], v]]]
    if w == "F":
        return ["fobj", t, v] if direction == "m" else ["d", [[["s", "v"], v]]]
    raise ValueError(w)


def jsonable(v):
    if v[0] in ("i", "s", "n", "b"):
        return True
    if v[0] == "f":
        return float.fromhex(v[1]) == float.fromhex(v[1]) and abs(float.fromhex(v[1])) != float("inf")
    if v[0] == "l":
        return all(jsonable(x) for x in v[1])
    if v[0] == "d":
        return all(k[0] == "s" and jsonable(x) for k, x in v[1])
    return False


def plain(v):
    if v[0] == "l":
        return [plain(x) for x in v[1]]
    if v[0] == "d":
        return {plain(a): plain(b) for a, b in v[1]}
    return {"i": lambda: v[1], "s": lambda: v[1], "n": lambda: None, "f": lambda: float.fromhex(v[1]),
            "b": lambda: bool(v[1])}[v[0]]()


def orders(k, level):
    """index sequences over a group of k inputs.  level 0: one forwards round trip; 1: forwards, backwards and one from
    the middle; 2: a round trip from EVERY member (each input is the first of its class once -- state written by the first
    call only -- and follows every other input) and the backwards one; 3: also every backwards rotation and every pair"""
    if k < 2:
        return []
    rot = lambda i: [(i + j) % k for j in range(k)] + [i]  # noqa: E731
    back = lambda i: [(i - j) % k for j in range(k)] + [i]  # noqa: E731
    if level == 0:
        return [rot(0)]
    if level == 1:
        return [rot(0), back(k - 1)] + ([rot(k // 2)] if k > 2 else [])
    out = [rot(i) for i in range(k)] + [back(k - 1)]
    if level >= 3:
        out += [back(i) for i in range(k - 1)]
        if k <= 6:
            out += [[i, j] for i in range(k) for j in range(k) if i != j]
    return out


def acceptor_histories(thorough, model=False):
    """-> [(label, ops)]"""
    out = []
    for ui, (ms, gnames) in enumerate(catalogue(model)):
        u = U(*ms)
        lab = json.dumps(ms)
        positions = ["root", "L", "D"] + ([] if model else ["F"]) if thorough else ["root", ["L", "D"][ui % 2] if model else ["L", "D", "F"][ui % 3]]
        for w in positions:
            t = wrap_type(w, u)
            opks = ["unmarshal", "marshal"]
            if w == "root" or thorough:
                opks += ["decode"] + (["encode", "cdecode", "cencode"] if thorough else [])
            for opk in opks:
                direction = "m" if opk in ("marshal", "encode", "cencode") else "u"
                groups = []
                for g in gnames:
                    vals = GROUPS[g]
                    if opk in ("decode", "cdecode"):
                        if g in ("str", "bytes"):
                            continue            # after json.loads the class is the one of the decoded value
                        vals = [["y", json.dumps(plain(wrap_val(w, u, v, "u")), separators=(",", ":"))]
                                for v in vals if jsonable(v)]
                    else:
                        vals = [wrap_val(w, u, v, direction) for v in vals]
                    groups.append((g, vals))
                for g, vals in groups:
                    plain_op = opk in ("unmarshal", "marshal")
                    if thorough and model:
                        level = 2 if plain_op and w == "root" else 1
                    elif thorough:
                        level = 3 if plain_op and w == "root" else 2 if plain_op else 1
                    elif model:
                        level = 1 if w == "root" and plain_op else 0
                    else:
                        level = 2 if w == "root" and plain_op else 1 if w == "root" else 0
                    seqs = orders(len(vals), level)
                    for si, order in enumerate(seqs):
                        out.append(("%s/%s/%s/%s/%d" % (lab, w, opk, g, si),
                                    [{"op": opk, "t": t, "x": {"new": vals[i]}} for i in order]))
                # state that is not keyed by the class: the classes in turn
                rr = []
                for r in range(3):
                    for g, vals in groups:
                        if r < len(vals):
                            rr.append({"op": opk, "t": t, "x": {"new": vals[r]}})
                if len(rr) >= 2 and (thorough or w == "root"):
                    out.append(("%s/%s/%s/round-robin/0" % (lab, w, opk), rr))
                    out.append(("%s/%s/%s/round-robin/1" % (lab, w, opk), rr[::-1]))
    return out


def all_types():
    return [U(*ms) for ms, _ in catalogue()]
