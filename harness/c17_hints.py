"""WP-N: type hints and signatures inside the inspection model (Model/InspectHints.v, dyn/C17/C17Hints.v).

`obligations(run)`                       -- called from props/c17.py (lib.run_tie(run, c17_hints)):
  1. *classes*: synthesised modules of every structured flavour and derivation kind (c13_gen's 22 derivation kinds,
     C17's own catalogue module, hand-written modules: KW_ONLY, ClassVar / Final / InitVar members, late-defined
     names (observed before AND after the name is bound), a `from __future__ import annotations` module that
     inherits from another module, __slots__ classes, classes with only an annotated __init__, TypedDicts of mixed
     totality).  Every class is DESCRIBED from the live object (MRO, own __annotations__, @dataclass, __init__ ...)
     as a `cdesc` term; every text that occurs in an annotation is evaluated in the namespaces it may be evaluated in
     -> the name table `world`.
  2. *tables*: C17's writer on a private copy of C17's catalogue + a row for every synthesised class -> GenHintTables.v.
  3. *theorems*: coq/dyn/C17/C17Hints.v compiled against these tables; the refutation witnesses replayed on /repo.
  4. *stream* `hints`: get_type_hints (both flags), cached_type_hints, signature, typed_dict_signature,
     safe_get_params, simple_attributes, isstructuredtype, graph._level on /repo -- and typing.get_type_hints,
     inspect.signature, dataclasses.fields, __required_keys__ of the interpreter -- vs the model (vm_compute);
     stream `hints-ann`: get_type_hints of annotations that are no class (tuples, generics, unions).
  5. *oracle* (`search`): typing.get_type_hints / dataclasses.fields / inspect.signature / _fields / __required_keys__
     read directly, no model: the member list of every class inside the documented guard.

`hints_obligations(run, groups, tag)`    -- the bridge obligation for the core harness (C05 ...): for every class the
  core harness synthesised, the `cfields` it ENCODED equal the erasure of the model's get_type_hints on the description
  read from the live class.
"""
from __future__ import annotations

import copy
import dataclasses
import inspect
import os
import random
import re
import sys
import types
import typing

import impl
import lib
from lib import coq_bool, coq_list, coq_string

_HERE = os.path.dirname(os.path.abspath(__file__))
if os.path.join(_HERE, "props") not in sys.path:
    sys.path.insert(0, os.path.join(_HERE, "props"))

COQ_TARGETS = ["theories/Model/Inspect.vo", "theories/Model/InspectHints.vo", "theories/Proofs/InspectHintsLemmas.vo"]

THEOREMS = [
    "C17H_field_list", "C17H_field_list_exact", "C17H_field_list_level", "C17H_members_agree", "C17H_kw_only_dropped",
    "C17H_classvar_kept", "C17H_typing_path", "C17H_fallback", "C17H_td_signature_required",
    "C17H_td_signature_defaults", "C17H_tuple_members",
    "C17H_erase_fields",
    "C17H_refuted_classvar_member", "C17H_refuted_undecorated_annotation", "C17H_refuted_initvar_member",
    "C17H_refuted_namedtuple_extra_annotation", "C17H_refuted_plain_attribute_annotation",
    "C17H_refuted_pinned_fallback_module", "C17H_refuted_fallback_drops_members", "C17H_refuted_pinned_td_totality",
    "C17H_refuted_pinned_td_dict_attribute", "C17H_refuted_kw_only_in_signature", "C17H_refuted_full",
]

SKIP_MODULES = ("builtins", "typing", "typing_extensions", "abc", "collections.abc", "collections", "enum")


class Unencodable(Exception):
    pass


# ----------------------------------------------------------------------------------
# the catalogue (a private copy of C17's, extended with the synthesised classes)
# ----------------------------------------------------------------------------------

def fork_cat():
    import c17
    base = c17.get_cat()
    cat = copy.copy(base)
    cat.classes = dict(base.classes)
    cat.cid = dict(base.cid)
    cat.cls_by_obj = dict(base.cls_by_obj)
    cat.has_instance = dict(getattr(base, "has_instance", {}))
    cat.problems = list(base.problems)
    cat._memo = dict(base._memo)
    cat._keep = list(base._keep)
    return cat


def add_class(cat, key, c):
    if id(c) in cat.cls_by_obj:
        return cat.cls_by_obj[id(c)]
    key = re.sub(r"\W", "_", key)
    while key in cat.classes:
        key += "_"
    cat.classes[key] = c
    cat.cid[key] = max(cat.cid.values()) + 1
    cat.cls_by_obj[id(c)] = key
    return key


def register_module(cat, mod, tag):
    """every class defined in the module gets a row"""
    out = []
    for n, v in list(vars(mod).items()):
        if isinstance(v, type) and getattr(v, "__module__", None) == mod.__name__ and type(v) is not types.GenericAlias:
            add_class(cat, f"h_{tag}_{v.__qualname__}", v)
            out.append(v)
            for n2, v2 in list(vars(v).items()):           # classes nested one level
                if isinstance(v2, type) and getattr(v2, "__module__", None) == mod.__name__:
                    add_class(cat, f"h_{tag}_{v2.__qualname__}", v2)
    return out


# ----------------------------------------------------------------------------------
# emission
# ----------------------------------------------------------------------------------

def cstr(s):
    if not isinstance(s, str) or not all(32 <= ord(c) < 127 for c in s):
        raise Unencodable(f"text {s!r}")
    return coq_string(s)


def emit_ity(cat, o):
    try:
        return cat.emit(cat.describe(o))
    except (ValueError, KeyError, AssertionError, TypeError) as e:
        raise Unencodable(f"{o!r}: {e}") from None


def emit_hint(cat, o):
    if o is dataclasses.KW_ONLY:
        return "HKwOnly"
    if o is dataclasses.InitVar:
        return "(HInitVar None)"
    if type(o) is dataclasses.InitVar:
        return f"(HInitVar (Some {emit_ity(cat, o.type)}))"
    return f"(HTy {emit_ity(cat, o)})"


def emit_ann(cat, a):
    if a is inspect.Parameter.empty:
        return "AEmpty"
    if isinstance(a, str):
        return f"(AStr {cstr(a)})"
    return f"(AObj {emit_hint(cat, a)})"


KINDS = {inspect.Parameter.POSITIONAL_ONLY: "KPosOnly", inspect.Parameter.POSITIONAL_OR_KEYWORD: "KPosOrKw",
         inspect.Parameter.VAR_POSITIONAL: "KVarPos", inspect.Parameter.KEYWORD_ONLY: "KKwOnly",
         inspect.Parameter.VAR_KEYWORD: "KVarKw"}


def emit_param(cat, p):
    return "{| p_name := %s; p_kind := %s; p_ann := %s; p_default := %s |}" % (
        cstr(p.name), KINDS[p.kind], emit_ann(cat, p.annotation), coq_bool(p.default is not p.empty))


def emit_params(cat, ps):
    return coq_list([emit_param(cat, p) for p in ps], "param")


def emit_hints(cat, h):
    return coq_list([f"({cstr(k)}, {emit_hint(cat, v)})" for k, v in h.items()], "(string * hint)")


def emit_names(l):
    return coq_list([cstr(x) for x in l], "string")


# ----------------------------------------------------------------------------------
# description of a live class
# ----------------------------------------------------------------------------------

def own_annotations(k):
    a = vars(k).get("__annotations__", None)
    return dict(a) if isinstance(a, dict) else {}


def user_class(k):
    """defined in a synthesised module (impl.new_module marks them)"""
    f = getattr(sys.modules.get(getattr(k, "__module__", None) or ""), "__file__", "") or ""
    return f.startswith("<verif:")


def relevant_mro(cls):
    return [k for k in cls.__mro__ if user_class(k)]


def member_kind(v):
    import functools
    if inspect.isclass(v):
        return "MClass"
    if inspect.isroutine(v):
        return "MRoutine"
    if issubclass(v.__class__, (property, functools.cached_property)):
        return "MProperty"
    if {*dir(v)} & {"__get__", "__set__", "__delete__", "__set_name__"}:
        return "MDescriptor"
    return "MPlain"


def td_parts(cls):
    """totality and declared keys of every TypedDict base (flattened, in order) and of the class body"""
    parts, seen = [], []
    for b in getattr(cls, "__orig_bases__", ()):
        if typing.is_typeddict(b):
            for p in td_parts(b):
                parts.append(p)
                seen += p[1]
    own = [k for k in own_annotations(cls) if k not in seen]
    parts.append((bool(getattr(cls, "__total__", True)), own))
    return parts


def texts_of(o, acc):
    """every text typing may evaluate inside the annotation object o"""
    if isinstance(o, str):
        acc.append((o, None))
        return
    if isinstance(o, typing.ForwardRef):
        acc.append((o.__forward_arg__, o.__forward_module__))
        return
    for a in getattr(o, "__args__", None) or ():
        if isinstance(a, (list, tuple)):
            for x in a:
                texts_of(x, acc)
        else:
            texts_of(a, acc)


def dc_head(s):
    m = re.match(r"^(?:\s*(\w+)\s*\.)?\s*(\w+)", s, flags=re.ASCII)
    if not m:
        return ""
    return (m.group(1) + "." if m.group(1) else "") + m.group(2)


def flavour_of(cls):
    if typing.is_typeddict(cls):
        return "FlTypedDict"
    if dataclasses.is_dataclass(cls):
        return "FlDataclass"
    if issubclass(cls, tuple) and hasattr(cls, "_fields"):
        return "FlNamedTuple"
    return "FlPlain"


class ClassDesc:
    """the `cdesc` term of a live class + the texts its annotations may ask the name table about"""

    def __init__(self, cat, cls):
        self.cls = cls
        self.flavour = flavour_of(cls)
        mro = relevant_mro(cls)
        self.texts = []          # (module, text)
        klasses = []
        names = []
        mods = [k.__module__ for k in mro] or [cls.__module__]
        if cls.__module__ not in mods:
            mods.append(cls.__module__)

        def want(text, refmod):
            for m in ([refmod] if refmod else mods):
                self.texts.append((m, text))
                h = dc_head(text)
                if h and h != text:
                    self.texts.append((m, h))

        for k in mro:
            anns = own_annotations(k)
            names += list(anns)
            is_dc = "__dataclass_params__" in vars(k)
            values = []
            for n in anns:
                if is_dc:
                    f = k.__dataclass_fields__.get(n)
                    if f is not None and (f.default is not dataclasses.MISSING or f.default_factory is not dataclasses.MISSING):
                        values.append(n)
                elif n in getattr(k, "_field_defaults", {}) and "_fields" in vars(k):
                    values.append(n)
                elif n in vars(k) and "_fields" not in vars(k) and not isinstance(vars(k)[n], types.MemberDescriptorType):
                    values.append(n)
            nt = "NtNone"
            if "_fields" in vars(k) and issubclass(k, tuple):
                if typing.NamedTuple in getattr(k, "__orig_bases__", ()):
                    nt = "NtTyping"
                else:
                    nt = f"(NtColl {emit_names(k._fields)} {len(k._field_defaults)}%nat)"
            init = "None"
            fn = None
            if not is_dc and nt == "NtNone":
                for meth in ("__new__", "__init__"):
                    f = vars(k).get(meth)
                    if isinstance(f, staticmethod):
                        f = f.__func__
                    if isinstance(f, types.FunctionType):
                        fn = f
                        break
            if fn is not None:
                ps = list(inspect.signature(fn).parameters.values())[1:]
                init = f"(Some {emit_params(cat, ps)})"
                names += [p.name for p in ps]
                for p in ps:
                    acc = []
                    texts_of(p.annotation, acc) if p.annotation is not p.empty else None
                    for t, rm in acc:
                        want(t, rm)
                        if isinstance(p.annotation, str):
                            want(strip_lead(k.__module__, t), rm)
                            want(strip_lead(cls.__module__, t), rm)
            for n, a in anns.items():
                acc = []
                texts_of(a, acc)
                for t, rm in acc:
                    want(t, rm)
                    if isinstance(a, str):              # the signature fallback: refs.forwardref(text, module=obj.__module__)
                        want(strip_lead(cls.__module__, t), rm)
                        want(strip_lead(k.__module__, t), rm)
            klasses.append("{| k_module := %s; k_ann := %s; k_dc := %s; k_kwonly := %s; k_values := %s; k_init := %s; k_nt := %s |}" % (
                cstr(k.__module__),
                coq_list([f"({cstr(n)}, {emit_ann(cat, a)})" for n, a in anns.items()], "(string * ann)"),
                coq_bool(is_dc), coq_bool(is_dc and getattr(vars(k)["__dataclass_params__"], "kw_only", False)),
                emit_names(values), init, nt))
        fields = getattr(cls, "_fields", ())
        fields = list(fields) if isinstance(fields, tuple) and all(isinstance(x, str) for x in fields) else []
        names += fields
        attrs = [n for n in dict.fromkeys(names) if hasattr(cls, n)]
        slots = getattr(cls, "__slots__", None)
        if slots is None:
            cslots = "None"
        else:
            cslots = f"(Some {emit_names(list(slots))})"
        members = [(n, member_kind(v)) for n, v in inspect.getmembers(cls) if not n.startswith("__")]
        try:
            inspect.signature(cls)
            sigless = False
        except ValueError:
            sigless = True
        except TypeError:
            sigless = True
        parts = td_parts(cls) if self.flavour == "FlTypedDict" else []
        self.parts = parts
        key = cat.cls_by_obj.get(id(cls))
        if key is None:
            raise Unencodable(f"class {cls!r} has no row")
        req = getattr(cls, "__required_keys__", frozenset()) if self.flavour == "FlTypedDict" else frozenset()
        required = [k for k in dict.fromkeys(k for _, ks in parts for k in ks) if k in req]
        required += sorted(k for k in req if k not in required)
        self.term = ("{| c_cls := %d%%N; c_flavour := %s; c_mro := %s; c_fields := %s; c_total := %s; c_parts := %s; "
                     "c_required := %s; c_attrs := %s; c_slots := %s; c_members := %s; c_sigless := %s |}") % (
            cat.cid[key], self.flavour, coq_list(klasses, "klass"), emit_names(fields),
            coq_bool(getattr(cls, "__total__", True)),
            coq_list([f"({coq_bool(t)}, {emit_names(ks)})" for t, ks in parts], "(bool * list string)"),
            emit_names(required),
            emit_names(attrs), cslots,
            coq_list([f"({cstr(n)}, {k})" for n, k in members], "(string * mkind)"), coq_bool(sigless))


def strip_lead(module, text):
    """refs.forwardref's text function, read from its documentation (drop `<module>.` where it leads a dotted name)"""
    return re.sub(rf"(?<![\w.]){re.escape(module)}\.", "", text)


def ev_live(modname, text):
    """what the text evaluates to as an annotation in the namespace of the module (None: it raises)"""
    mod = sys.modules.get(modname)
    if mod is None:
        return None
    try:
        ref = typing.ForwardRef(text, is_argument=False, is_class=True)
        return (ref._evaluate(vars(mod), vars(mod), recursive_guard=frozenset()),)
    except Exception:  # noqa: BLE001 - NameError, TypeError, SyntaxError, AttributeError: no entry
        return None


def world_term(cat, texts):
    rows, bad = [], 0
    for m, t in dict.fromkeys(texts):
        r = ev_live(m, t)
        if r is None:
            continue
        try:
            rows.append(f"(({cstr(m)}, {cstr(t)}), {emit_hint(cat, r[0])})")
        except Unencodable:
            bad += 1
    return coq_list(rows, "((string * string) * hint)"), len(rows), bad


# ----------------------------------------------------------------------------------
# observation of the implementation and of the interpreter
# ----------------------------------------------------------------------------------

def observe_class(cat, cls, flavour):
    """-> [(hfn, coq hobs, printable)]"""
    from typelib import graph
    from typelib.py import inspection as I
    out = []

    def hints(fn, f):
        try:
            h = f()
        except (NameError, TypeError) as e:
            out.append((fn, "ONone", f"raise {type(e).__name__}"))
            return
        out.append((fn, f"(OHints {emit_hints(cat, h)})", repr(h)))

    def sig(fn, f):
        try:
            s = f()
        except (TypeError, ValueError) as e:
            out.append((fn, "ONone", f"raise {type(e).__name__}"))
            return
        ps = list(s.parameters.values()) if isinstance(s, inspect.Signature) else list(s.values())
        out.append((fn, f"(OSig {emit_params(cat, ps)})", repr(ps)))

    impl.clear_caches()
    hints("HF_hints_ex", lambda: I.get_type_hints(cls, True))
    impl.clear_caches()
    hints("HF_hints_nex", lambda: I.get_type_hints(cls, False))
    impl.clear_caches()
    hints("HF_cached", lambda: I.cached_type_hints(cls))
    hints("HF_typing", lambda: typing.get_type_hints(cls))
    impl.clear_caches()
    sig("HF_signature", lambda: I.signature(cls))
    if flavour == "FlTypedDict":
        impl.clear_caches()
        sig("HF_td_signature", lambda: I.typed_dict_signature(cls))
        req = getattr(cls, "__required_keys__", frozenset())
        obs = [k for _, ks in td_parts(cls) for k in ks if k in req]
        out.append(("HF_required", f"(ONames {emit_names(obs)})", repr(obs)))
    else:
        sig("HF_inspect_signature", lambda: inspect.signature(cls))
    impl.clear_caches()
    sig("HF_params", lambda: I.safe_get_params(cls))
    impl.clear_caches()
    sa = list(I.simple_attributes(cls))
    out.append(("HF_simple", f"(ONames {emit_names(sa)})", repr(sa)))
    impl.clear_caches()
    st = bool(I.isstructuredtype(cls))
    out.append(("HF_structured", f"(OFlag {coq_bool(st)})", repr(st)))
    if dataclasses.is_dataclass(cls):
        fs = [f.name for f in dataclasses.fields(cls)]
        out.append(("HF_dc_fields", f"(ONames {emit_names(fs)})", repr(fs)))
    impl.clear_caches()
    hints("HF_level", lambda: {n: t for n, t in graph._level(cls) if n is not None})
    impl.clear_caches()
    return out


# ----------------------------------------------------------------------------------
# the synthesised modules
# ----------------------------------------------------------------------------------

MOD_A = "verif_hints_a"
MOD_B = "verif_hints_b"

SRC_A = '''
import collections, dataclasses, functools, typing
from dataclasses import KW_ONLY, InitVar
from typing import ClassVar
T = typing.TypeVar("T")
Thing = int
@dataclasses.dataclass
class DPlain:
    a: int
    b: str = ""
@dataclasses.dataclass
class DKw:
    a: int
    _: KW_ONLY
    b: str = ""
    c: float = 0.0
@dataclasses.dataclass
class DKwAll:
    _: KW_ONLY
    a: int = 1
@dataclasses.dataclass
class DKwSub(DKw):
    d: bytes = b""
    _: KW_ONLY
    e: int = 0
@dataclasses.dataclass
class DCv:
    a: int
    x: typing.ClassVar[int] = 3
@dataclasses.dataclass
class DCvBare:
    a: int
    x: typing.ClassVar[int] = 3
    y: ClassVar = 4
@dataclasses.dataclass
class DFinal:
    a: typing.Final[int] = 1
    b: "typing.Final[str]" = ""
@dataclasses.dataclass
class DInit:
    a: int
    i: InitVar[int] = 0
    j: InitVar = None
@dataclasses.dataclass
class DStr:
    a: "Thing"
    b: "list[Thing]" = None
    c: "typing.ClassVar[Thing]" = 0
    d: typing.List["Thing"] = None
    e: typing.Optional["DStr"] = None
    f: list["DPlain"] = None
    g: "ClassVar[int]" = 0
    h: typing.ForwardRef("Thing", module="verif_hints_a") = 0
@dataclasses.dataclass
class DBase:
    a: "Thing"
    k: typing.ClassVar["Thing"] = 1
class PBase:
    p: "Thing"
    def __init__(self, p: "Thing"):
        self.p = p
class UndecSub(DBase):
    z: int = 0
class UndecPlainSub(DBase):
    pass
@dataclasses.dataclass
class DOverride(DBase):
    z: int = 0
    a: str = ""
class AnnBase:
    w: int
@dataclasses.dataclass
class DFromPlain(AnnBase):
    a: int = 0
@dataclasses.dataclass
class DLate:
    a: int
    n: "Later"
    x: ClassVar[int] = 3
    _: KW_ONLY
    b: str = ""
@dataclasses.dataclass
class DLateNested:
    a: typing.List["Later"]
    b: int = 0
class NT0(typing.NamedTuple):
    a: int
    b: str = ""
class NTSub(NT0):
    __slots__ = ()
class NTAdd(NT0):
    c: int = 5
class NTLate(typing.NamedTuple):
    a: int
    b: "Later"
class NTStr(typing.NamedTuple):
    a: "Thing"
    b: "typing.List[Thing]" = ()
NTC = collections.namedtuple("NTC", ["a", "b"], defaults=[1])
class NTCSub(NTC):
    __slots__ = ()
class NTCAnn(NTC):
    __slots__ = ()
    a: str
    b: int
class NTCPart(NTC):
    __slots__ = ()
    a: str
class TD0(typing.TypedDict):
    a: int
    keys: str
class TDMixed(TD0, total=False):
    b: "int"
class TDMixed2(TDMixed):
    c: float
class TDPartial(typing.TypedDict, total=False):
    a: int
class TDTotalSub(TDPartial):
    b: str
class TDa(typing.TypedDict):
    a: int
class TDb(typing.TypedDict, total=False):
    b: "Thing"
class TDMulti(TDa, TDb):
    pass
class TDEmpty(typing.TypedDict):
    pass
class TDLate(typing.TypedDict):
    a: int
    b: "Later"
class TDItems(typing.TypedDict, total=False):
    items: int
    get: str
class SlotsA:
    __slots__ = ("a", "_p", "b")
    a: int
    def __init__(self, a: int):
        self.a = a
class SlotsSub(SlotsA):
    __slots__ = ()
class SlotsSubDict(SlotsA):
    pass
class SlotsAdd(SlotsA):
    __slots__ = ("c",)
    c: str
    def __init__(self, a: int, c: str):
        super().__init__(a)
        self.c = c
class SlotsStr:
    __slots__ = "ab"
class SlotsEmpty:
    __slots__ = ()
class OnlyInit:
    def __init__(self, a: int, b: "Thing" = 0, *args, k: str = "", **kw):
        pass
class OnlyInitFields:
    def __init__(self, a: int, b: "Thing" = 0, *, k: typing.Optional[str] = None):
        pass
class OnlyInitPos:
    def __init__(self, a: int, /, b: str):
        pass
class OnlyInitPrefixed:
    def __init__(self, a: "verif_hints_a.Thing", b: "typing.List[verif_hints_a.DPlain]" = None):
        pass
class OnlyInitLate:
    def __init__(self, a: "Later", b: int = 0):
        pass
class OnlyInitKw:
    def __init__(self, a: int, m: KW_ONLY = None):
        pass
class NoInit:
    pass
class InitNoAnn:
    def __init__(self, a, b=1):
        pass
class OnlyNew:
    def __new__(cls, a: int):
        return super().__new__(cls)
class PAttr:
    a: int
    c: ClassVar[str] = "x"
    d = 5
    e: float = 1.5
    _hidden = 1
    def __init__(self, a: int):
        self.a = a
    def meth(self):
        return 1
    @property
    def pr(self):
        return 1
    @functools.cached_property
    def cp(self):
        return 2
    @staticmethod
    def sm():
        return 3
    class Inner:
        pass
class PInherit(PAttr):
    pass
class PAdd(PAttr):
    b: str
    def __init__(self, a: int, b: str):
        super().__init__(a)
        self.b = b
class PLate:
    a: "Later"
    def __init__(self, a: "Later", b: int = 0):
        self.a = a
class PAnnNoInit:
    a: int
    b: "Thing"
class Gen(typing.Generic[T]):
    x: T
    def __init__(self, x: T):
        self.x = x
@dataclasses.dataclass
class DGen(typing.Generic[T]):
    v: T
    w: typing.List[T] = None
@dataclasses.dataclass(frozen=True, slots=True)
class DSlots:
    a: int
    b: str = ""
@dataclasses.dataclass
class DEmpty:
    pass
@dataclasses.dataclass
class DNone:
    a: None
    b: typing.Optional[int] = None
'''

SRC_B = '''
from __future__ import annotations
import dataclasses, typing
from dataclasses import KW_ONLY, InitVar
import verif_hints_a as A
Thing = str
@dataclasses.dataclass
class FSub(A.DBase):
    b: Thing = ""
    cv: typing.ClassVar[int] = 0
    _: KW_ONLY
    k: Thing = ""
    iv: InitVar[int] = 0
@dataclasses.dataclass
class FPlainDC:
    a: Thing
    b: list[Thing] = None
    c: typing.Optional[FPlainDC] = None
    d: A.DKw = None
class FPSub(A.PBase):
    q: Thing
    def __init__(self, p: Thing, q: Thing):
        super().__init__(p)
        self.q = q
class FOnlyInit:
    def __init__(self, a: Thing, b: typing.List[Thing] = None):
        pass
class FOnlyInitSub(A.OnlyInitFields):
    pass
class FNT(typing.NamedTuple):
    a: Thing
    b: list[Thing] = []
class FTD(typing.TypedDict):
    a: Thing
    b: A.DKw
class FTDSub(A.TD0, total=False):
    c: Thing
@dataclasses.dataclass
class FLate:
    a: Thing
    n: Later
@dataclasses.dataclass
class FLateInherit(A.DBase):
    n: Later = None
class FLatePlain(A.PBase):
    q: Later
    def __init__(self, p: Thing, q: Later):
        super().__init__(p)
class FKwStr:
    a: Thing
    _: KW_ONLY
'''

LATE = {MOD_A: "float", MOD_B: "bytes"}


def hand_modules():
    impl.drop_module(MOD_A)
    impl.drop_module(MOD_B)
    a = impl.new_module(MOD_A, SRC_A)
    b = impl.new_module(MOD_B, SRC_B)
    return a, b


def bind_late(mods):
    for m in mods:
        setattr(m, "Later", eval(LATE[m.__name__]))


def c13_modules(rng, tier):
    """one module per derivation kind (c13_gen's catalogue) + random environments defined by derivations; the same
    sources once more under `from __future__ import annotations` (every annotation a string): all kinds in the
    thorough tier, a third of them (rotating with the seed) in the quick tier"""
    import c13_gen as G
    out = []
    pick = rng.randrange(3)
    for i, (flavour, kind) in enumerate(G.ALL_KINDS):
        env = G.catalogue_env(flavour, kind)
        mod, _, src = G.materialise(env, [])
        out.append((f"c13:{flavour}:{kind}", mod, src))
        if tier == "thorough" or i % 3 == pick:
            fsrc = "from __future__ import annotations\n" + src
            out.append((f"c13-future:{flavour}:{kind}", impl.new_module(mod.__name__ + "_fut", fsrc), fsrc))
    for i in range(24 if tier == "thorough" else 4):
        env = G.gen_env(rng, ncls=rng.choice([3, 4, 5]), cyclic=rng.random() < 0.5, depth=2, derive=G.kind_cycle(i))
        mod, _, src = G.materialise(env, [])
        out.append((f"c13:random:{i}", mod, src))
        if tier == "thorough" or i == 0:
            fsrc = "from __future__ import annotations\n" + src
            out.append((f"c13-future:random:{i}", impl.new_module(mod.__name__ + "_fut", fsrc), fsrc))
    return out


def is_enum(c):
    import enum
    return issubclass(c, enum.Enum)


def supported_class(c):
    """user classes only along the MRO: a subclass of a builtin / stdlib class takes its signature from the C
    implementation (__text_signature__), which no description of the class body says anything about"""
    if is_enum(c):
        return False
    for k in c.__mro__:
        if k is object or k is typing.Generic or user_class(k):
            continue
        if k is tuple and hasattr(c, "_fields"):
            continue
        if k is dict and typing.is_typeddict(c):
            continue
        return False
    return True


# ----------------------------------------------------------------------------------
# annotations that are no class
# ----------------------------------------------------------------------------------

def ann_cases(cat):
    from c17_cat import MODNAME  # noqa: F401
    C = lambda n: ("cls", n)
    E = ("ellipsis",)
    ds = [("csub", "tuple", [C("int"), C("str")]), ("tsub", "Tuple", [C("int"), C("str")]), ("csub", "tuple", [C("int"), E]),
          ("tsub", "Tuple", [C("UData"), E]), ("csub", "tuple", []), ("tsub", "Tuple", []), ("csub", "tuple", [C("int")]),
          ("csub", "tuple", [("csub", "list", [C("int")]), ("union", "O", [C("str"), C("NoneType")]), C("UData")]),
          ("csub", "tuple", [("typevar", "T", None, []), ("typevar", "TB", C("int"), [])]),
          ("csub", "list", [C("int")]), ("tsub", "List", [C("int")]), ("csub", "dict", [C("str"), C("int")]),
          ("tsub", "Mapping", [C("str"), C("int")]), ("union", "U", [C("int"), C("str")]), ("union", "P", [C("int"), C("NoneType")]),
          ("literal", [["i", 1]]), ("final", C("int")), ("classvar", C("int")),
          ("usub", "UGeneric", [C("int")]), ("usub", "UBox", [C("str")]), ("callT", [C("int")], C("str")),
          ("callB", [C("int")], C("str")), ("csub", "frozenset", [C("int")]), ("csub", "deque", [C("int")]),
          ("union", "O", [C("UData"), C("NoneType")]), ("union", "P", [C("UData"), C("NoneType")])]
    return ds


def observe_ann(cat, d):
    from typelib.py import inspection as I
    obj = cat.build(d)
    rows = []
    impl.clear_caches()
    asks = bool(I.isstructuredtype(obj))
    for ex in dict.fromkeys((asks, False, True if typing.get_origin(obj) is tuple or type(obj).__module__ == "typing" else False)):
        impl.clear_caches()
        try:
            h = I.get_type_hints(obj, ex)
        except Exception as e:  # noqa: BLE001
            rows.append({"desc": d, "exhaustive": ex, "error": f"{type(e).__name__}: {e}"[:120], "term": None})
            continue
        try:
            rows.append({"desc": d, "exhaustive": ex, "observed": repr(h),
                         "term": f"({cat.emit(d)}, {coq_bool(ex)}, {emit_hints(cat, h)})"})
        except Unencodable as e:
            rows.append({"desc": d, "exhaustive": ex, "error": str(e)[:120], "term": None})
    return rows


# ----------------------------------------------------------------------------------
# building the cases
# ----------------------------------------------------------------------------------

HDR = ("From Coq Require Import List NArith ZArith String.\nImport ListNotations.\n"
       "Require Import TL.Model.Inspect TL.Model.InspectHints TLRun.GenHintTables.\n"
       "Local Open Scope string_scope.\n")


class Shard:
    def __init__(self, tag, sources=(), late=False):
        self.tag = tag
        self.cases = []        # dict(cls, name, term, obs=[(fn, coq, shown)], flavour)
        self.texts = []
        self.skipped = {}
        self.sources = [list(x) for x in sources]      # [(module name, source)]: what a replay rebuilds
        self.late = late
        self.failures = []     # oracle failures (independent of the model)
        self.judged = 0

    def bump(self, k):
        self.skipped[k] = self.skipped.get(k, 0) + 1

    def close(self, cat):
        """the name table is read NOW: the namespaces change between the phases"""
        self.world = world_term(cat, self.texts)
        return self

    def add(self, cat, cls, label=None):
        try:
            d = ClassDesc(cat, cls)
            obs = observe_class(cat, cls, d.flavour)
        except Unencodable as e:
            self.bump("unencodable: " + str(e)[:60])
            return
        self.texts += d.texts
        self.cases.append({"cls": cls, "name": label or f"{cls.__module__}.{cls.__qualname__}", "term": d.term,
                           "obs": obs, "flavour": d.flavour, "tag": self.tag})
        self.oracle(cls)

    def oracle(self, cls):
        fs, judged = oracle_class(cls)
        self.judged += judged
        for f in fs:
            f["input"] = {"sources": self.sources, "late": self.late, "class": [cls.__module__, cls.__qualname__]}
            f["kind"] = "hints"
            self.failures.append(f)


def build_shards(run, cat):
    keep = []
    shards = []
    a, b = hand_modules()
    keep += [a, b]
    hand = register_module(cat, a, "a") + register_module(cat, b, "b")
    mods13 = c13_modules(run.rng, run.tier)
    reg13 = []
    for tag, mod, src in mods13:
        keep.append(mod)
        reg13.append((tag, register_module(cat, mod, re.sub(r"\W", "_", tag)), [(mod.__name__, src)]))
    hand_src = [(MOD_A, SRC_A), (MOD_B, SRC_B)]
    # phase 1: the late names are not bound yet
    s = Shard("hand:late-unbound", hand_src, False)
    for c in hand:
        s.add(cat, c)
    shards.append(s.close(cat))
    # phase 2: bound now (every cache of the library cleared per observation)
    bind_late([a, b])
    s = Shard("hand:late-bound", hand_src, True)
    for c in hand:
        s.add(cat, c)
    shards.append(s.close(cat))
    # C17's own catalogue module
    import c17
    import c17_cat
    s = Shard("c17-catalogue", [(c17_cat.MODNAME, c17_cat.USER_SRC)], False)
    base = c17.get_cat()
    for n, v in vars(base.mod).items():
        if isinstance(v, type) and v.__module__ == base.mod.__name__ and n == v.__name__:
            if supported_class(v):
                s.add(cat, v)
            else:
                s.bump("subclass of a builtin / stdlib class")
    shards.append(s.close(cat))
    for tag, classes, srcs in reg13:
        s = Shard(tag, srcs, False)
        for c in classes:
            if supported_class(c):
                s.add(cat, c)
            else:
                s.bump("subclass of a builtin / stdlib class")
        shards.append(s.close(cat))
    run._hints_keep = keep
    run._hints_shards = shards
    return shards


def shard_file(cat, sh):
    wt, nrows, bad = sh.world
    body = ";\n  ".join("(%s,\n   %s)" % (c["term"], coq_list([f"({fn}, {o})" for fn, o, _ in c["obs"]], "(hfn * hobs)"))
                        for c in sh.cases)
    text = (HDR + f"Definition W : world :=\n  {wt}.\nDefinition cases : list hcase :=\n  [ {body} ].\n"
            "Eval vm_compute in hmismatches tbl W cases.\n"
            "Eval vm_compute in map (fun c => (if field_guard tbl W (fst c) then 1 else 0) + "
            "(match spec_fields W (fst c) with Some _ => 2 | None => 0 end))%nat cases.\n")
    return text, nrows, bad


# ----------------------------------------------------------------------------------
# the refutation witnesses, replayed on /repo
# ----------------------------------------------------------------------------------

def replay_witnesses():
    """-> [(theorem, reproduced?, what was seen)]"""
    import warnings
    import typelib
    from typelib.py import inspection as I
    out = []
    a, b = hand_modules()
    bind_late([a, b])

    def case(thm, fn):
        impl.clear_caches()
        try:
            with warnings.catch_warnings():
                warnings.simplefilter("ignore")
                ok, seen = fn()
        except Exception as e:  # noqa: BLE001
            ok, seen = False, f"raised {type(e).__name__}: {e}"
        out.append((thm, bool(ok), str(seen)[:200]))

    def names(c):
        return list(I.get_type_hints(c, True))

    def classvar():
        h = names(a.DCv)
        try:
            typelib.unmarshal(a.DCv, {"a": "1", "x": "5"})
            r = "no error"
        except TypeError as e:
            r = f"TypeError: {e}"
        extra = typelib.unmarshal(a.DCv, {"a": "1", "zzz": 5})
        return h == ["a", "x"] and r.startswith("TypeError") and extra == a.DCv(1), (h, r)
    case("C17H_refuted_classvar_member", classvar)
    case("C17H_refuted_undecorated_annotation",
         lambda: (names(a.UndecSub) == ["a", "k", "z"] and [f.name for f in dataclasses.fields(a.UndecSub)] == ["a"],
                  names(a.UndecSub)))
    case("C17H_refuted_initvar_member",
         lambda: (names(a.DInit) == ["a", "i", "j"] and [f.name for f in dataclasses.fields(a.DInit)] == ["a"], names(a.DInit)))
    case("C17H_refuted_namedtuple_extra_annotation",
         lambda: (names(a.NTAdd) == ["a", "b", "c"] and a.NTAdd._fields == ("a", "b"), names(a.NTAdd)))
    case("C17H_refuted_plain_attribute_annotation",
         lambda: (names(a.PAttr) == ["a", "c", "e"] and list(inspect.signature(a.PAttr).parameters) == ["a"], names(a.PAttr)))

    def declaring_module():
        impl.drop_module(MOD_A); impl.drop_module(MOD_B)
        a2, b2 = hand_modules()                       # Later unbound again
        h = I.get_type_hints(b2.FLateInherit, True)
        r = h["a"]
        ev = typing.ForwardRef._evaluate(r, None, None, recursive_guard=frozenset()) if isinstance(r, typing.ForwardRef) else r
        r2 = I.get_type_hints(b2.FOnlyInitSub, True)["b"]
        return (isinstance(r, typing.ForwardRef) and r.__forward_module__ == MOD_A and ev is int and b2.Thing is str
                and isinstance(r2, typing.ForwardRef) and r2.__forward_module__ == MOD_A), (r, ev, r2)
    case("C17H_fallback_declaring_module (repaired: an inherited string annotation is evaluated where it is declared)",
         declaring_module)

    def drops():
        impl.drop_module(MOD_A); impl.drop_module(MOD_B)
        a2, _ = hand_modules()
        return names(a2.DLate) == ["a", "n", "b"] and names(a2.TDLate) == [], (names(a2.DLate), names(a2.TDLate))
    case("C17H_refuted_fallback_drops_members", drops)

    def totality():
        s = I.typed_dict_signature(a.TDMixed)
        d = {k: p.default is not p.empty for k, p in s.parameters.items()}
        return d == {"a": False, "keys": False, "b": True} and "a" in a.TDMixed.__required_keys__, \
            (d, sorted(a.TDMixed.__required_keys__))
    case("C17H_td_signature_repaired (an inherited required key of a total=False subclass has no default)", totality)

    def dict_attr():
        s = I.typed_dict_signature(a.TD0)
        p = s.parameters["keys"]
        return p.default is p.empty and "keys" in a.TD0.__required_keys__, p
    case("C17H_td_signature_repaired (a key named like a dict method has no default)", dict_attr)
    case("C17H_refuted_kw_only_in_signature",
         lambda: (I.get_type_hints(a.OnlyInitKw, True).get("m") is dataclasses.KW_ONLY, I.get_type_hints(a.OnlyInitKw, True)))
    impl.drop_module(MOD_A); impl.drop_module(MOD_B)
    return out


# ----------------------------------------------------------------------------------
# entry point of the tie
# ----------------------------------------------------------------------------------

def obligations(run: lib.Run, streams: bool = True):
    import c17
    cat = fork_cat()
    shards = build_shards(run, cat)
    text, problems = c17.reflect_tables(cat)
    text = text.replace("(* generated from", "(* WP-N tables: C17's writer + a row per synthesised class *)\n(* generated from", 1)
    run.oblige("hints:reflect inspection tables (C17 writer) + rows of the synthesised classes", not problems,
               "; ".join(problems[:4]))
    ok = run.compile_dyn("GenHintTables.v", text=text)
    if ok:
        ok = run.compile_dyn("C17Hints.v", src=os.path.join(lib.DYN, "C17", "C17Hints.v"), theorems=THEOREMS, timeout=600)
    else:
        for t in THEOREMS:
            run.oblige(f"theorem:{t}", False, "generated tables do not compile")
    for thm, okr, seen in replay_witnesses():
        run.oblige(f"hints:witness {thm} replayed on /repo", okr, seen)
    if not (streams and os.path.exists(os.path.join(run.build, "GenHintTables.vo"))):
        return ok
    files, index = {}, {}
    nworld = 0
    for i, sh in enumerate(shards):
        if not sh.cases:
            continue
        name = f"cases_hints_{i}.v"
        files[name], n, bad = shard_file(cat, sh)
        nworld += n
        index[name] = sh
    res = run.coq_eval_many(files, timeout=900)
    mism, nobs = [], 0
    inside = {}
    outside_names = {}
    dist = {"classes": 0, "name_table_rows": nworld, "skipped": {}}
    for name, sh in index.items():
        out = res.get(name)
        nobs += sum(len(c["obs"]) for c in sh.cases)
        dist["classes"] += len(sh.cases)
        dist[sh.tag.split(":")[0]] = dist.get(sh.tag.split(":")[0], 0) + len(sh.cases)
        for k, v in sh.skipped.items():
            dist["skipped"][k] = dist["skipped"].get(k, 0) + v
        if out is None:
            run.oblige(f"evaluate:{name}", False, "model evaluation did not compile")
            mism.append({"shard": sh.tag, "error": "model evaluation did not compile"})
            continue
        for a_, b_ in re.findall(r"\((\d+),\s*(\d+)\)", out[0]):
            c = sh.cases[int(a_)]
            fn, o, shown = c["obs"][int(b_)]
            mism.append({"shard": sh.tag, "class": c["name"], "fn": fn, "observed": shown})
        flags = lib.parse_nat_list(out[1]) if len(out) > 1 else []
        for c, fl in zip(sh.cases, flags):
            k = c["flavour"]
            e = inside.setdefault(k, {"classes": 0, "inside_field_guard": 0, "spec_defined": 0})
            e["classes"] += 1
            e["inside_field_guard"] += fl & 1
            e["spec_defined"] += (fl >> 1) & 1
            if not fl & 1 and sh.tag.startswith(("hand", "c17-cat")):
                outside_names.setdefault(sh.tag, []).append(c["name"].split(".", 1)[1])
    dist["by_flavour"] = inside
    dist["outside_field_guard"] = outside_names
    run.record_corr("hints", nobs, mism, nobs, dist)
    # annotations that are no class
    rows = [r for d in ann_cases(cat) for r in observe_ann(cat, d)]
    live = [r for r in rows if r["term"]]
    out = run.coq_eval("cases_hints_ann.v", HDR + "Definition cases : list acase :=\n  " +
                       coq_list([r["term"] for r in live], "acase").replace("; (", ";\n   (") +
                       ".\nEval vm_compute in amismatches tbl cases.\n")
    abad = [r for r in rows if not r["term"]]
    if out is None:
        run.oblige("evaluate:cases_hints_ann.v", False, "model evaluation did not compile")
        abad = rows
    else:
        abad += [live[j] for j in lib.parse_nat_list(out[-1])]
    run.record_corr("hints-ann", len(rows), [{k: v for k, v in r.items() if k != "term"} for r in abad], len(rows),
                    {"annotations": len(ann_cases(cat))})
    run.extra_cov["hints"] = {"classes": dist["classes"], "observations": nobs, "by_flavour": inside}
    run.assumptions += [
        "hints (WP-N): a class is described from the live object by harness/c17_hints.py (MRO, own __annotations__, "
        "@dataclass, __init__ parameters, _fields, __total__, __slots__, getmembers); the name table is what "
        "typing.ForwardRef(text)._evaluate gives in the module's namespace (class-body namespaces are not modelled)",
        "hints (WP-N): typing.get_type_hints, the @dataclass transform, named-tuple __new__ and inspect.signature of a "
        "class are modelled by hand in Model/InspectHints.v for LINEAR MROs and compared with the interpreter's answers "
        "on every synthesised class (stream `hints`: HF_typing, HF_inspect_signature, HF_dc_fields, HF_required)",
    ]
    for m in getattr(run, "_hints_keep", []):
        impl.drop_module(m.__name__)
    return ok


# ----------------------------------------------------------------------------------
# the oracle: the statement read on the implementation, no model
# ----------------------------------------------------------------------------------

def _resolve(v):
    """refs.evaluate as the interpreter does it: a reference with a module is evaluated in that module"""
    if isinstance(v, typing.ForwardRef) and v.__forward_module__:
        r = ev_live(v.__forward_module__, v.__forward_arg__)
        return r[0] if r is not None else v
    return v


def _norm_tv(v):
    if type(v) is typing.TypeVar:
        return v.__bound__ or (typing.Union[v.__constraints__] if v.__constraints__ else typing.Any)
    return v


def expected_members(cls):
    """the member list the class DEFINES, from dataclasses / typing / inspect alone; None: outside the documented
    guard (ClassVar / InitVar members, annotations that are no fields, unresolvable names, partial annotations)"""
    try:
        th = typing.get_type_hints(cls)
    except Exception:  # noqa: BLE001 - the fallback region is not judged here (its own checks below)
        return None
    th = {k: v for k, v in th.items() if v is not dataclasses.KW_ONLY}
    if typing.is_typeddict(cls):
        return dict(th)
    if dataclasses.is_dataclass(cls):
        names = [f.name for f in dataclasses.fields(cls)]
        if list(th) != names or not names:
            return None
        return {n: th[n] for n in names}
    if issubclass(cls, tuple) and hasattr(cls, "_fields"):
        if not th:
            try:
                ps = inspect.signature(cls).parameters
            except (TypeError, ValueError):
                return None
            if list(ps) != list(cls._fields) or any(p.annotation is not p.empty for p in ps.values()):
                return None
            return {f: typing.Any for f in cls._fields}
        return dict(th) if list(th) == list(cls._fields) else None
    try:
        ps = list(inspect.signature(cls).parameters.values())
    except (TypeError, ValueError):
        return None
    if any(p.kind not in (p.POSITIONAL_OR_KEYWORD, p.KEYWORD_ONLY) for p in ps):
        return None
    definer = next((k for k in cls.__mro__ if k is not object and ("__init__" in vars(k) or "__new__" in vars(k))), cls)
    exp = {}
    for p in ps:
        a = p.annotation
        if a is p.empty:
            exp[p.name] = typing.Any
        elif isinstance(a, str):
            if strip_lead(definer.__module__, a) != a:
                return None
            r = ev_live(definer.__module__, a)
            if r is None:
                return None
            exp[p.name] = r[0]
        elif isinstance(a, typing.ForwardRef) or a is None:
            return None
        else:
            exp[p.name] = a
    if th:
        return dict(th) if (list(th) == list(exp) and all(th[k] == exp[k] for k in th)) else None
    return exp


def oracle_class(cls):
    """-> ([failure dicts], number of checks made)"""
    from typelib import graph
    from typelib.py import inspection as I
    fails, n = [], 0

    def fail(site, symptom, seen, expected):
        fails.append({"site": site, "symptom": symptom, "observed": repr(seen)[:300], "expected": repr(expected)[:300],
                      "class": f"{cls.__module__}.{cls.__qualname__}", "regions": ["hints"]})

    def eq(x, y):
        if type(x) is dataclasses.InitVar and type(y) is dataclasses.InitVar:     # InitVar has no __eq__
            return x.type == y.type
        return x == y

    def same(a, b):
        return list(a) == list(b) and all(eq(a[k], b[k]) for k in a)

    exp = expected_members(cls)
    impl.clear_caches()
    try:
        got = I.get_type_hints(cls, True)
        cached = I.cached_type_hints(cls)
        nex = I.get_type_hints(cls, False)
        level = {k: v for k, v in graph._level(cls) if k is not None}
    except Exception as e:  # noqa: BLE001
        fail("get_type_hints", "raises", f"{type(e).__name__}: {e}", "a dict")
        return fails, 1
    n += 1
    if any(v is dataclasses.KW_ONLY for v in nex.values()):
        fail("get_type_hints", "KW_ONLY is kept as a hint", nex, "no KW_ONLY")
    if not same(got, cached):
        fail("cached_type_hints", "differs from get_type_hints", cached, got)
    if exp is not None:
        n += 3
        res = {k: _resolve(v) for k, v in got.items()}
        if not same(res, exp):
            fail("get_type_hints", "is not the member list the class defines", got, exp)
        if I.isstructuredtype(cls):
            # (a reference to a type variable, as the signature path builds under string annotations, is not reduced by
            #  _level: compared after the reduction on both sides -- ambiguity resolved in favour of the code)
            lv = {k: _norm_tv(_resolve(v)) for k, v in level.items()}
            ex2 = {k: _norm_tv(v) for k, v in exp.items()}
            if not same(lv, ex2):
                fail("graph._level", "named members are not the member list the class defines", level, ex2)
        try:
            th = typing.get_type_hints(cls)
        except Exception:  # noqa: BLE001
            th = None
        if th and not same(nex, exp):
            fail("get_type_hints", "exhaustive=False differs from the member list of an annotated class", nex, exp)
    # the interpreter's own answer whenever it has one
    try:
        th = {k: v for k, v in typing.get_type_hints(cls).items() if v is not dataclasses.KW_ONLY}
    except Exception:  # noqa: BLE001
        th = None
    n += 1
    if th:
        if not same(nex, th) or not same(got, th):
            fail("get_type_hints", "differs from typing.get_type_hints", got, th)
    elif th is None and nex:
        fail("get_type_hints", "exhaustive=False answers although typing.get_type_hints raises", nex, {})
    # signature vs inspect.signature
    impl.clear_caches()
    if not typing.is_typeddict(cls) and not (issubclass(cls, tuple) and not hasattr(cls, "_fields")):
        n += 1
        try:
            want = inspect.signature(cls)
        except (TypeError, ValueError):
            want = None
        try:
            have = I.signature(cls)
        except (TypeError, ValueError):
            have = None
        if (want is None) != (have is None) or (want is not None and str(want) != str(have)):
            fail("signature", "differs from inspect.signature", have, want)
    if typing.is_typeddict(cls) and th is not None:
        n += 1
        s = I.typed_dict_signature(cls)
        if list(s.parameters) != list(th) or any(p.kind is not p.KEYWORD_ONLY for p in s.parameters.values()) \
                or any(s.parameters[k].annotation != th[k] for k in th):
            fail("typed_dict_signature", "parameters are not the keys of the TypedDict", s, th)
        req = set(getattr(cls, "__required_keys__", frozenset()))
        try:                              # Required / NotRequired hidden in string annotations
            import typing_extensions as te
            for k, h in te.get_type_hints(cls, include_extras=True).items():
                if te.get_origin(h) is te.Required:
                    req.add(k)
                elif te.get_origin(h) is te.NotRequired:
                    req.discard(k)
        except Exception:  # noqa: BLE001
            pass
        bad = [k for k, p in s.parameters.items() if (p.default is p.empty) != (k in req)]
        if bad:
            fail("typed_dict_signature", "a key has a default although it is required (or the reverse)", bad, sorted(req))
    # a reference built by the signature fallback names the module that declares the annotation
    if th is None and dataclasses.is_dataclass(cls):
        n += 1
        for k, v in got.items():
            if isinstance(v, typing.ForwardRef) and v.__forward_module__:
                decl = next((b for b in cls.__mro__ if k in vars(b).get("__annotations__", {})), None)
                if decl is not None and decl.__module__ != v.__forward_module__:
                    fail("get_type_hints", "the fallback evaluates an inherited annotation in another module than the one "
                         "that declares it", v, decl.__module__)
    sl = getattr(cls, "__slots__", None)
    if sl:
        n += 1
        want = [x for x in sl if not x.startswith("_")]
        if list(I.simple_attributes(cls)) != want:
            fail("simple_attributes", "is not the public __slots__", I.simple_attributes(cls), want)
    return fails, n


def collect_oracle(run):
    """oracle failures gathered while the classes were alive (obligations ran), or gathered now"""
    shards = getattr(run, "_hints_shards", None)
    if shards is None:
        cat = fork_cat()
        shards = build_shards(run, cat)
        for m in getattr(run, "_hints_keep", []):
            impl.drop_module(m.__name__)
    fails = [f for sh in shards for f in sh.failures]
    judged = sum(sh.judged for sh in shards)
    return fails, judged, sum(len(sh.cases) for sh in shards)


def search(run):
    fails, judged, nclasses = collect_oracle(run)
    best = {}
    for f in fails:
        k = (f["site"], f["symptom"])
        size = len(f["input"]["sources"][0][1]) if f["input"]["sources"] else 0
        if k not in best or size < best[k][0]:
            best[k] = (size, f)
    out = [v[1] for v in best.values()]
    run.search_stats["hints-oracle"] = {
        "evaluations": judged, "distinct_nontrivial": nclasses, "classes": nclasses, "failures": len(fails),
        "distinct_failure_classes": len(out),
        "rule": "every synthesised class: get_type_hints (both flags), cached_type_hints and graph._level against the "
                "member list from dataclasses.fields / _fields / TypedDict keys / inspect.signature + typing.get_type_hints "
                "(inside the documented guard), against typing.get_type_hints wherever it answers; signature against "
                "inspect.signature; typed_dict_signature against the keys and __required_keys__; simple_attributes "
                "against __slots__",
    }
    return out


def replay(payload):
    inp = payload["input"]
    for name, _ in inp["sources"]:
        impl.drop_module(name)
    mods = []
    from c17_cat import MODNAME
    for name, src in inp["sources"]:
        if name == MODNAME and name in sys.modules:
            mods.append(sys.modules[name])
        else:
            mods.append(impl.new_module(name, src))
    if inp.get("late"):
        bind_late([m for m in mods if m.__name__ in LATE])
    modname, qual = inp["class"]
    obj = sys.modules[modname]
    for part in qual.split("."):
        obj = getattr(obj, part)
    fs, _ = oracle_class(obj)
    if payload.get("site"):
        fs = [f for f in fs if f["site"] == payload["site"]]
    if payload.get("symptom"):
        fs = [f for f in fs if f["symptom"] == payload["symptom"]]
    for name, _ in inp["sources"]:
        if name != MODNAME:
            impl.drop_module(name)
    return {"fails": bool(fs), "failures": fs}


# ----------------------------------------------------------------------------------
# the bridge obligation for the core harness: one class, two descriptions
# ----------------------------------------------------------------------------------

BHDR = ("From Coq Require Import List NArith ZArith String.\nImport ListNotations.\n"
        "Require Import TL.Model.Core.\nRequire Import TL.Model.Inspect TL.Model.InspectHints TLRun.%s.\n"
        "Local Open Scope string_scope.\n")


def naming_term(cat, group):
    """where the objects of the core harness's numbering live in C17's tables (-> Coq `enaming`)"""
    import universe as U
    reg, mod, env = group.reg, group.mod, group.env
    leaf = []
    for key, i in reg.leaves.items():
        try:
            leaf.append(f"({emit_ity(cat, reg.leaf_py[i])}, {i}%nat)")
        except Unencodable:
            pass
    classes = []
    names = []
    for n, d in env["defs"].items():
        if d[0] == "class":
            c = getattr(mod, U.cname(n))
            classes.append(f"({cat.cid[cat.cls_by_obj[id(c)]]}%N, {n}%nat)")
            names.append(f"({cstr(U.cname(n))}, {n}%nat)")
        elif d[0] == "alias":
            names.append(f"({cstr(U.cname(n))}, {n}%nat)")
    cseq, tseq, cmap, tmap, ttup = [], [], [], [], []
    ns = dict(vars(mod))
    for kind, sps in U.SEQ_KINDS.items():
        for tpl, _ in sps:
            d = cat.describe(eval(tpl.format("int"), ns))
            if d[0] == "csub" and d[1] != "tuple":
                cseq.append(f"({cat.cid[d[1]]}%N, {kind})")
            elif d[0] == "tsub" and d[1] != "Tuple":
                tseq.append(f"({cat.tid[d[1]]}%N, {kind})")
            elif d[0] == "tsub":
                ttup.append(f"{cat.tid[d[1]]}%N")
    for kind, sps in U.MAP_KINDS.items():
        for tpl, _ in sps:
            d = cat.describe(eval(tpl.format("str", "int"), ns))
            if d[0] == "csub":
                cmap.append(f"({cat.cid[d[1]]}%N, {kind})")
            else:
                tmap.append(f"({cat.tid[d[1]]}%N, {kind})")
    wrap = []
    for nm in vars(mod):
        m = re.match(r"^(NT|AL|AS)(\d+)$", nm)
        if m:
            wrap.append(f"({cstr(nm)}, {int(m.group(2))}%nat)")
    for n, d in env["defs"].items():
        if d[0] == "alias" and not isinstance(d[1], str):
            wrap.append(f"({cstr(U.cname(n))}, {1000 + n}%nat)")
    return ("{| en_leaf := %s; en_class := %s; en_cseq := %s; en_tseq := %s; en_cmap := %s; en_tmap := %s; "
            "en_ttuple := %s; en_wrap := %s; en_name := %s |}") % (
        coq_list(leaf, "(ity * nat)"), coq_list(classes, "(cls * nat)"), coq_list(dict.fromkeys(cseq), "(cls * seqkind)"),
        coq_list(dict.fromkeys(tseq), "(N * seqkind)"), coq_list(dict.fromkeys(cmap), "(cls * dictkind)"),
        coq_list(dict.fromkeys(tmap), "(N * dictkind)"), coq_list(dict.fromkeys(ttup), "N"),
        coq_list(wrap, "(string * nat)"), coq_list(names, "(string * nat)"))


def hints_obligations(run: lib.Run, groups, tag: str):
    """For every class the core harness synthesised (coremodel.Group): the `cfields` it ENCODED (universe.Registry:
    field name, emit_ty of the field's description) equal the erasure of the model's get_type_hints
    (`fields_by_var`: cached_type_hints + TypeVar reduction) on the description read from the LIVE class -- and
    the model's hints are the live ones (cached_type_hints, graph._level observed per class)."""
    import c17
    import universe as U
    from typelib import graph
    from typelib.py import inspection as I
    cat = fork_cat()
    tname = "GenHintTablesB_" + re.sub(r"\W", "_", tag)
    per_group = []
    skipped = {}

    def bump(k):
        skipped[k] = skipped.get(k, 0) + 1

    for gi, g in enumerate(groups):
        if sys.modules.get(g.env["module"]) is not g.mod:
            sys.modules[g.env["module"]] = g.mod          # a closed group: its module object is still what the classes name
        register_module(cat, g.mod, f"{tag}{gi}")
    for gi, g in enumerate(groups):
        cases, texts = [], []
        for n, d in g.env["defs"].items():
            if d[0] != "class":
                continue
            cls = getattr(g.mod, U.cname(n))
            try:
                cd = ClassDesc(cat, cls)
                enc = coq_list([f"({cstr(f)}, {g.reg.emit_ty(t)})" for f, t, _ in d[3]], "(string * ty)")
                impl.clear_caches()
                cached = I.cached_type_hints(cls)
                impl.clear_caches()
                level = {k: v for k, v in graph._level(cls) if k is not None}
                obs = [("HF_cached", f"(OHints {emit_hints(cat, cached)})", repr(cached)),
                       ("HF_level", f"(OHints {emit_hints(cat, level)})", repr(level))]
            except Unencodable as e:
                bump("unencodable: " + str(e)[:50])
                continue
            except Exception as e:  # noqa: BLE001 - a class the implementation raises on is the core check's business
                bump(f"raises: {type(e).__name__}")
                continue
            texts += cd.texts
            cases.append({"n": n, "name": f"{g.env['module']}.{U.cname(n)}", "term": cd.term, "enc": enc, "obs": obs,
                          "fields": [(f, t) for f, t, _ in d[3]], "flavour": cd.flavour})
        if cases:
            try:
                nm = naming_term(cat, g)
            except (Unencodable, ValueError, KeyError) as e:
                bump("naming: " + str(e)[:50])
                continue
            per_group.append((g, cases, world_term(cat, texts), nm))
    text, problems = c17.reflect_tables(cat)
    run.oblige(f"hints-bridge:{tag} reflect tables + rows of the classes of the core harness", not problems,
               "; ".join(problems[:3]))
    if not run.compile_dyn(tname + ".v", text=text):
        run.oblige(f"hints-bridge:{tag} cfields = erase(get_type_hints) on every synthesised class", False,
                   "generated tables do not compile")
        return
    files, index = {}, {}
    per = 6
    for s in range(0, len(per_group), per):
        part = per_group[s:s + per]
        name = f"cases_hints_bridge_{tag}_{s // per}.v"
        body = []
        for j, (g, cases, (wt, _, _), nm) in enumerate(part):
            cs = ";\n   ".join(f"({c['term']},\n    {c['enc']})" for c in cases)
            hs = ";\n   ".join("(%s, %s)" % (c["term"], coq_list([f"({fn}, {o})" for fn, o, _ in c["obs"]], "(hfn * hobs)"))
                               for c in cases)
            body.append(f"Definition W{j} : world := {wt}.\nDefinition N{j} : enaming := {nm}.\n"
                        f"Definition B{j} : list bcase :=\n  [{cs}].\nDefinition H{j} : list hcase :=\n  [{hs}].\n"
                        f"Eval vm_compute in bridge_report N{j} tbl W{j} B{j}.\n"
                        f"Eval vm_compute in hmismatches tbl W{j} H{j}.\n"
                        f"Eval vm_compute in map (fun c => if field_guard tbl W{j} (fst c) then 1 else 0) B{j}.\n")
        files[name] = (BHDR % tname) + "".join(body)
        index[name] = part
    res = run.coq_eval_many(files, timeout=900)
    nclasses = ok0 = outside = inside_guard = 0
    differ, hbad = [], []
    for name, part in index.items():
        out = res.get(name)
        if out is None:
            run.oblige(f"evaluate:{name}", False, "model evaluation did not compile")
            differ.append({"file": name, "error": "model evaluation did not compile"})
            continue
        for j, (g, cases, _, _) in enumerate(part):
            codes = lib.parse_nat_list(out[3 * j])
            guards = lib.parse_nat_list(out[3 * j + 2])
            nclasses += len(cases)
            inside_guard += sum(guards)
            for c, code in zip(cases, codes):
                if code == 0:
                    ok0 += 1
                elif code == 2:
                    outside += 1
                else:
                    differ.append({"class": c["name"], "flavour": c["flavour"], "encoded_fields": [f for f, _ in c["fields"]],
                                   "live_hints": c["obs"][0][2][:300]})
            for a_, b_ in re.findall(r"\((\d+),\s*(\d+)\)", out[3 * j + 1]):
                c = cases[int(a_)]
                hbad.append({"class": c["name"], "fn": c["obs"][int(b_)][0], "observed": c["obs"][int(b_)][2][:300]})
    for d in differ[:12]:
        run.log(f"HINTS-BRIDGE {tag}: {json_short(d)}")
    run.oblige(f"hints-bridge:{tag} cfields encoded by the core harness = erase(model get_type_hints(live class)) "
               f"({ok0} of {nclasses} classes; {outside} with a hint outside the core grammar)", not differ,
               json_short(differ[0]) if differ else "")
    run.oblige(f"hints-bridge:{tag} coverage: some class is compared", ok0 > 0 or nclasses == 0, f"{ok0} of {nclasses}")
    run.record_corr(f"hints-bridge-{tag}", 2 * nclasses, hbad, 2 * nclasses,
                    {"classes": nclasses, "cfields_equal": ok0, "outside_core_grammar": outside,
                     "inside_field_guard": inside_guard, "skipped": skipped})
    run.extra_cov.setdefault("hints_bridge", {})[tag] = {"classes": nclasses, "cfields_equal": ok0, "outside": outside,
                                                        "inside_field_guard": inside_guard, "differ": len(differ)}


def json_short(d):
    import json
    return json.dumps(d, default=str)[:400]
