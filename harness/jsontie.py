"""Per-run tie of the JSON wire model (coq/theories/Model/Json.v) to the JSON backends typelib uses.

`obligations(run)` is meant to be called from `props/c02.py` (prove or correspond).  On every run it

* re-checks the theorem files `PROPS` (Print Assumptions captured on this run);
* `json-writer`: `Json.json_write` (vm_compute) against the bytes the configured encoder `compat.json.dumps`
  (orjson when importable) AND the standard `json.dumps` (default separators, which is what typelib uses when
  orjson is missing) produce for generated wire values -- every escape class, non-ASCII, astral characters,
  64-bit boundaries and beyond, empty containers, keys needing escapes, deep nesting, floats (as the token the
  backend prints), plus wire values typelib's own `marshal` produces for C02's generated (T, v);
  where the backend raises the model must say "outside the encoder's domain";
* `json-roundtrip`: Coq decides on each generated wire value the conclusions of the theorems (reader after writer,
  both styles, strict and lenient reader, utf-8 branch of detect_encoding);
* `json-reader`: `Json.std_loads` / `Json.json_read_strict` / `Json.parse_text` / `Json.utf8_dec` against
  `json.loads(bytes)`, `orjson.loads`, `json.loads(str)`, `bytes.decode('utf-8'[, 'surrogatepass'])` on the
  emitted language, whitespace-padded variants, byte-level mutations of it and a pool of malformed texts: accept /
  reject must agree, and so must the value.

Floats: the model carries a float as its literal text.  On the writer side the text is what the backend printed
for that float; on the `json.loads` side it is observed through the documented `parse_float` / `parse_constant`
hooks (so the comparison is exact and the float conversion itself stays outside);  `orjson.loads` has no such
hook, there values are compared up to the float token.
"""
from __future__ import annotations

import collections
import json
import random

import jsonbackend  # noqa: F401 - VERIF_JSON_BACKEND switch, before typelib is imported
import lib

PROPS = [
    ("Props/C02Json.v", ["C02Json_read_write", "C02Json_read_write_strict", "C02Json_std_loads_write",
                         "C02Json_write_injective", "C02Json_output_wellformed", "C02Json_output_ascii",
                         "C02Json_full_refuted", "C02Json_refuted_surrogate_pair", "C02Json_refuted_codepoint_range",
                         "C02Json_refuted_float_token", "C02Json_refuted_strict_surrogate"]),
]
BRIDGE_PROPS = [
    ("Props/C02Bridge.v", ["C02Bridge_untr_tr", "C02Bridge_tr_injective", "C02Bridge_encoder_law", "C02Bridge_roundtrip",
                           "C02Bridge_valid_json"]),
]
COQ_TARGETS = ["theories/Model/JsonEq.vo", "theories/Props/C02Json.vo", "theories/Props/C02Bridge.vo"]

I64_MIN, U64_MAX = -2**63, 2**64 - 1


# ----------------------------------------------------------------------------------
# wire values -> Coq
# ----------------------------------------------------------------------------------

class FloatTok:
    """a float literal as text (what json.loads hands to parse_float / parse_constant)"""
    __slots__ = ("s",)

    def __init__(self, s):
        self.s = s

    def __repr__(self):
        return f"FloatTok({self.s!r})"


def cps(s) -> str:
    vals = [ord(c) for c in s] if isinstance(s, str) else list(s)
    return "[" + ";".join(str(v) for v in vals) + "]" if vals else "[]"


def enc_jv(x, ftok) -> str:
    """Python wire value -> Coq term of type jv; `ftok(float) -> str` gives the float's literal"""
    t = type(x)
    if x is None:
        return "JNull"
    if t is bool:
        return "(JBool true)" if x else "(JBool false)"
    if t is int:
        return f"(JInt ({x})%Z)"
    if t is float:
        return f"(JFloat {cps(ftok(x))})"
    if t is FloatTok:
        return f"(JFloat {cps(x.s)})"
    if t is str:
        return f"(JStr {cps(x)})"
    if t is list:
        return "(JList [" + ";".join(enc_jv(e, ftok) for e in x) + "])"
    if t is dict:
        return "(JDict [" + ";".join(f"({cps(k)},{enc_jv(v, ftok)})" for k, v in x.items()) + "])"
    raise TypeError(f"not a wire value: {x!r}")


def is_wire(x) -> bool:
    t = type(x)
    if x is None or t in (bool, int, str, float):
        return True
    if t is list:
        return all(is_wire(e) for e in x)
    if t is dict:
        return all(type(k) is str and is_wire(v) for k, v in x.items())
    return False


def has_float(x, pred) -> bool:
    if type(x) is float:
        return pred(x)
    if type(x) is list:
        return any(has_float(e, pred) for e in x)
    if type(x) is dict:
        return any(has_float(e, pred) for e in x.values())
    return False


def walk(x):
    yield x
    if type(x) is list:
        for e in x:
            yield from walk(e)
    elif type(x) is dict:
        for k, e in x.items():
            yield k
            yield from walk(e)


# ----------------------------------------------------------------------------------
# generators
# ----------------------------------------------------------------------------------

ESC_CLASSES = {
    "quote": ['"'], "backslash": ["\\"], "slash": ["/"], "short-escape": ["\b", "\t", "\n", "\f", "\r"],
    "control": [chr(c) for c in range(32) if c not in (8, 9, 10, 12, 13)], "del": ["\x7f"],
    "ascii": list("aZ09 ~!#[]{}:,"), "latin1": ["\x80", "\xa0", "\xe9", "\xff"], "2-byte": ["\u0100", "\u07ff"],
    "3-byte": ["\u0800", "\u2028", "\u2029", "\u4e2d", "\ud7ff", "\ue000", "\ufeff", "\ufffe", "\uffff"],
    "astral": ["\U00010000", "\U0001F600", "\U000fffff", "\U0010ffff"],
}
SURROGATES = ["\ud800", "\udbff", "\udc00", "\udfff"]
INT_EDGES = [0, 1, -1, 9, 10, 255, 2**31 - 1, -2**31, 2**53, 2**63 - 1, 2**63, -2**63, U64_MAX, 10**18, -10**18]
INT_BEYOND = [2**64, -2**63 - 1, 10**30, -10**40, 2**200]
FLOATS = [0.0, -0.0, 1.5, -2.25, 0.1, 1e16, 1e-7, 1e22, 5e-324, 1.7976931348623157e308, 123456789012345678.0,
          1e15, 1e21, 3.141592653589793, -1e-300, 2.5e-5]


def gen_str(rng: random.Random, dist, surrogates=False) -> str:
    n = rng.choice([0, 1, 1, 2, 3, 5, 8, 20])
    out = []
    for _ in range(n):
        k = rng.choice(list(ESC_CLASSES))
        dist["char:" + k] += 1
        out.append(rng.choice(ESC_CLASSES[k]))
    if surrogates and rng.random() < 0.5:
        dist["char:lone-surrogate"] += 1
        out.insert(rng.randrange(len(out) + 1), rng.choice(SURROGATES))
        if rng.random() < 0.4:      # a high surrogate directly followed by a low one
            i = rng.randrange(len(out) + 1)
            out[i:i] = ["\ud83d", "\ude00"]
    return "".join(out)


def gen_atom(rng: random.Random, dist, wild: bool):
    k = rng.choice(["null", "bool", "int", "int", "str", "str", "str", "float", "bigint" if wild else "int"])
    dist["atom:" + k] += 1
    if k == "null":
        return None
    if k == "bool":
        return rng.random() < 0.5
    if k == "int":
        return rng.choice(INT_EDGES) if rng.random() < 0.5 else rng.randint(-10**6, 10**6) * rng.choice([1, 1, 10**9])
    if k == "bigint":
        return rng.choice(INT_BEYOND) if rng.random() < 0.6 else rng.randint(-2**80, 2**80)
    if k == "float":
        return rng.choice(FLOATS) if rng.random() < 0.6 else rng.uniform(-1e6, 1e6) * 10 ** rng.randint(-20, 20)
    return gen_str(rng, dist, surrogates=wild and rng.random() < 0.3)


def gen_wire(rng: random.Random, depth: int, dist, wild=False):
    if depth <= 0 or rng.random() < 0.3:
        return gen_atom(rng, dist, wild)
    if rng.random() < 0.5:
        n = rng.choice([0, 1, 2, 3, 6])
        dist["list:%d" % min(n, 3)] += 1
        return [gen_wire(rng, depth - 1, dist, wild) for _ in range(n)]
    n = rng.choice([0, 1, 2, 4])
    dist["dict:%d" % min(n, 3)] += 1
    d = {}
    for _ in range(n):
        d[gen_str(rng, dist)] = gen_wire(rng, depth - 1, dist, wild)
    return d


def deep(rng: random.Random, n: int):
    x = rng.choice([0, "x", [], {}, None])
    for _ in range(n):
        x = [x] if rng.random() < 0.5 else {rng.choice(["k", "", "\n"]): x}
    return x


def typelib_wires(rng: random.Random, n: int, dist, records=None) -> list:
    """wire values typelib itself produces: marshal(v, t=T) on C02's generated universe"""
    import c02_universe as U
    import impl
    import typelib
    out = []
    tries = 0
    while len(out) < n and tries < 6 * n:
        tries += 1
        case = U.gen_case(rng, 3)
        if case.get("bytes_t"):
            continue
        try:
            impl.clear_caches()
            _, T, v = U.build(case)
            w = typelib.marshal(v, t=T)
        except Exception:
            continue
        if not is_wire(w) or has_float(w, lambda f: f != f or f in (float("inf"), float("-inf"))):
            dist["typelib:not-plain (C06's subject)"] += 1
            continue
        dist["typelib:" + str(case.get("head"))] += 1
        out.append(w)
        if records is not None:
            records.append((case, w))
    return out


def wire_values(run, n_random: int, n_typelib: int, dist, records=None) -> list:
    rng = run.rng
    ws = []
    # one value per escape class, alone and as a key
    for k, chars in ESC_CLASSES.items():
        ws.append("".join(chars))
        ws.append({"".join(chars): [c for c in chars]})
    ws += [INT_EDGES, INT_BEYOND[0], INT_BEYOND[1], INT_BEYOND[2:], FLOATS, [], {}, [[]], [{}], {"": {}}, "", [None, True, False],
           "\ud800", ["a\udfffb"], "\U0001F600", {"\udc00": 1}, deep(rng, 40), deep(rng, 150)]
    for _ in range(n_random):
        ws.append(gen_wire(rng, rng.choice([1, 2, 3, 4]), dist, wild=rng.random() < 0.25))
    ws += typelib_wires(rng, n_typelib, dist, records)
    return ws


# ----------------------------------------------------------------------------------
# backends
# ----------------------------------------------------------------------------------

def backends():
    """[(name, model backend code, dumps -> bytes, float token)]: the configured default first"""
    from typelib.py import compat
    js = compat.json
    try:
        import orjson
    except ImportError:
        orjson = None
    if js is orjson:
        is_orjson = True
    elif js is json:
        is_orjson = False
    else:       # a shim: classify by the form it writes; the reflect obligation reports it
        try:
            r = js.dumps(["a", {"b": 1}])
            is_orjson = (r if isinstance(r, bytes) else str(r).encode()) == b'["a",{"b":1}]'
        except Exception:
            is_orjson = orjson is not None

    def default_dumps(w):
        r = js.dumps(w)
        return r.encode("utf-8") if isinstance(r, str) else bytes(r)

    def std_dumps(w):
        return json.dumps(w).encode("utf-8")

    def tok_of(dumps):
        return lambda f: dumps(f).decode("ascii")

    out = [("compat.json.dumps (%s)" % getattr(js, "__name__", js), 0 if is_orjson else 1, default_dumps, tok_of(default_dumps)),
           ("json.dumps", 1, std_dumps, tok_of(std_dumps))]
    return out, js, is_orjson


HEADER = ("From Coq Require Import List ZArith NArith Bool. Import ListNotations.\n"
          "Require Import TL.Model.Json TL.Model.JsonEq.\nOpen Scope N_scope.\n")


def eval_shards(run, tag: str, ctype: str, okfn: str, terms: list[str], per: int = 250):
    """-> (sorted list of mismatching indexes, ok flag)"""
    shards = {}
    for s in range(0, len(terms), per):
        body = ";\n  ".join(terms[s:s + per])
        shards[f"cases_{tag}_{s // per:03d}.v"] = (HEADER + f"Definition cases : list {ctype} :=\n [ {body} ].\n"
                                                   f"Eval vm_compute in mismatches {okfn} cases.\n")
    res = run.coq_eval_many(shards, timeout=900)
    bad, ok = [], True
    for name in sorted(shards):
        s = int(name[-5:-2]) * per
        r = res[name]
        if r is None or not r:
            run.oblige(f"evaluate:{name}", False, "model evaluation did not compile")
            ok = False
            bad += list(range(s, min(s + per, len(terms))))
            continue
        bad += [s + j for j in lib.parse_nat_list(r[0])]
    return bad, ok


# ----------------------------------------------------------------------------------
# streams
# ----------------------------------------------------------------------------------

def writer_stream(run, ws, dist):
    bes, js, is_orjson = backends()
    terms, descs, emitted = [], [], []
    for w in ws:
        for name, code, dumps, tok in bes:
            try:
                obs = dumps(w)
            except Exception as ex:            # orjson: TypeError (64-bit range, surrogates); RecursionError not generated
                obs = None
                dist[f"writer:{name}:raises {type(ex).__name__}"] += 1
            if has_float(w, lambda f: True) and obs is None:
                # the float tokens cannot be observed when the whole call raises: take them one by one
                try:
                    [tok(f) for f in walk(w) if type(f) is float]
                except Exception:
                    continue
            dist[f"writer:{name}"] += 1
            terms.append(f"({code}, {enc_jv(w, tok)}, {'None' if obs is None else 'Some ' + cps(obs)})")
            descs.append({"backend": name, "wire": repr(w)[:300], "observed": None if obs is None else repr(obs)[:300]})
            if obs is not None:
                emitted.append(obs)
    bad, _ = eval_shards(run, "jsonw", "wcase", "wcase_ok", terms)
    run.record_corr("json-writer", len(terms), [descs[i] for i in bad], sum(1 for d in descs if d["observed"] is not None),
                    {k: v for k, v in dist.items() if k.startswith(("writer:", "char:", "atom:", "list:", "dict:", "typelib:"))}
                    | {"rule": "one case = (backend, wire value): Json.writer_model (json_write with the backend's style, None outside "
                               "the encoder's domain) vs the bytes the backend returns / its raising; non-trivial = the backend wrote"})
    return emitted


def roundtrip_stream(run, ws, dist):
    bes, js, is_orjson = backends()
    terms, descs = [], []
    for w in ws:
        for name, code, dumps, tok in bes:
            try:
                terms.append(enc_jv(w, tok))
            except Exception:
                continue
            descs.append({"float tokens of": name, "wire": repr(w)[:300]})
    bad, _ = eval_shards(run, "jsonrt", "jv", "rtcase_ok", terms)
    run.record_corr("json-roundtrip", len(terms), [descs[i] for i in bad], None,
                    {"rule": "Coq decides on each generated wire value inside jv_ok: json_read (json_write st w) = Some w for both "
                             "styles, the strict reader on the compact form, and std_utf8_branch of both outputs (instances of the theorems)"})


def pad_ws(rng: random.Random, b: bytes) -> bytes:
    """insert JSON whitespace at token boundaries found by a trivial scan (outside strings)"""
    out, in_str, esc = bytearray(), False, False
    for c in b:
        if in_str:
            out.append(c)
            if esc:
                esc = False
            elif c == 0x5C:
                esc = True
            elif c == 0x22:
                in_str = False
            continue
        if c in b'[]{},:"' and rng.random() < 0.5:
            out += rng.choice([b" ", b"\t", b"\n", b"\r", b"  \n"])
        out.append(c)
        if c == 0x22:
            in_str = True
        elif c in b"[]{},:" and rng.random() < 0.5:
            out += rng.choice([b" ", b"\t", b"\n", b"\r"])
    return bytes(rng.choice([b"", b" ", b"\n\t"]) + out + rng.choice([b"", b" ", b"\r\n"]))


MUT_BYTES = [b'"', b"\\", b",", b":", b"[", b"]", b"{", b"}", b"0", b"1", b"-", b"+", b".", b"e", b"E", b" ", b"\n", b"\x00",
             b"\x1f", b"\x7f", b"\x80", b"\xc0", b"\xc3", b"\xe2", b"\xed", b"\xf0", b"\xf4", b"\xff", b"u", b"n", b"t", b"N", b"I",
             b"\\u", b"\\ud83d", b"\\ude00", b"\xef\xbb\xbf", b"\xed\xa0\x80", b"a", b"/", b"\t", b"\x0c", b"\xa0"]


def mutate(rng: random.Random, b: bytes) -> bytes:
    b = bytearray(b)
    for _ in range(rng.choice([1, 1, 1, 2, 3])):
        op = rng.choice(["del", "ins", "rep", "trunc", "dup", "swap"])
        if not b:
            op = "ins"
        i = rng.randrange(len(b) + 1)
        if op == "del" and i < len(b):
            del b[i]
        elif op == "ins":
            b[i:i] = rng.choice(MUT_BYTES)
        elif op == "rep" and i < len(b):
            b[i:i + 1] = rng.choice(MUT_BYTES)
        elif op == "trunc":
            del b[i:]
        elif op == "dup" and i < len(b):
            j = min(len(b), i + rng.randint(1, 6))
            b[i:i] = b[i:j]
        elif op == "swap" and i + 1 < len(b):
            b[i], b[i + 1] = b[i + 1], b[i]
    return bytes(b)


MALFORMED = [
    b"", b" ", b"1\x00", b"\xef\xbb\xbf1", b"\xef\xbb\xbf", b'"\xed\xa0\x80"', b"NaN", b"-Infinity", b"Infinity", b"-Infinit", b"-I", b"Na",
    b"[NaN, -Infinity]", b"01", b"-01", b"00", b"[1,]", b"[,1]", b"[1,,2]", b'"\\ud83d\\ude00"', b'"\\ud83d\\u0041"', b'"\\uD83D\\uDE00"',
    b'"\\ud83d"', b'"\\ude00"', b'"\\ude00\\ud83d"', b'"\\ud83d\\ud83d\\ude00"', b'"\\ud83dx"', b'"\\ud83d\\n"', b'"\\ud83d\\',
    b'"\x7f"', b'"\x1f"', b'"\t"', b'"\n"', b" \t\n\r1 ", b"\x0c1", b"\x0b1", b"\xa01", b"-0", b"-", b"1.", b"1.e5", b"1e", b"1e+", b"1e5", b"1E+5",
    b"1e-05", b"0e0", b"0.0", b"-0.0", b"0.", b"1.5.5", b"1e5e5", b"1.5e", b".5", b"+1", b"0x10", b"1_0", b"1 2", b"- 1", b"--1",
    b'{"a":1,"a":2}', b'{"a":1,"b":2,"a":[3]}', b'{"a":{"x":1,"x":2},"a":0}', b'"\\u00e9"', b'"\\u00E9"', b'"\\x41"', b'"\\a"', b'"\\\'"',
    b'"\\u 123"', b'"\\u+123"', b'"\\u12"', b'"\\u123g"', b'"\\U0041"', b'"\\/"', b'"/"', b'"\\b\\f\\n\\r\\t\\"\\\\"', b'"\xc0\x80"', b'"\xc1\xbf"',
    b'"\xc2"', b'"\xc2\x41"', b'"\xe0\x80\x80"', b'"\xe0\x9f\xbf"', b'"\xe0\xa0\x80"', b'"\xed\x9f\xbf"', b'"\xed\xbf\xbf"', b'"\xee\x80\x80"',
    b'"\xf0\x8f\xbf\xbf"', b'"\xf0\x90\x80\x80"', b'"\xf4\x8f\xbf\xbf"', b'"\xf4\x90\x80\x80"', b'"\xf5\x80\x80\x80"', b'"\xf0\x9f\x98"', b'"\x80"',
    b'"\xbf"', b'"\xfe"', b'"\xff"', b"1 \xff", b"\xff", b"\xc3\xa9", b'{"a" :1 , "b": 2}', b"{,}", b'{"a":1,}', b'{"a"}', b'{"a":}', b'{:1}',
    b"{1:2}", b"{null:1}", b'{"a":1 "b":2}', b'{"a":1,,"b":2}', b"{", b"}", b"[", b"]", b"[[]", b"[]]", b"[}", b"{]", b'["a"', b'"a', b'"\\',
    b'"\\u', b"tru", b"nul", b"fals", b"True", b"None", b"nulll", b"truefalse", b"null null", b"[null,true,false]", b"[1 2]", b'{"a" 1}',
    b"'a'", b"[1]x", b"1,", b"\x00", b"\x00\x00", b"1\x00\x00\x00", b"\x001", b"\xff\xfe1\x00", b"\xfe\xff\x001", b"[\x00]", b'"\x00"',
    b"1\x00\x002", b"\x00\x00\xfe\xff", b"12\x00", b"1\x002", b"[1\x00]", b"[]\x00", b"12345678901234567890123456789012345678901234567890",
    b"-12345678901234567890123", b"1.0000000000000000000000000000000000001", b"1e400", b"-1e400", b"1e-400", b"18446744073709551615",
    b"18446744073709551616", b"-9223372036854775808", b"-9223372036854775809", b'"\xef\xbb\xbf"', b'["\xe2\x80\xa8"]', b'{"\\u0000":"\\u0000"}',
    b"[" * 60 + b"]" * 60, b"[" * 60 + b"]" * 59, b'{"a":' * 30 + b"1" + b"}" * 30, b"[1, 2 , 3 ]", b'[ "a" , { } , [ ] ]', b"\n[\n]\n", b"{ }",
    b'{"k" : "v"}', b'{"k":\n"v"\n}', b"[1\x0c]", b"[1,\x0b2]",
]


def is_utf8_branch(b: bytes) -> bool:
    return json.detect_encoding(b) in ("utf-8", "utf-8-sig")


def ints_floats_ok_for_orjson(v) -> bool:
    """orjson.loads reads integers outside the 64-bit range as floats and rejects float literals that overflow:
    both are its number conversion, not grammar; such texts are outside the strict reader's tie"""
    for x in walk(v):
        if type(x) is int and not (I64_MIN <= x <= U64_MAX):
            return False
        if type(x) is FloatTok:
            try:
                f = float(x.s)
            except ValueError:
                return False
            if f in (float("inf"), float("-inf")) or f != f:
                return False
    return True


def reader_stream(run, emitted: list, dist):
    rng = run.rng
    n_mut = run.budget(700, 5000)
    texts = []
    seen = set()

    def add(b, kind):
        b = bytes(b)
        if b in seen or len(b) > 1500:
            return
        seen.add(b)
        texts.append((b, kind))

    for b in MALFORMED:
        add(b, "pool")
    base = list(dict.fromkeys(emitted))
    for b in rng.sample(base, min(len(base), run.budget(350, 1500))):
        add(b, "emitted")
    for b in rng.sample(base, min(len(base), run.budget(150, 700))):
        add(pad_ws(rng, b), "emitted+whitespace")
    small = [b for b in base if len(b) <= 200] or base
    for _ in range(n_mut):
        add(mutate(rng, rng.choice(small if rng.random() < 0.8 else MALFORMED)), "mutated")
    # the configured decoder compat.json.loads is one of the two observers; the other backend is imported directly
    bes, js, is_orjson = backends()
    if is_orjson or js is not json:
        strict_loads, strict_name, lenient = js.loads, "compat.json.loads (%s)" % getattr(js, "__name__", js), json
    else:
        lenient = js
        try:
            import orjson
            strict_loads, strict_name = orjson.loads, "orjson.loads"
        except ImportError:
            strict_loads, strict_name = None, None

    def std_obs(b):
        """json.loads with the float token hooks -> ('ok', value) | ('reject',) | ('skip', why)"""
        try:
            return ("ok", lenient.loads(b, parse_float=FloatTok, parse_constant=FloatTok))
        except RecursionError:
            return ("skip", "RecursionError")
        except ValueError as ex:           # JSONDecodeError, UnicodeDecodeError
            if "Exceeds the limit" in str(ex):
                return ("skip", "int digit limit")
            return ("reject",)

    terms, descs = [], []
    stats = collections.Counter()
    nobs = 0
    ident = lambda f: repr(f)
    for b, kind in texts:
        dist["reader-input:" + kind] += 1
        obs, desc = [], {"input": repr(b)[:300], "kind": kind}

        def emit(mode, o, name, shown):
            obs.append(f"({mode}, {'None' if o is None else 'Some ' + o})")
            desc[name] = shown

        # 5: which decoder json.loads picks
        u8 = is_utf8_branch(b)
        emit(5, "(JBool true)" if u8 else "(JBool false)", "detect_encoding", json.detect_encoding(b))
        # 0: json.loads(bytes)
        if u8:
            o = std_obs(b)
            if o[0] == "skip":
                stats["json.loads skipped: " + o[1]] += 1
            else:
                stats["json.loads " + ("accepts" if o[0] == "ok" else "rejects") + " " + kind] += 1
                emit(0, enc_jv(o[1], ident) if o[0] == "ok" else None, "json.loads(bytes)", repr(o[1:])[:300])
        else:
            stats["json.loads: utf-16/32 branch of detect_encoding (outside the model)"] += 1
        # 3 / 4: the UTF-8 decoder alone
        try:
            s = b.decode("utf-8", "surrogatepass")
            emit(3, "JNull" if [ord(c) for c in s] == list(b) else f"(JStr {cps(s)})", "decode(surrogatepass)", "ok")
        except UnicodeDecodeError:
            s = None
            emit(3, None, "decode(surrogatepass)", "UnicodeDecodeError")
        try:
            b.decode("utf-8")
            emit(4, "(JBool true)", "decode(strict)", "ok")
        except UnicodeDecodeError:
            emit(4, "(JBool false)", "decode(strict)", "UnicodeDecodeError")
        # 2: json.loads(str)
        if s is not None:
            o = std_obs(s)
            if o[0] != "skip":
                emit(2, enc_jv(o[1], ident) if o[0] == "ok" else None, "json.loads(str)", repr(o[1:])[:300])
        # 1: orjson.loads
        if strict_loads is not None:
            ref = std_obs(b) if u8 else ("reject",)
            if ref[0] == "ok" and not ints_floats_ok_for_orjson(ref[1]):
                stats["orjson.loads skipped: 64-bit-overflowing integer / overflowing float literal"] += 1
            elif ref[0] == "skip":
                pass
            else:
                try:
                    v = strict_loads(b)
                    stats["orjson.loads accepts " + kind] += 1
                    emit(1, enc_jv(v, lambda f: ""), strict_name, repr(v)[:300])
                except ValueError:
                    stats["orjson.loads rejects " + kind] += 1
                    emit(1, None, strict_name, "JSONDecodeError")
        nobs += len(obs)
        terms.append(f"({cps(b)}, [{'; '.join(obs)}])")
        descs.append(desc)
    bad, _ = eval_shards(run, "jsonr", "rcase", "rcase_ok", terms, per=150)
    dist.update(stats)
    run.record_corr("json-reader", len(terms), [descs[i] for i in bad],
                    sum(1 for d in descs if d.get("json.loads(bytes)", "").startswith("(") and not d["json.loads(bytes)"].startswith("()")),
                    {k: v for k, v in dist.items() if k.startswith(("reader-input:", "json.loads", "orjson.loads"))}
                    | {"observations": nobs,
                       "rule": "one case = one input text with all its observations: std_loads vs json.loads(bytes) [float tokens via "
                               "parse_float], json_read_strict vs orjson.loads [up to float tokens], parse_text vs json.loads(str), utf8_dec vs "
                               "bytes.decode (surrogatepass and strict), std_utf8_branch vs json.detect_encoding; accept/reject and value"})


def codec_stream(run, records, dist):
    """end to end: the bytes typelib.codec(T).encode(v) / typelib.encode(v, t=T) return vs json_write of the translation of
    marshal(v, t=T) (the instance enc = json_dumps . mar of Proofs/CodecBridge.v), for the default pair and the stdlib pair;
    and the atom-table laws (TableLaws) sampled on every scalar and key of those wire values."""
    import c02_universe as U
    import impl
    import typelib
    bes, js, is_orjson = backends()
    terms, descs = [], []
    law = collections.Counter()

    def std_dumps(w):
        return json.dumps(w).encode("utf-8")

    for case, w in records:
        for (name, code, dumps, tok), kw in ((bes[0], {}), (bes[1], {"encoder": std_dumps, "decoder": json.loads})):
            outs = []
            for how in ("codec", "encode"):
                try:
                    impl.clear_caches()
                    _, T, v = U.build(case)
                    b = typelib.codec(T, **kw).encode(v) if how == "codec" else typelib.encode(v, t=T, **({"encoder": kw["encoder"]} if kw else {}))
                    if isinstance(b, str) and not is_orjson and not kw:
                        b = b.encode("utf-8")        # json.dumps as the configured encoder returns the text itself
                    outs.append(bytes(b) if isinstance(b, (bytes, bytearray, memoryview)) else ("not bytes", repr(b)[:80]))
                except Exception:
                    outs.append(None)
            for how, obs in zip(("codec(T).encode(v)", "typelib.encode(v, t=T)"), outs):
                if isinstance(obs, tuple):
                    terms.append(f"({code}, JNull, Some [0])")        # never equal: reported
                else:
                    terms.append(f"({code}, {enc_jv(w, tok)}, {'None' if obs is None else 'Some ' + cps(obs)})")
                descs.append({"pair": name, "entry": how, "texpr": case["texpr"], "vexpr": case["vexpr"][:300],
                              "marshal": repr(w)[:300], "observed": repr(obs)[:300]})
        # TableLaws: unat inverts atab / ktab -- the decoder gives back the same scalar with the same class
        for x in walk(w):
            if type(x) in (list, dict):
                continue
            for name, code, dumps, tok in bes:
                loads = js.loads if name.startswith("compat") else json.loads
                try:
                    y = loads(dumps(x))
                    ok = type(y) is type(x) and (y == x) and (type(x) is not float or repr(y) == repr(x))
                    if ok and type(x) is str:       # the key law: the same str as a key
                        ok = list(loads(dumps({x: None}))) == [x]
                except Exception:
                    outside = (type(x) is int and not (I64_MIN <= x <= U64_MAX)) or \
                              (type(x) is str and any(0xD800 <= ord(c) < 0xE000 for c in x))
                    if outside:                  # not a law instance: the encoder raises there (orjson_dom / str_ok)
                        law["TableLaws:outside the encoder's domain"] += 1
                        continue
                    ok = False
                law["TableLaws:unat(atab(x)) == x:" + ("held" if ok else "violated")] += 1
                if not ok:
                    run.samples.append({"TableLaws violated": repr(x)[:200], "backend": name})
    bad, _ = eval_shards(run, "jsonc", "wcase", "wcase_ok", terms)
    run.record_corr("json-codec", len(terms), [descs[i] for i in bad], sum(1 for d in descs if d["observed"] != "None"),
                    {"rule": "one case = (T, v, coder pair, entry point): the bytes the entry point returns vs json_write(style)(tr(marshal(v, t=T))) "
                             "evaluated in Coq (the bridge instance enc = json_dumps . mar); (T, v) from c02_universe.gen_case, not bytes-like, "
                             "marshal(v, t=T) plain JSON data"})
    run.laws.update(law)
    viol = {k: v for k, v in law.items() if k.endswith(":violated")}
    run.oblige("laws:TableLaws (the decoder gives back each wire scalar / key with its class) on every sampled wire atom", not viol,
               json.dumps(viol))


# ----------------------------------------------------------------------------------
# entry point
# ----------------------------------------------------------------------------------

def obligations(run, bridge: bool = True):
    import os
    for rel, thms in PROPS + (BRIDGE_PROPS if bridge else []):
        if os.path.exists(os.path.join(lib.THEORIES, rel)):
            run.check_props(rel, thms)
        else:
            run.oblige(f"props:{rel} exists", False, "file missing")
    bes, js, is_orjson = backends()
    try:
        import orjson
    except ImportError:
        orjson = None
    run.oblige("reflect:compat.json is the orjson module (compact form) or the standard json module (default form)",
               (js is orjson or js is json) and bes[0][2](["a", {"b": 1}]) == (b'["a",{"b":1}]' if is_orjson else b'["a", {"b": 1}]')
               and bes[1][2](["a", {"b": 1}]) == b'["a", {"b": 1}]', f"compat.json = {js!r}")
    dist = collections.Counter()
    records = []
    ws = wire_values(run, run.budget(350, 1500), run.budget(150, 500), dist, records)
    emitted = writer_stream(run, ws, dist)
    roundtrip_stream(run, ws, dist)
    reader_stream(run, emitted, dist)
    if bridge:
        codec_stream(run, records, dist)
    run.assumptions += [
        "C02/bridge: Props/C02Bridge.v derives codec(T).decode(codec(T).encode(v)) = v and the valid-JSON clause from C01_roundtrip and "
        "Props/C02Json.v with no hypothesis about the JSON layer; assumed: C01's RoundLaws and hypotheses on (T, v), TableLaws (sampled), "
        "marshal(v) is JSON data with str keys inside the encoder's domain, Core.mar/unm mirror the routines (C01's correspondence)",
        "C02/json: the float <-> shortest-repr conversion of the interpreter / orjson is outside the model: a float is its literal text "
        "(float_tok_ok = the text is a JSON number with a fraction or exponent); json.detect_encoding's UTF-16/32 branches, the 4300-digit "
        "limit of int(), recursion limits of the parsers and orjson.loads' reading of 64-bit-overflowing integers as floats are outside",
    ]
