"""Merges findings.d/Cxx.json ({"open": [...], "fixed": [...]}) into known_findings.json (run by hand)."""
import json, os
VERIF = os.path.dirname(os.path.dirname(os.path.abspath(__file__)))
out = {"open": [], "fixed": []}
base = os.path.join(VERIF, "findings.d")
for fn in sorted(os.listdir(base)):
    if fn.endswith(".json"):
        d = json.load(open(os.path.join(base, fn)))
        out["open"] += d.get("open", [])
        out["fixed"] += d.get("fixed", [])
ids = [e["id"] for e in out["open"]]
assert len(ids) == len(set(ids)), "duplicate finding ids"
json.dump(out, open(os.path.join(VERIF, "known_findings.json"), "w"), indent=1)
print("open:", len(out["open"]), "fixed:", len(out["fixed"]))
